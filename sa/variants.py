''' Thorough tier: self-validation of the checkers on AST/text-computed variants of the CURRENT tree.

* break variants  - one edit that breaks exactly one obligation's slot; expected: the property check reports a
                    violation of (one of) the named obligation(s) that is not a listed known finding.
* benign variants - behaviour-preserving edits (whole-tree re-formatting through ast.unparse, local renames, guard
                    re-shaping, temporaries); expected: exactly the finding keys of the unedited tree.
* seeded variants - the confirmed sub-agent changes under /verif/seeded (active ones must be caught by their own
                    property check, neutralised ones must stay silent).

Variants are applied to in-memory copies (Tree overlay) or scratch copies below $TMPDIR that are removed at once; nothing
is written to /repo or /verif.  A variant whose anchor text is not found exactly once is skipped and counted.  A mismatch
means the CHECKER is broken: ANALYSIS-ERROR selftest ..., exit 2 (never a property verdict).
'''
import ast
import glob
import json
import os
import re
import shutil
import subprocess
import sys
import tempfile
from concurrent.futures import ProcessPoolExecutor

from .core import Tree, AnalysisError
from .report import Check, load_known, VERIF

S = 'tcpcl/session.py'
M = 'tcpcl/messages.py'
BA = 'bp/agent.py'
BU = 'bp/util.py'
FR = 'bp/app/fragment.py'
SEC = 'bp/app/bpsec.py'
BL = 'bp/encoding/blocks.py'
BN = 'bp/encoding/bundle.py'
UA = 'udpcl/agent.py'
BT = 'btpu/agent.py'

# (expected obligations, file, old text, new text)
BREAK = {
    'C01': [
        (['C01.i'], S, "            except (BlockingIOError, ssl.SSLWantWriteError, ssl.SSLWantReadError):\n                # the socket cannot take more right now: keep the octets\n                # and wait for it to become writable\n                return True\n", ""),
        (['C01.a'], S, "self._tx_tmp = self._tx_pend_start.pop(0)", "self._tx_tmp = self._tx_pend_start.pop()"),
        (['C01.b'], S, "self.__rx_buf = self.__rx_buf[len(pkt_data):]", "self.__rx_buf = self.__rx_buf[len(pkt_data) + 1:]"),
        (['C01.b'], S, "self.__tx_buf = self.__tx_buf[tx_size:]", "self.__tx_buf = self.__tx_buf[len(data):]"),
        (['C01.c'], S, "if self._tx_length == 0:\n            flg |= messages.TransferSegment.Flag.START", "if self._tx_length <= self._send_segment_size:\n            flg |= messages.TransferSegment.Flag.START"),
        (['C01.c'], S, "self.send_xfer_data(self._tx_tmp.transfer_id, data, flg, ext_items)", "self.send_xfer_data(self._tx_next_id, data, flg, ext_items)"),
        (['C01.d'], S, "elif self._rx_tmp is None or self._rx_tmp.transfer_id != transfer_id:", "elif self._rx_tmp is None:"),
        (['C01.d'], S, "            item = self._rx_tmp\n            self._rx_bundles.append(item)", "            item = BundleItem()\n            self._rx_bundles.append(item)"),
        (['C01.e'], S, "        if flags & messages.TransferSegment.Flag.END:\n            if not self._do_send_ack_final or item not in self._tx_pend_ack:", "        if True:\n            if not self._do_send_ack_final or item not in self._tx_pend_ack:"),
        (['C01.f'], S, "        # send next segment (a zero-length bundle is one empty START+END segment)\n", "        if self._tx_length == self._tx_tmp.total_length:\n            return False\n"),
    ],
    'C04': [
        (['C04.d'], S, "        if self._tx_length == 0:\n            flg |= messages.TransferSegment.Flag.START\n            if 'private_extensions' in self._config.enable_test:\n                ext_items.append(messages.TransferExtendHeader(flags=messages.SessionExtendHeader.Flag.CRITICAL) / extend.TransferPrivateDummy())\n", "        if 'private_extensions' in self._config.enable_test:\n            ext_items.append(messages.TransferExtendHeader(flags=messages.SessionExtendHeader.Flag.CRITICAL) / extend.TransferPrivateDummy())\n        if self._tx_length == 0:\n            flg |= messages.TransferSegment.Flag.START\n"),
        (['C04.d'], S, "        if ext_items and not flg & messages.TransferSegment.Flag.START:\n            raise RuntimeError(\n                'Cannot send extension items outside of START message')\n", ""),
        (['C04.a'], S, "        if not self._in_sess:\n            raise RuntimeError(\n                'Attempt to transfer before session established')\n        if ext_items and", "        if ext_items and"),
        (['C04.a'], S, "        if self._in_term:\n            raise RuntimeError('Already in terminating state')\n", ""),
        (['C04.b'], S, "        if not self._as_passive:\n            # Passive side listens first\n            self._conhead_this = self.send_contact_header().payload\n\n        self._update_state('contact-negotiating')", "        self._conhead_this = self.send_contact_header().payload\n\n        self._update_state('contact-negotiating')"),
        (['C04.c', 'C04.c2'], S, "            if self._in_term:\n                # no new transfer may start after SESS_TERM\n                return False\n", ""),
        (['C04.e'], S, "        self._send_segment_size = min(\n            self._config.segment_size_tx_initial,\n            self._sessinit_peer.segment_mru\n        )", "        self._send_segment_size = self._config.segment_size_tx_initial"),
        (['C04.f'], S, "                self.send_xfer_ack(transfer_id, recv_length, flags)\n\n            item = self._rx_tmp", "                self.send_xfer_ack(transfer_id, recv_length, 0)\n\n            item = self._rx_tmp"),
        (['C04.g'], S, "        self._tx_next_id += 1\n        return bid", "        self._tx_next_id = (self._tx_next_id + 1) % 4\n        return bid"),
        (['C04.h'], M, "packet.bind_layers(MessageHead, TransferAck, msg_id=0x2)\npacket.bind_layers(MessageHead, TransferRefuse, msg_id=0x3)", "packet.bind_layers(MessageHead, TransferAck, msg_id=0x3)\npacket.bind_layers(MessageHead, TransferRefuse, msg_id=0x2)"),
    ],
    'C05': [
        (['C05.e'], SEC, "        if ctr.bundle.primary.bundle_flags & PrimaryBlock.Flag.IS_FRAGMENT:\n            # a fragment carries the security blocks of the original bundle\n            return\n\n        # No configuration here yet\n        for ctx in self._contexts.values():\n            ctx.apply_bib", "        # No configuration here yet\n        for ctx in self._contexts.values():\n            ctx.apply_bib"),
        (['C05.a'], FR, "            and orig_size > mtu\n", "            and orig_size >= 0\n"),
        (['C05.b'], FR, "            frag_offset += frag_size\n", "            frag_offset += frag_size + 1\n"),
        (['C05.c'], FR, "            fctr.bundle.primary.total_app_data_len = payload_size", "            fctr.bundle.primary.total_app_data_len = frag_size"),
        (['C05.d'], FR, "frag_size = mtu - (non_pyld_size - 1 + pyld_size_enc)", "frag_size = mtu - (non_pyld_size - 1)"),
        (['C05.e'], SEC, "        tx_chain.append(ChainStep(\n            order=11,", "        tx_chain.append(ChainStep(\n            order=21,"),
        (['C05.f'], BA, "                # never transmit a bundle that a TX step could not process\n                raise\n", "                break\n"),
        (['C05.g'], FR, "        pyld_blk.remove_payload()\n", ""),
    ],
    'C06': [
        (['C06.d'], FR, "            rctr.bundle.primary.update_crc()\n", "            rctr.bundle.primary.crc_type = AbstractBlock.CrcType.NONE\n            rctr.bundle.primary.crc_value = None\n"),
        (['C06.b'], FR, "        if reassm.valid == reassm.total_valid:", "        if reassm.valid.upper == reassm.total_valid.upper:"),
        (['C06.c'], FR, "        reassm.valid |= portion.closedopen(frag_offset, end_ix)", "        reassm.valid |= portion.closedopen(0, end_ix)"),
        (['C06.d'], FR, "        ctr.actions.clear()\n        return True", "        return True"),
        (['C06.e'], FR, "        if frag_offset == 0:\n            reassm.first_frag = ctr.bundle", "        if reassm.first_frag is None:\n            reassm.first_frag = ctr.bundle"),
    ],
    'C07': [
        (['C07.g'], 'tcpcl/formats.py', "        return (None, s)\n", "        return (None, None)\n"),
        (['C07.a'], S, "            if self._tls_attempt:\n                if self.__rx_buf:\n", "            if self._tls_attempt or self._config.tls_enable:\n                if self.__rx_buf:\n"),
        (['C07.b'], 'tcpcl/cmd.py', "    logging.basicConfig(\n", "    from scapy.config import conf\n    conf.debug_dissector = True\n    logging.basicConfig(\n"),
        (['C07.d'], M, "    def post_dissection(self, pkt):\n        ''' remove padding from payload list after disect() completes '''\n", "    def pre_dissect(self, s):\n        if len(s) < 3:\n            raise formats.VerifyError('Message too short')\n        return s\n\n    def post_dissection(self, pkt):\n        ''' remove padding from payload list after disect() completes '''\n"),
        (['C07.a'], S, "        while sock is self.__s_tls and sock.pending() > 0:\n            data = sock.recv(self.CHUNK_SIZE)\n            if not data:\n                break\n            self.recv_raw(data)\n", ""),
        (['C07.b'], 'tcpcl/contact.py', "        if len(s) < len(MAGIC_HEAD) + 1:\n            raise formats.VerifyError('Contact header too short')\n", ""),
        (['C07.b'], 'tcpcl/contact.py', "        if not self.payload:\n            raise formats.VerifyError('Contact header without payload')\n", ""),
        (['C07.b'], 'tcpcl/contact.py', "        if len(s) < len(MAGIC_HEAD) + 1:", "        if len(s) < len(MAGIC_HEAD):"),
        (['C07.g'], 'tcpcl/contact.py', "        formats.remove_padding(self)\n", ""),
        (['C07.d'], M, "            if msgcls.fields_desc:\n                raise formats.VerifyError('Message without payload')", "            if True:\n                raise formats.VerifyError('Message without payload')"),
        (['C07.e'], M, "packet.bind_layers(MessageHead, TransferAck, msg_id=0x2)\npacket.bind_layers(MessageHead, TransferRefuse, msg_id=0x3)", "packet.bind_layers(MessageHead, TransferAck, msg_id=0x3)\npacket.bind_layers(MessageHead, TransferRefuse, msg_id=0x2)"),
        (['C07.a'], S, "                self._logger.debug('Decoded partial packet: %s', err)\n                return", "                self._logger.debug('Decoded partial packet: %s', err)\n                self.__rx_buf = self.__rx_buf[1:]\n                return"),
        (['C07.c'], M, "        formats.verify_sized_item(self.length, self.getfieldval('data'))\n", ""),
    ],
    'C08': [
        (['C08.e'], 'bp/encoding/fields.py', "        if s and s[0] is None:\n", "        if s and s[0] is None and False:\n"),
        (['C08.e'], 'scapy_cbor/fields.py', "        if not isinstance(lst, (list, tuple)):\n            # a byte string also iterates as integers\n            raise DecodeError('Item for {} is not an array: {!r}'.format(self.name, lst))\n", ""),
        (['C08.e'], 'scapy_cbor/fields.py', "(isinstance(s[0], bool) or not isinstance(s[0], int))", "(not isinstance(s[0], int))"),
        (['C08.e'], 'scapy_cbor/fields.py', "        if s and s[0] is not None and not isinstance(s[0], bytes):\n            raise DecodeError('Item for {} is not a byte string: {!r}'.format(self.name, s[0]))\n", ""),
        (['C08.e'], 'bp/encoding/fields.py', "        if isinstance(scheme_type, bool) or not isinstance(scheme_type, int):", "        if not isinstance(scheme_type, int):"),
        (['C08.e'], 'bp/encoding/fields.py', "        if not isinstance(x, (list, tuple)):\n            # a byte string also indexes as integers\n            raise ValueError('EID is not an array')\n", ""),
        (['C08.d'], BL, "    def do_dissect_payload(self, s):\n        ''' All items of a block array are fields of the block. '''\n        if s:\n            raise ValueError('Block array has {} extra items'.format(len(s)))\n\n", ""),
        (['C08.d'], 'scapy_cbor/packets.py', "                if buf.tell() != len(s):\n                    # what follows the item would be silently lost\n                    raise ValueError('Extra data after the CBOR item')\n", ""),
        (['C08.a'], BA, "        ctr.bundle.update_all_crc()\n\n", "\n"),
        (['C08.b'], BA, "        if invalid_crc:\n            self._logger.warning('CRC invalid for block numbers: %s', invalid_crc)\n            return\n", "        if invalid_crc:\n            self._logger.warning('CRC invalid for block numbers: %s', invalid_crc)\n"),
        (['C08.d'], BL, "'func': crcmod.predefined.mkPredefinedCrcFun('x-25'),", "'func': crcmod.predefined.mkPredefinedCrcFun('crc-16'),"),
        (['C08.c'], BN, "        for blk in self.blocks:\n            if not blk.check_crc():\n                fail.add(blk.block_num)", "        for blk in self.blocks[:1]:\n            if not blk.check_crc():\n                fail.add(blk.block_num)"),
    ],
    'C09': [
        (['C09.a'], S, "        if self._in_term and self._term_recv and self.is_sess_idle():", "        if self._in_term and self.is_sess_idle():"),
        (['C09.a'], S, "        if buf_empty and up_empty:\n            self.send_drained()\n", ""),
        (['C09.a'], S, "        Messenger.recv_sess_term(self, reason)\n        self._term_recv = True\n", "        Messenger.recv_sess_term(self, reason)\n"),
        (['C09.i'], S, "            and len(self.__tx_buf) == 0\n            and self.send_pending() == 0\n", "            and len(self.__tx_buf) == 0\n"),
        (['C09.a'], S, "        # the buffer has drained only now, after the last handler returned\n        self._check_sess_term()\n", ""),
        (['C09.c'], S, "        if self._in_term:\n            # it could never be started, and would keep the session from closing\n            raise RuntimeError('Cannot send a bundle in terminating state')\n", ""),
        (['C09.c'], S, "                item.total_length or 0,\n                'connection closed'\n            )\n", "                item.total_length or 0,\n                'success'\n            )\n"),
        (['C09.e'], S, "        if not self._in_sess:\n            # no session to terminate gracefully yet\n            self.close()\n            return\n", ""),
        (['C09.e'], S, "        if self._in_term:\n            # termination is already in progress\n            return\n", ""),
        (['C09.d'], S, "            if self._in_term:\n                # no new transfer may start after SESS_TERM\n                return False\n", ""),
        (['C09.f'], 'tcpcl/agent.py', "        path = hdl.object_path\n        self.connection_closed(path)\n", "        path = hdl.object_path\n"),
        (['C09.b'], S, "                        self.send_sess_term(pkt.payload.reason, True)", "                        self.send_sess_term(pkt.payload.reason, False)"),
        (['C09.e'], S, "        if self._in_term:\n            # already terminating and nothing further heard\n            self.close()\n            return False\n", ""),
        (['C09.g'], 'tcpcl/agent.py', "        for hdl in tuple(self._handlers):\n            hdl.close()", "        for hdl in self._handlers:\n            hdl.close()"),
    ],
    'C10': [
        (['C10.u'], 'bp/app/safe.py', "self._safe.own_eid = safe_config.get('endpoint')", "self._safe.own_eid = safe_config.get('endpoint') or (config.node_id + 'safe')"),
        (['C10.c'], 'bp/config.py', "                            self.rx_route_table.append(RxRouteItem(", "                            self.rx_route_table.insert(0, RxRouteItem("),
        (['C10.c'], 'bp/config.py', "                                action=item['action'],\n", "                                action=item.get('action', 'deliver'),\n"),
        (['C10.b'], BU, "        if pri.bundle_flags & PrimaryBlock.Flag.IS_FRAGMENT:\n            # fragments with the same offset can differ in extent\n", "        if True:\n"),
        (['C10.b'], BU, "                len(pyld_data) if pyld_data is not None else 0,\n", ""),
        (['C10.c'], BA, "            if match is not None:\n                found = item\n                break\n        if found:\n            self._logger.debug('Route found: %s', found)\n            ctr.record_action(found.action)", "            if match is not None:\n                found = item\n        if found:\n            self._logger.debug('Route found: %s', found)\n            ctr.record_action(found.action)"),
        (['C10.d'], 'bp/app/safe.py', "        if not self._recv_for(ctr, self._safe.own_eid):\n            return False\n", ""),
        (['C10.e'], BA, "        ctr.record_action('receive')\n", "        ctr.actions['receive'] = None\n"),
    ],
    'C11': [
        (['C11.c'], BA, "            for blk in ctr.block_type(HopCountBlock):\n", "            for blk in ctr.block_type(HopCountBlock)[:1]:\n"),
        (['C11.b'], BA, "                # re-encode the block data from the updated payload\n                blk.delfieldval('btsd')\n", ""),
        (['C11.c'], BA, "            for blk in list(ctr.block_type(6)):", "            for blk in ctr.block_type(6):"),
        (['C11.c'], BA, "            for blk in list(ctr.block_type(6)):", "            for blk in list(ctr.block_type(PreviousNodeBlock)):"),
        (['C11.c'], BA, "                age = max(0, now_dtntime - create_dtntime)", "                age = now_dtntime - create_dtntime"),
        (['C11.c'], BA, "            if create_dtntime == 0:\n                # the received age is all that is known about the bundle\n                age_blks = age_blks[1:]\n", ""),
        (['C11.d'], BU, "            blk.setfieldval('block_num', blk_num)\n", "            blk.overloaded_fields['block_num'] = blk_num\n"),
        (['C11.a'], FR, "            fctr.actions = dict(ctr.actions)\n", ""),
        (['C11.c'], BA, "                blk.payload.count += 1", "                blk.payload.count += 2"),
        (['C11.d'], BU, "        self.bundle.blocks.insert(-1, blk)", "        self.bundle.blocks.append(blk)"),
        (['C11.a'], BA, "        if 'receive' not in ctr.actions:\n            # defaults only apply to bundles originated here\n            self._apply_primary(ctr)", "        self._apply_primary(ctr)"),
    ],
    'C12': [
        (['C12.a'], SEC, "            order=19,", "            order=31,"),
        (['C12.b'], SEC, "            LOGGER.warning('Deleting bundle with BCB failure codes %s', failure)\n            del ctr.actions['deliver']\n", "            LOGGER.warning('Deleting bundle with BCB failure codes %s', failure)\n"),
        (['C12.c'], BA, "                ctr.record_action('delete')\n                break\n\n        if 'delete' in ctr.actions:", "                ctr.record_action('delete')\n\n        if 'delete' in ctr.actions:"),
        (['C12.b'], SEC, "        integ_blocks = ctr.block_type(11)", "        integ_blocks = ctr.block_type(BlockIntegrityBlock)"),
        (['C12.b'], SEC, "            if not isinstance(bib.payload, BlockIntegrityBlock):\n                LOGGER.warning('Undecodable BIB in block num %s', bib.block_num)\n                failure.append(StatusReport.ReasonCode.FAILED_SEC)\n                continue\n", ""),
        (['C12.d'], SEC, "        for param in self.sec_blk.payload.parameters or []:", "        for param in self.sec_blk.payload.parameters:"),
        (['C12.e'], SEC, "        for bib in list(integ_blocks):", "        for bib in integ_blocks:"),
        (['C12.f'], SEC, "                    LOGGER.error('Failed to verify BIB in block num %s with context %s: %s', bib.block_num, bib.payload.context_id, err)\n                    result = StatusReport.ReasonCode.FAILED_SEC", "                    result = 'Failed to verify BIB: {}'.format(err)"),
    ],
    'C13': [
        (['C13.b'], UA, "                pri_item.sender(pri_dgram)\n                self.tok_avail -= need\n", "                pri_item.sender(pri_dgram)\n                self.tok_avail -= need\n                self.cur_dgram = None\n"),
        (['C13.e'], UA, "        buf = BufferedReader(BytesIO(data))\n", "        data = data.rstrip(b'\\x00')\n        buf = BufferedReader(BytesIO(data))\n"),
        (['C13.e'], UA, "        datalen = 64 * 1024\n        anclen = 0", "        datalen = 1500\n        anclen = 0"),
        (['C13.e'], UA, "        data = conn.read(64 * 1024)", "        data = conn.read(self._config.mtu_default or 65536)"),
        (['C13.e'], UA, "                msg_data = data[off_start:off_end]", "                msg_data = data[off_start:]"),
        (['C13.a'], UA, "        if mtu is None or len(data) <= mtu:", "        if mtu is None or len(data) <= 2 * mtu:"),
        (['C13.a'], UA, "        if mtu is None or len(data) <= mtu:", "        if mtu is None or len(data) < mtu:"),
        (['C13.b'], UA, "                except Exception as err:\n                    self._fail_cur_item(err)\n                    continue\n\n            # accounting in millibytes", "\n            # accounting in millibytes"),
        (['C13.e'], UA, "        try:\n            self._recv_datagram(sock, data, conv, ip_tos)\n        except Exception as err:\n            self.__logger.error('Failed handling datagram from %s: %s', conv, err)\n", "        self._recv_datagram(sock, data, conv, ip_tos)\n"),
        (['C13.b'], UA, "            if remain_size <= 0:\n                raise RuntimeError('Segment overhead {} too large for MTU {}'.format(mtu - remain_size, mtu))\n\n            frag_offset = 0", "\n            frag_offset = 0"),
        (['C13.c'], UA, "            remain_size = mtu - (ext_base_encsize - 1 + data_size_encsize)", "            remain_size = mtu - (ext_base_encsize - 1)"),
        (['C13.f'], UA, "        self._rx_queue[item.transfer_id] = item\n        self.recv_bundle_finished(str(item.transfer_id), item.total_length, metadata)", "        self.recv_bundle_finished(str(item.transfer_id), item.total_length, metadata)\n        self._rx_queue[item.transfer_id] = item"),
    ],
    'C14': [
        (['C14.g'], 'tcpcl/formats.py', "    def __init__(self, name, default):\n        fields.Field.__init__(self, name, default, '!H')\n", "    def __init__(self, name, default):\n        fields.Field.__init__(self, name, default, '!H')\n\n    def i2m(self, pkt, x):\n        return int(x or 0) % 65536\n"),
        (['C14.b'], S, "                val = dbus.UInt64(val)", "                val = dbus.UInt64(min(2 ** 31 - 1, val))"),
        (['C14.d'], S, "        if not self._in_term:\n            # once terminating only what is heard from the peer defers\n            # the idle close, not the keepalives this side keeps sending\n            self._idle_reset()", "        self._idle_reset()"),
        (['C14.d'], S, "        # the last time this side defers the idle close by itself\n        self._idle_reset()\n", ""),
        (['C14.a'], S, "        self._keepalive_time = min(self._sessinit_this.keepalive,\n                                   self._sessinit_peer.keepalive)", "        self._keepalive_time = max(self._sessinit_this.keepalive,\n                                   self._sessinit_peer.keepalive)"),
        (['C14.a'], S, "                int(self._idle_time * 1e3), self._idle_timeout)", "                int(self._idle_time), self._idle_timeout)"),
        (['C14.b'], S, "            peer_segment_mru=self._sessinit_peer.segment_mru,", "            peer_segment_mru=self._sessinit_this.segment_mru,"),
        (['C14.d'], S, "        self._keepalive_reset()\n        if not self._in_term:\n            # once terminating only what is heard from the peer defers\n            # the idle close, not the keepalives this side keeps sending\n            self._idle_reset()", "        self._keepalive_reset()"),
    ],
    'C15': [
        (['C15.k'], 'tcpcl/agent.py', "config=self._config, sock=newsock", "config=copy.copy(self._config), sock=newsock"),
        (['C15.j'], S, "    def close(self):\n        self._idle_stop()\n        self._keepalive_stop()\n", "    def close(self):\n        if self._in_term and not self.is_sess_idle():\n            return\n        self._idle_stop()\n        self._keepalive_stop()\n"),
        (['C15.a'], S, "        self._tls_attempt = (this_can_tls and peer_can_tls)", "        self._tls_attempt = (this_can_tls or peer_can_tls)"),
        (['C15.b'], S, "                if self.is_secure() != self._config.require_tls:\n                    self._logger.error('TLS result violated policy')\n                    self.close()\n                    return", "                if self.is_secure() != self._config.require_tls:\n                    self._logger.error('TLS result violated policy')"),
        (['C15.c'], S, "            netname_absent = not authn_ipaddrid and not authn_dnsid", "            netname_absent = authn_ipaddrid is None and authn_dnsid is None"),
        (['C15.d'], S, "                        self._sess_refused = True\n                        raise\n                    self._update_state('established')", "                        raise\n                    self._update_state('established')"),
        (['C15.b'], S, "                if self.__rx_buf:\n                    # nothing in the clear may follow the contact header,\n                    # it would be taken for part of the secured stream\n                    self._logger.error('Unsecured data before TLS handshake')\n                    self.close()\n                    return\n", ""),
    ],
    'C16': [
        (['C16.l'], 'bp/encoding/fields.py', "        if s and s[0] is None:\n", "        if s and s[0] is None and False:\n"),
        (['C16.e'], SEC, "                if not isinstance(param.value, bytes):\n                    raise ValueError('Additional protected parameter is not a byte string')\n", ""),
        (['C16.f'], SEC, "            for blk_num in target_block_nums:\n                sop = copy.copy(sop)\n", "            sop = copy.copy(sop)\n            for blk_num in target_block_nums:\n"),
        (['C16.e'], SEC, "                self.addl_protected = bytes(param.value)\n", "                self.addl_protected = cbor2.dumps(cbor2.loads(bytes(param.value)))\n"),
        (['C16.c'], SEC, "            elif isinstance(msg_obj, EncMessage):", "            elif isinstance(msg_obj, MacMessage):"),
        (['C16.a'], SEC, "                    tgt_blk.setfieldval('type_code', tgt_blk.getfieldval('type_code'))\n                    tgt_blk.remove_payload()\n                    msg_dec[2] = None\n\n                elif keyops.WrapOp", "                    tgt_blk.remove_payload()\n                    msg_dec[2] = None\n\n                elif keyops.WrapOp"),
        (['C16.a'], SEC, "                    msg_dec = cbor2.loads(msg_enc)\n                    tgt_blk.setfieldval('btsd', msg_dec[2])\n                    # a parsed payload would put the plaintext back\n                    # when the block is built\n                    # (the block type code it implied is kept)\n                    tgt_blk.setfieldval('type_code', tgt_blk.getfieldval('type_code'))\n                    tgt_blk.remove_payload()\n                    msg_dec[2] = None\n\n                elif keyops.WrapOp", "                    msg_dec = cbor2.loads(msg_enc)\n                    msg_dec[2] = None\n\n                elif keyops.WrapOp"),
        (['C16.a'], SEC, "                    tgt_blk.remove_payload()\n                    msg_dec[2] = None\n\n                elif keyops.WrapOp", "                    msg_dec[2] = None\n\n                elif keyops.WrapOp"),
        (['C16.b'], SEC, "        if plaintext is not None:\n            LOGGER.info('Verified BCB num", "        if plaintext:\n            LOGGER.info('Verified BCB num"),
    ],
    'C17': [
        (['C17.d'], S, "                item = self._rx_tmp\n                self._rx_teardown()\n                self.recv_bundle_finished(\n                    str(item.transfer_id),\n                    item.file.tell(),\n                    'abandoned'\n                )\n", "                pass\n"),
        (['C17.a'], S, "            if self.get_app_socket() is None:\n                # closed by the handler, what else was read is void\n                self.__rx_buf = b''\n                return\n", ""),
        (['C17.b'], S, "                    if self._sessinit_peer is not None:\n                        # one SESS_INIT per session, there is no renegotiation\n                        raise RejectError(messages.RejectMsg.Reason.UNEXPECTED)\n", ""),
        (['C17.d'], S, "            if transfer_id in self._rx_map:\n                # each ID only once: the bundle waiting to be popped\n                # is not replaced\n                raise RejectError(messages.RejectMsg.Reason.UNEXPECTED)\n", ""),
        (['C17.f'], M, "            # its header alone is passed on to be rejected\n            self.remove_payload()", "            # its header alone is passed on to be rejected\n            pass"),
        (['C17.f'], M, "        if msgcls is self.default_payload_class(b''):", "        if False:"),
        (['C17.a'], 'tcpcl/contact.py', "        if len(s) < len(MAGIC_HEAD) + 1:\n            raise formats.VerifyError('Contact header too short')\n", ""),
        (['C17.e'], S, "        self._tx_pend_ack.discard(item)\n        if item in self._tx_pend_start:", "        self._tx_pend_ack.clear()\n        if item in self._tx_pend_start:"),
        (['C17.a'], S, "        if transfer_id not in self._tx_map:\n            raise RejectError(messages.RejectMsg.Reason.UNEXPECTED)\n\n        if self._config.modulate_target_ack_time is not None:", "        if self._config.modulate_target_ack_time is not None:"),
        (['C17.b'], S, "                elif msgcls in (messages.Keepalive, messages.RejectMsg):", "                elif msgcls in (messages.Keepalive,):"),
        (['C17.c'], S, "                    self.recv_xfer_refuse(pkt.payload.transfer_id, pkt.payload.reason)", "                    self.recv_xfer_refuse(pkt.payload.transfer_id, pkt.payload.flags)"),
        (['C17.a2'], S, "                    if not self._in_sess:\n                        raise RejectError(messages.RejectMsg.Reason.UNEXPECTED)\n                    # Send a reply (if not the initiator)", "                    # Send a reply (if not the initiator)"),
    ],
    'C18': [
        (['C18.a'], UA, "            if not 0 <= interval_ms < 2 ** 31:\n                # announced as INT32 on the bus\n                raise ValueError('Sender Listen interval {} out of range'.format(interval_ms))\n", ""),
        (['C18.c'], S, "        item = self._rx_map[bid]\n\n        import shutil\n", "        item = self._rx_map[bid]\n        del self._rx_map[bid]\n\n        import shutil\n"),
        (['C18.e'], 'bp/cla.py', "conn_iface.connect_to_signal('session_state_changed', handle_state_change)", "conn_iface.connect_to_signal('session_state', handle_state_change)"),
        (['C18.a'], S, "            self.recv_bundle_finished(\n                str(item.transfer_id), recv_length, 'success')", "            self.recv_bundle_finished(\n                item.transfer_id, recv_length, 'success')"),
        (['C18.c'], S, "            self._tx_map.pop(item.transfer_id, None)\n            self._logger.warning('Terminating and ignoring", "            self._logger.warning('Terminating and ignoring"),
        (['C18.c'], S, "            self._tx_map.pop(item.transfer_id, None)\n            self._logger.warning('Closing and ignoring", "            self._logger.warning('Closing and ignoring"),
        (['C18.d'], S, "            and self._tx_tmp is None\n", ""),
        (['C18.a'], UA, "            node_id = str(extmap.get(ExtensionKey.SENDER_NODEID, ''))", "            node_id = extmap.get(ExtensionKey.SENDER_NODEID, '')"),
    ],
    'C19': [
        (['C19.e'], BA, "            # the routing decision was not carried out\n            ctr.actions.pop('forward', None)\n            ctr.record_action('delete', StatusReport.ReasonCode.NO_ROUTE)", "            ctr.record_action('delete', StatusReport.ReasonCode.NO_ROUTE)"),
        (['C19.e'], BA, "                ctr.actions.pop('deliver', None)\n                ctr.actions.pop('forward', None)\n                ctr.record_action('delete')\n", ""),
        (['C19.e'], BA, "            self._finish_bundle(ctr)\n            return\n\n        if 'deliver' in ctr.actions:", "            self._finish_bundle(ctr)\n\n        if 'deliver' in ctr.actions:"),
        (['C19.f'], SEC, "                    LOGGER.error('Failed to verify BIB in block num %s with context %s: %s', bib.block_num, bib.payload.context_id, err)\n                    result = StatusReport.ReasonCode.FAILED_SEC", "                    result = 'Failed to verify BIB: {}'.format(err)"),
        (['C19.a'], BU, "            'delete': PrimaryBlock.Flag.REQ_DELETION_REPORT,\n            'deliver': PrimaryBlock.Flag.REQ_DELIVERY_REPORT,", "            'delete': PrimaryBlock.Flag.REQ_DELIVERY_REPORT,\n            'deliver': PrimaryBlock.Flag.REQ_DELETION_REPORT,"),
        (['C19.b'], BU, "        if status_dest is None or status_dest == 'dtn:none':\n            return None", "        if status_dest is None:\n            return None"),
        (['C19.c'], BU, "            bundle_flags=PrimaryBlock.Flag.PAYLOAD_ADMIN,\n            destination=self.bundle.primary.report_to,", "            bundle_flags=self.bundle.primary.bundle_flags | PrimaryBlock.Flag.PAYLOAD_ADMIN,\n            destination=self.bundle.primary.report_to,"),
        (['C19.d'], BA, "                    # the step took over transmission (e.g. sent fragments)\n                    self._logger.debug('Step %5.1f interrupted the chain', step.order)\n                    return", "                    self._logger.debug('Step %5.1f interrupted the chain', step.order)\n                    break"),
    ],
    'C20': [
        (['C20.n'], BT, "        LOGGER.debug('Sending message size %d from %s to %s', len(data), self.src, self.dst)\n", "        data = data + bytes(max(0, 46 - len(data)))\n        LOGGER.debug('Sending message size %d from %s to %s', len(data), self.src, self.dst)\n"),
        (['C20.m'], BT, "            file=file\n        )\n        return str(self._add_tx_item(item))", "            file=file,\n            transfer_id=self._tx_id\n        )\n        return str(self._add_tx_item(item))"),
        (['C20.g'], BT, "        item.transfer_id = copy.copy(self._rx_id)\n        self._rx_id += 1\n", "        item.transfer_id = copy.copy(self._rx_id)\n"),
        (['C20.f'], BT, "        self._recv_msg(sock, frame.payload.load, conv)", "        self._recv_msg(sock, frame.payload.load.rstrip(b'\\x00'), conv)"),
        (['C20.b'], BT, "        if mtu is None or total_len <= (mtu - 4):", "        if mtu is None or total_len <= mtu:"),
        (['C20.b'], BT, "            if total_len > 0xFFFFF:\n                # the message length field has 20 bits\n                raise RuntimeError('Bundle size {} too large for one message'.format(total_len))\n", ""),
        (['C20.d'], BT, "                    if xfer.timeout_id is not None:\n                        glib.source_remove(xfer.timeout_id)\n                    xfer.timeout_id = glib.timeout_add(RX_XFER_TIMEOUT_MS, self._rx_progress_cancel, key)", "                    glib.timeout_add(RX_XFER_TIMEOUT_MS, self._rx_progress_cancel, key)"),
        (['C20.d'], BT, "                    xfer.data[msg.payload.seg_idx] = bytes(msg.payload.payload)", "                    xfer.data[msg.payload.seg_idx] = msg.payload.payload.load"),
        (['C20.c'], BT, "            remain_size = mtu - len(msg_head) - 8", "            remain_size = mtu - len(msg_head)"),
        (['C20.d'], BT, "                        if xfer.got_idx == full_idx:", "                        if xfer.got_idx.upper == full_idx.upper:"),
        (['C20.e'], BT, "                    if xfer.got_end is not None:", "                    if xfer.got_end:"),
    ],
    'C02': [
        (['C02.c'], 'scapy_cbor/packets.py', "        if isinstance(self.payload, scapy.packet.NoPayload):\n            s = None\n        else:\n            s = CborArray.do_build_payload(self)\n", "        s = CborArray.do_build_payload(self)\n        if s == b'':\n            s = None\n"),
        (['C02.e'], 'bp/encoding/fields.py', "            segs = list(map(int, ssp.split('.')))\n", "            segs = list(map(int, ssp.split('.')))\n            segs[0] = segs[0] & 0xFFFFFFFF\n"),
        (['C02.d'], BN, "        if flags & PrimaryBlock.Flag.PAYLOAD_ADMIN and not flags & PrimaryBlock.Flag.IS_FRAGMENT:", "        if flags & PrimaryBlock.Flag.PAYLOAD_ADMIN:"),
        (['C02.d'], BN, "                    try:\n                        pay = AdminRecord(blk_data)\n                    except Exception:\n                        # a record which this node cannot interpret\n                        # stays opaque block data\n                        continue\n", "                    pay = AdminRecord(blk_data)\n"),
        (['C02.a'], BL, "        UintField('lifetime', default=0),\n", "        UintField('lifetime', default=0),\n        UintField('spare', default=0),\n"),
        (['C02.c'], 'scapy_cbor/packets.py', "            s = b'\\x9f' + s + b'\\xff'", "            s = b'\\x9f' + s"),
        (['C02.d'], BN, "    def self_build(self, field_pos_list=None):\n        # Special handling for admin payload\n        self._update_from_admin()\n", "    def self_build(self, field_pos_list=None):\n"),
    ],
    'C03': [
        (['C03.l'], 'bp/encoding/fields.py', "        if s and s[0] is None:\n", "        if s and s[0] is None and False:\n"),
        (['C03.g'], SEC, "                if not isinstance(param.value, dict):\n                    raise ValueError('AAD scope parameter is not a map')\n", ""),
        (['C03.g'], SEC, "        if not isinstance(msg_enc, bytes):\n            raise ValueError('Result value is not a byte string')\n", ""),
        (['C03.g'], SEC, "                self.aad_scope = dict(param.value)\n", "                self.aad_scope = {k: v & 3 for (k, v) in dict(param.value).items()}\n"),
        (['C03.a'], SEC, "        msg_obj.external_aad = self.get_external_aad()\n", ""),
        (['C03.b'], SEC, "        aad_data = self.ssrc_enc + aad_scope_enc", "        aad_data = aad_scope_enc"),
        (['C03.c'], SEC, "            LOGGER.debug('%s', traceback.format_exc())\n            valid = False\n\n        if valid:", "            LOGGER.debug('%s', traceback.format_exc())\n            valid = True\n\n        if valid:"),
        (['C03.d'], SEC, "            try:\n                val_func(found_chain)\n            except Exception as err:\n                LOGGER.debug('%s', traceback.format_exc())\n                raise RuntimeError(f'Failed to verify cert chain: {err}') from err\n", "            try:\n                val_func(found_chain)\n            except Exception as err:\n                LOGGER.debug('%s', traceback.format_exc())\n"),
    ],
}

# behaviour-preserving text edits: (file, old, new)
BENIGN = {
    'C01': [(S, "        data = self.__tx_buf[:size]\n        if data:", "        chunk = self.__tx_buf[:size]\n        data = chunk\n        if data:"),
            (S, "            self._rx_setup(transfer_id, None)\n\n        elif self._rx_tmp is None or self._rx_tmp.transfer_id != transfer_id:",
                "            self._rx_setup(transfer_id, None)\n\n        elif not (self._rx_tmp is not None and self._rx_tmp.transfer_id == transfer_id):")],
    'C04': [(S, "        if not self._in_sess:\n            raise RuntimeError('Cannot terminate while not in session')\n        if self._in_term:\n            raise RuntimeError('Already in terminating state')",
                "        if not self._in_sess or self._in_term:\n            raise RuntimeError('Cannot terminate now')")],
    'C08': [(BA, "        data = bytes(ctr.bundle)\n        self._logger.info('send_bundle size %d', len(data))", "        encoded = bytes(ctr.bundle)\n        data = encoded\n        self._logger.info('send_bundle size %d', len(data))")],
    'C09': [(S, "        if self._in_term and self._term_recv and self.is_sess_idle():\n            self._logger.info('Closing in terminating state')\n            self.close()", "        if not self._in_term or not self._term_recv:\n            return\n        if self.is_sess_idle():\n            self._logger.info('Closing in terminating state')\n            self.close()"),
            (S, "            self._rx_teardown()\n\n            self._check_sess_term()", "            self._rx_teardown()\n")],
    'C10': [(BA, "        if ident in self._seen_bundle_ident:\n            self._logger.debug('Ignoring already seen bundle %s', ident)\n            return\n        else:\n            self._seen_bundle_ident.add(ident)", "        if ident in self._seen_bundle_ident:\n            self._logger.debug('Ignoring already seen bundle %s', ident)\n            return\n        self._seen_bundle_ident.add(ident)")],
    'C12': [(SEC, "        if failure:\n            LOGGER.warning('Deleting bundle with BIB failure codes %s', failure)\n            if 'deliver' in ctr.actions:\n                del ctr.actions['deliver']", "        if failure:\n            LOGGER.warning('Deleting bundle with BIB failure codes %s', failure)\n            del ctr.actions['deliver']")],
    'C17': [(S, "        if transfer_id not in self._tx_map:\n            raise RejectError(messages.RejectMsg.Reason.UNEXPECTED)\n\n        item = self._tx_map.pop(transfer_id)", "        if not (transfer_id in self._tx_map):\n            raise RejectError(messages.RejectMsg.Reason.UNEXPECTED)\n\n        item = self._tx_map.pop(transfer_id)")],
    'C20': [(BT, "                    if xfer.got_end is not None:", "                    if not (xfer.got_end is None):")],
}


def _keys(check, known):
    out = set()
    for ob in check.obligations:
        if ob.error:
            out.add('ERROR:' + ob.oid + ':' + ob.error[:80])
        for fnd in ob.findings:
            out.add(fnd.key)
    return out


def _decide(prop, overlay=None, root=None):
    from .check import decide
    tree = Tree(root, overlay=overlay)
    return decide(prop, tree)


def _apply_text(tree, rel, old, new):
    src = tree.module(rel).source
    if src.count(old) != 1:
        return None
    out = src.replace(old, new)
    try:
        ast.parse(out)
    except SyntaxError:
        return None
    return {rel: out}


def _job(args):
    (kind, prop, name, payload) = args
    try:
        known = set(load_known()[0].get(prop, {}))
        if kind == 'break':
            (expect, rel, old, new) = payload
            base = Tree()
            ov = _apply_text(base, rel, old, new)
            if ov is None:
                return (kind, name, 'skipped', 'anchor text not found exactly once / edit does not parse')
            chk = _decide(prop, ov)
            hits = [f for ob in chk.obligations for f in ob.findings if f.key not in known]
            obs = {f.obligation for f in hits}
            if obs & set(expect):
                return (kind, name, 'ok', 'reported ' + ', '.join(sorted(obs & set(expect))))
            return (kind, name, 'MISMATCH', 'expected a violation of {} but got {} (errors: {})'.format(expect, sorted(obs), [ob.oid for ob in chk.obligations if ob.error]))
        if kind == 'benign':
            base_keys = _keys(_decide(prop), known)
            if isinstance(payload, str):
                from . import benign
                ov = benign.overlay(Tree(), payload)
            else:
                (rel, old, new) = payload
                ov = _apply_text(Tree(), rel, old, new)
                if ov is None:
                    return (kind, name, 'skipped', 'anchor text not found exactly once')
            var_keys = _keys(_decide(prop, ov), known)
            if var_keys == base_keys:
                return (kind, name, 'ok', 'same verdict ({} finding keys)'.format(len(base_keys)))
            return (kind, name, 'MISMATCH', 'benign edit changed the verdict: +{} -{}'.format(sorted(var_keys - base_keys)[:3], sorted(base_keys - var_keys)[:3]))
        if kind == 'bseeded':
            # a confirmed behaviour-preserving change made by a sub-agent (benign_seeded/<id>): the verdict must not change
            sd = payload
            tmp = tempfile.mkdtemp(prefix='sa_bseed_')
            try:
                shutil.copytree(os.path.join(Tree().root, 'src'), os.path.join(tmp, 'src'), ignore=shutil.ignore_patterns('__pycache__', '*.egg-info'))
                res = subprocess.run(['git', 'apply', os.path.join(sd, 'patch.diff')], cwd=tmp, capture_output=True, text=True)
                if res.returncode:
                    return (kind, name, 'skipped', 'patch does not apply to the current tree')
                base_keys = _keys(_decide(prop), known)
                chk = _decide(prop, None, tmp)
                var_keys = _keys(chk, known)
                errs = [ob.oid for ob in chk.obligations if ob.error]
                # an obligation that gives up (exit 2, INCONCLUSIVE) is not an alarm; a finding that HEAD does not have is
                new = {k for k in var_keys - base_keys if not k.startswith('ERROR:')}
                if new:
                    return (kind, name, 'MISMATCH', 'false alarm on a behaviour-preserving change: ' + ', '.join(sorted(new))[:200])
                if errs:
                    return (kind, name, 'ok', 'no alarm on the behaviour-preserving change (inconclusive: ' + ', '.join(errs) + ')')
                return (kind, name, 'ok', 'silent on the behaviour-preserving change')
            finally:
                shutil.rmtree(tmp, ignore_errors=True)
        if kind == 'seeded':
            sd = payload
            meta = json.load(open(os.path.join(sd, 'meta.json')))
            tmp = tempfile.mkdtemp(prefix='sa_seed_')
            try:
                shutil.copytree(os.path.join(Tree().root, 'src'), os.path.join(tmp, 'src'), ignore=shutil.ignore_patterns('__pycache__', '*.egg-info'))
                res = subprocess.run(['git', 'apply', os.path.join(sd, 'patch.diff')], cwd=tmp, capture_output=True, text=True)
                if res.returncode:
                    return (kind, name, 'skipped', 'patch does not apply to the current tree')
                chk = _decide(prop, None, tmp)
                hits = [f for ob in chk.obligations for f in ob.findings if f.key not in known]
                if meta.get('status') == 'open':
                    # a confirmed harmful change that no rule reports yet (recorded as such in DESIGN 10.7): not a self-test failure
                    if hits:
                        return (kind, name, 'ok', 'open seed is reported now by ' + ', '.join(sorted({f.obligation for f in hits})))
                    return (kind, name, 'skipped', 'open seed: confirmed harmful, not reported by any rule of this property (recorded)')
                if meta.get('status') == 'retired':
                    return (kind, name, 'skipped', 'retired seed (no longer demonstrated on the repaired tree)')
                if meta.get('status') == 'withheld':
                    gated = [ob.oid for ob in chk.obligations if ob.error]
                    if hits:
                        return (kind, name, 'ok', 'caught by ' + ', '.join(sorted({f.obligation for f in hits})))
                    if gated:
                        return (kind, name, 'ok', 'not decided on this restructured tree, INCONCLUSIVE (exit 2) as recorded (' + ', '.join(gated) + ')')
                    return (kind, name, 'MISMATCH', 'withheld seed is neither reported nor inconclusive')
                if meta.get('status') == 'neutralised':
                    if hits:
                        return (kind, name, 'MISMATCH', 'neutralised seed raises an alarm: ' + hits[0].key)
                    return (kind, name, 'ok', 'neutralised seed stays silent')
                if hits:
                    return (kind, name, 'ok', 'caught by ' + ', '.join(sorted({f.obligation for f in hits})))
                return (kind, name, 'MISMATCH', 'seeded change not detected')
            finally:
                shutil.rmtree(tmp, ignore_errors=True)
    except Exception as err:  # pragma: no cover
        import traceback
        return (kind, name, 'MISMATCH', 'internal {}: {} {}'.format(type(err).__name__, err, traceback.format_exc().strip().splitlines()[-2:]))
    return (kind, name, 'skipped', 'unknown kind')


def run(prop, tree):
    jobs = []
    for ix, payload in enumerate(BREAK.get(prop, [])):
        jobs.append(('break', prop, 'break-{}-{}'.format('/'.join(payload[0]), ix), payload))
    from . import benign
    for name in benign.TRANSFORMS:
        jobs.append(('benign', prop, 'benign-tree-' + name, name))
    for ix, payload in enumerate(BENIGN.get(prop, [])):
        jobs.append(('benign', prop, 'benign-{}'.format(ix), payload))
    for sd in sorted(glob.glob(os.path.join(VERIF, 'seeded', prop + '-*'))):
        jobs.append(('seeded', prop, 'seeded-' + os.path.basename(sd), sd))
    # behaviour-preserving changes are judged by every property's check, not only the one they were written for
    for sd in sorted(glob.glob(os.path.join(VERIF, 'benign_seeded', 'C*'))):
        jobs.append(('bseeded', prop, 'benign-' + os.path.basename(sd), sd))
    workers = min(16, max(1, len(jobs)))
    with ProcessPoolExecutor(max_workers=workers) as ex:
        results = list(ex.map(_job, jobs))
    mism = [r for r in results if r[2] == 'MISMATCH']
    for r in results:
        print('selftest {:8s} {:34s} {:9s} {}'.format(r[0], r[1], r[2], r[3][:150]))
    return dict(
        variants_break=sum(1 for r in results if r[0] == 'break' and r[2] == 'ok'),
        variants_benign=sum(1 for r in results if r[0] == 'benign' and r[2] == 'ok'),
        variants_seeded=sum(1 for r in results if r[0] == 'seeded' and r[2] == 'ok'),
        variants_skipped=sum(1 for r in results if r[2] == 'skipped'),
        selftest_mismatches=len(mism),
        selftest_mismatch_list=['{} {}: {}'.format(r[0], r[1], r[3]) for r in mism],
        selftest_results=[dict(kind=r[0], name=r[1], outcome=r[2], detail=r[3][:200]) for r in results],
    )
