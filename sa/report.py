''' Obligation records, known-findings file, evidence and exit-code plumbing. '''
import json
import os
import re
import sys
import time
import traceback

from .core import AnalysisError, Tree

VERIF = os.path.dirname(os.path.dirname(os.path.abspath(__file__)))
KNOWN_FILE = os.path.join(VERIF, 'KNOWN_FINDINGS.txt')

HOLDS, VIOLATED, INCONCLUSIVE = 'HOLDS', 'VIOLATED', 'INCONCLUSIVE'

ASSUMPTIONS = [
    'no monkey-patching of repository classes at run time; no setattr/getattr with computed names on the analysed attributes',
    'callbacks stored in attributes are exactly the functions passed to the corresponding set_on_* setter / glib registration somewhere in the repository',
    'third-party calls (scapy, cbor2, pycose, portion, glib, dbus) behave per their documented contracts; they are not analysed',
    'a call kills branch facts only about attributes the (repo-resolved) callee may write; external calls are assumed not to write analysed attributes',
    'the analysed universe is every non-test module below src/ as parsed on this run (stdlib ast); nothing is imported or executed',
]


class Finding:
    ''' One violated slot of one obligation. '''

    def __init__(self, obligation, rel, qual, construct, message, line=None, witness=None):
        self.obligation = obligation
        self.rel = rel
        self.qual = qual
        self.construct = ' '.join(str(construct).split())
        self.message = message
        self.line = line
        self.witness = witness or []

    @property
    def key(self):
        return '{}|{}:{}|{}'.format(self.obligation, self.rel, self.qual, self.construct)

    def where(self):
        return 'src/{}:{} in {}'.format(self.rel, self.line or '?', self.qual)


class Obligation:
    def __init__(self, oid, rule, text):
        self.oid = oid
        self.rule = rule
        self.text = text
        self.sites = []       # human-readable instances examined
        self.findings = []
        self.error = None     # AnalysisError text => INCONCLUSIVE
        self.floor = 0
        self.undetermined = []

    def site(self, rel, node, what):
        self.sites.append('src/{}:{} {}'.format(rel, getattr(node, 'lineno', '?'), what))

    def note(self, what):
        self.sites.append(what)

    def violate(self, rel, qual, construct, message, node=None, witness=None, sure=False):
        ''' :param sure: the finding names a construct that IS there (a store, a call, a handler ...); findings that say an
            expected construct was NOT found are subject to the shape gate of Check.run '''
        f = Finding(self.oid, rel, qual, construct, message, getattr(node, 'lineno', None), witness)
        f.sure = sure
        self.findings.append(f)

    @property
    def verdict(self):
        if self.error:
            return INCONCLUSIVE
        if self.findings:
            return VIOLATED
        return HOLDS

    def require(self, cond, why):
        ''' Structural expectation of the rule itself (idiom recognised). '''
        if not cond:
            raise AnalysisError('{}: {}'.format(self.oid, why))


SHAPE_MIN_CHANGED = int(os.environ.get('VERIF_SHAPE_MIN', '10'))
SHAPE_MIN_RATIO = float(os.environ.get('VERIF_SHAPE_RATIO', '0.25'))
SHAPE_SMALL_CHANGED = int(os.environ.get('VERIF_SHAPE_SMALL_MIN', '100000'))
SHAPE_SMALL_RATIO = float(os.environ.get('VERIF_SHAPE_SMALL_RATIO', '0.6'))
_SHAPES = None


def reference_shapes():
    global _SHAPES
    if _SHAPES is None:
        try:
            with open(os.path.join(os.path.dirname(os.path.abspath(__file__)), 'reference_shapes.json')) as infile:
                _SHAPES = json.load(infile)
        except OSError:
            _SHAPES = {}
    return _SHAPES


def shape_distance(tree, rel, qual):
    ''' how far the function <qual> of the analysed tree is from the function of that name in the reference tree:
    (statements that differ, that number relative to the size of the reference function); None if no function is named '''
    import collections
    from .core import function_statements
    ref = reference_shapes().get(rel)
    if ref is None:
        return None
    names = [qual] + [q.strip() for q in qual.replace(' / ', ',').split(',') if q.strip() != qual]
    best = None
    for q in names:
        cur = None
        try:
            if tree.has_func(rel, q):
                cur = function_statements(tree.func(rel, q))
        except Exception:
            cur = None
        old = ref.get(q)
        if cur is None and old is None:
            continue
        a = collections.Counter(cur or [])
        b = collections.Counter(old or [])
        d = sum(((a - b) + (b - a)).values())
        ratio = d / max(sum(b.values()), 1)
        if best is None or d > best[0]:
            best = (d, ratio, q)
    return best


TREE_MIN_CHANGED = int(os.environ.get('VERIF_TREE_SHAPE_MIN', '11'))


def tree_distance(tree):
    ''' statements of the analysed tree (all functions, canonical form) that differ from the reference tree '''
    got = getattr(tree, '_tree_distance', None)
    if got is not None:
        return got
    import collections
    from .core import function_statements
    ref = reference_shapes()
    total = 0
    worst = (0, None)
    for rel, mod in tree.modules.items():
        old = ref.get(rel, {})
        cur = {}
        for (r, q, f) in tree.all_functions([rel]):
            cur[q] = function_statements(f)
        for q in set(old) | set(cur):
            a = collections.Counter(cur.get(q, []))
            b = collections.Counter(old.get(q, []))
            d = sum(((a - b) + (b - a)).values())
            total += d
            if d > worst[0]:
                worst = (d, '{}:{}'.format(rel, q))
    tree._tree_distance = (total, worst[1])
    return tree._tree_distance


class Check:
    ''' A property check = an ordered list of obligations. '''

    def _shape_gate(self, ob):
        ''' The rules were written on, and confirmed against, the functions of the reference tree (and small edits of them).
        A finding of the kind "the expected construct is not there" in a function that has been restructured -- many of its
        statements differ from the audited shape -- is not a verdict on the code, it says that the rule does not know this
        shape: it is withheld and the obligation becomes INCONCLUSIVE, naming the function for review.  Findings that point
        at a construct which IS there (violate(..., sure=True)) are never withheld. '''
        if os.environ.get('VERIF_NO_SHAPE_GATE'):
            return
        keep = []
        held = []
        for f in ob.findings:
            if getattr(f, 'sure', False):
                keep.append(f)
                continue
            got = shape_distance(self.tree, f.rel, f.qual)
            (total, where) = tree_distance(self.tree) if reference_shapes() else (0, None)
            if got is not None and ((got[0] >= SHAPE_MIN_CHANGED and got[1] >= SHAPE_MIN_RATIO) or (got[0] >= SHAPE_SMALL_CHANGED and got[1] >= SHAPE_SMALL_RATIO)):
                held.append((f, got))
            elif total >= TREE_MIN_CHANGED:
                # the tree as a whole is no small edit of the audited reference any more
                held.append((f, (total, 1.0, 'the tree ({} changed most)'.format(where))))
            else:
                keep.append(f)
        if held and not keep:
            ob.findings = []
            (f, got) = held[0]
            raise AnalysisError('{}: {} has been restructured ({} statements differ from the audited reference); the rule is not armed for this shape. '
                                'Withheld: {}'.format(ob.oid, got[2], got[0], f.message[:160]))
        ob.findings = keep

    def __init__(self, prop, tree):
        self.prop = prop
        self.tree = tree
        self.obligations = []

    def run(self, oid, rule, text, fn, floor=1):
        ob = Obligation(oid, rule, text)
        ob.floor = floor
        self.obligations.append(ob)
        try:
            try:
                fn(ob)
            finally:
                # also when the rule gave up half way: what it had reported until then goes through the gate
                gate_err = None
                try:
                    self._shape_gate(ob)
                except AnalysisError as gerr:
                    gate_err = gerr
            if gate_err is not None:
                raise gate_err
            if len(ob.sites) < floor and not ob.findings:
                raise AnalysisError('{}: matched {} instance(s), confirmed floor is {}'.format(oid, len(ob.sites), floor))
        except AnalysisError as err:
            ob.error = str(err)
        except RecursionError as err:  # pragma: no cover
            ob.error = 'internal: recursion: {}'.format(err)
        except Exception as err:  # an internal bug must not look like a violation
            ob.error = 'internal: {}: {} @ {}'.format(type(err).__name__, err, traceback.format_exc().strip().splitlines()[-3:])
        return ob


def load_known():
    known = {}
    fixed = []
    if os.path.exists(KNOWN_FILE):
        with open(KNOWN_FILE) as infile:
            for line in infile:
                line = line.rstrip('\n')
                if line.startswith('known:'):
                    mat = re.match(r'known:\s+property=(\S+)\s+key=(.*?)\s+::\s+(.*)$', line)
                    if mat:
                        known.setdefault(mat.group(1), {})[mat.group(2).strip()] = mat.group(3)
                elif line.startswith('fixed:'):
                    fixed.append(line)
    return known, fixed


def finish(check, tier, started, extra=None, out=sys.stdout):
    ''' Print the report, write evidence + replay files, return exit code. '''
    prop = check.prop
    known, _fixed = load_known()
    known = known.get(prop, {})
    used_known = set()
    violations = []
    known_hits = []
    errors = []
    for ob in check.obligations:
        if ob.error:
            errors.append(ob)
        for fnd in ob.findings:
            if fnd.key in known:
                used_known.add(fnd.key)
                known_hits.append(fnd)
            else:
                violations.append(fnd)

    # scratch runs (seed matrix, self-test variants) must not overwrite the evidence of the real tree
    evdir = os.environ.get('VERIF_EVIDENCE_DIR') or os.path.join(VERIF, 'evidence')
    os.makedirs(os.path.join(evdir, 'replay'), exist_ok=True)

    print('== {} ({}) on {} =='.format(prop, tier, check.tree.root), file=out)
    stats = check.tree.stats()
    print('analysed: {modules} modules, {classes} classes, {functions} functions, {call_sites} call sites'.format(**stats), file=out)
    for ob in check.obligations:
        print('[{}] {} ({}) — {} instance(s): {}'.format(ob.verdict, ob.oid, ob.rule, len(ob.sites), ob.text), file=out)
        if ob.error:
            print('    ANALYSIS-ERROR property={} {}'.format(prop, ob.error), file=out)
    for fnd in known_hits:
        print('KNOWN-FINDING: property={} {} — {} [{}]'.format(prop, fnd.where(), fnd.message, fnd.key), file=out)
    for key in sorted(set(known) - used_known):
        print('note: stale known-findings entry (no longer matches): {}'.format(key), file=out)
    nrep = 0
    for fnd in violations:
        nrep += 1
        rpath = os.path.join(evdir, 'replay', '{}-{}-{}.json'.format(prop, fnd.obligation, nrep))
        with open(rpath, 'w') as outfile:
            json.dump(dict(property=prop, obligation=fnd.obligation, key=fnd.key, file='src/' + fnd.rel,
                           line=fnd.line, function=fnd.qual, construct=fnd.construct, message=fnd.message,
                           witness=fnd.witness, repo=check.tree.root), outfile, indent=1)
        print('VIOLATION property={} replay={}'.format(prop, rpath), file=out)
        print('    rule {} at {}: {}'.format(fnd.obligation, fnd.where(), fnd.message), file=out)
        print('    construct: {}'.format(fnd.construct), file=out)
        for step in fnd.witness[:40]:
            print('      | {}'.format(step), file=out)

    discharged = sum(1 for ob in check.obligations if ob.verdict == HOLDS or
                     (ob.verdict == VIOLATED and all(f.key in known for f in ob.findings)))
    samples = []
    for ob in check.obligations:
        samples.append(dict(obligation=ob.oid, rule=ob.rule, text=ob.text, verdict=ob.verdict,
                            instances=ob.sites[:12], n_instances=len(ob.sites),
                            findings=[dict(key=f.key, at=f.where(), message=f.message, witness=f.witness[:12],
                                           known=(f.key in known)) for f in ob.findings],
                            error=ob.error, undetermined=ob.undetermined[:10]))
    coverage = dict(
        explanation=(
            'Static analysis of /repo/src (stdlib ast; nothing imported or executed). Decides the structural clauses '
            'listed under samples[].obligation for {}; it does NOT decide the runtime behaviour of the property as a whole '
            '(see DESIGN.md section 4 and 8). Each obligation is a rule instantiated on program elements resolved by '
            'module/class/function/attribute name; verdict HOLDS / VIOLATED / INCONCLUSIVE.'.format(prop)),
        obligations=len(check.obligations),
        discharged=discharged,
        evaluations=sum(len(ob.sites) for ob in check.obligations),
        distinct_nontrivial=sum(1 for ob in check.obligations if ob.sites),
        rule='one evaluation = one rule instance (site) examined; an obligation is non-trivial when it matched at least one site',
        samples=samples,
        checker_cmd='sa/run {}{}'.format(prop, ' --thorough' if tier == 'thorough' else ''),
        trusted_base=['python ast module', 'the rule tables in /verif/sa/props', 'RFC 9171/9172/9174 tables transcribed in DESIGN.md appendix B'],
        known_findings=[f.key for f in known_hits],
        source_digest=check.tree.digest(),
        exhaustive=True,
    )
    coverage.update(stats)
    if extra:
        coverage.update(extra)
    evidence = dict(
        property_id=prop, tier=tier, seed=int(os.environ.get('VERIF_SEED', '0') or 0), level='other',
        coverage=coverage, assumptions=ASSUMPTIONS, wall_s=round(time.time() - started, 3),
        violations=len(violations),
    )
    with open(os.path.join(evdir, prop + '.json'), 'w') as outfile:
        json.dump(evidence, outfile, indent=1)

    if violations:
        return 1
    if errors or (extra and extra.get('selftest_mismatches')):
        if extra and extra.get('selftest_mismatches'):
            for mis in extra['selftest_mismatch_list'][:20]:
                print('ANALYSIS-ERROR property={} selftest {}'.format(prop, mis), file=out)
        return 2
    print('OK property={} obligations={} discharged={} known_findings={}'.format(
        prop, len(check.obligations), discharged, len(known_hits)), file=out)
    return 0
