''' Whole-tree behaviour-preserving rewrites used by the thorough tier (benign variants) and by tools/benign_matrix.py.

Each transform maps the source text of one module to new source text; the result must parse.  They are the
refactorings a maintainer makes without changing behaviour; a rule that changes its verdict under one of them is keyed
to something the property does not depend on (a local's name, a statement's layout, a log line).

  unparse        ast.unparse of every module (layout, comments, parentheses, string quoting)
  rename_locals  every function-local variable (not parameters, not globals/nonlocals) gets the suffix "_r";
                 closures that read the variable are renamed with it
  add_logging    a harmless expression statement is inserted after every simple statement of every function body
                 (kills nothing, but changes statement adjacency and CFG shape)
  split_elif     every "elif" becomes "else: if" (same semantics; different nesting)
  not_not        every "if c: A else: B" with both arms non-empty becomes "if not c: B else: A"
'''
import ast
import builtins


def _own_scope_nodes(func):
    ''' Nodes of func's own scope (nested function/lambda/class bodies excluded, their decorators/defaults included). '''
    out = []
    stack = list(func.body) if not isinstance(func, ast.Lambda) else [func.body]
    while stack:
        n = stack.pop()
        out.append(n)
        if isinstance(n, (ast.FunctionDef, ast.AsyncFunctionDef)):
            stack.extend(n.decorator_list)
            stack.extend(n.args.defaults)
            stack.extend([d for d in n.args.kw_defaults if d is not None])
            continue
        if isinstance(n, ast.Lambda):
            stack.extend(n.args.defaults)
            continue
        if isinstance(n, ast.ClassDef):
            stack.extend(n.decorator_list)
            stack.extend(n.bases)
            continue
        if isinstance(n, (ast.ListComp, ast.SetComp, ast.DictComp, ast.GeneratorExp)):
            # comprehension targets are their own scope; leave comprehensions alone apart from free reads
            stack.extend(ast.iter_child_nodes(n))
            continue
        stack.extend(ast.iter_child_nodes(n))
    return out


def _params(func):
    a = func.args
    names = [x.arg for x in a.posonlyargs + a.args + a.kwonlyargs]
    if a.vararg:
        names.append(a.vararg.arg)
    if a.kwarg:
        names.append(a.kwarg.arg)
    return set(names)


def _comp_targets(func):
    out = set()
    for n in ast.walk(func):
        if isinstance(n, ast.comprehension):
            for t in ast.walk(n.target):
                if isinstance(t, ast.Name):
                    out.add(t.id)
    return out


def _locals_of(func):
    params = _params(func)
    declared = set()
    stores = set()
    for n in _own_scope_nodes(func):
        if isinstance(n, (ast.Global, ast.Nonlocal)):
            declared.update(n.names)
        elif isinstance(n, ast.Name) and isinstance(n.ctx, (ast.Store, ast.Del)):
            stores.add(n.id)
        elif isinstance(n, ast.ExceptHandler) and n.name:
            stores.add(n.name)
        elif isinstance(n, (ast.FunctionDef, ast.AsyncFunctionDef, ast.ClassDef)):
            pass  # nested def names stay (they may be looked up by name in reports)
        elif isinstance(n, (ast.Import, ast.ImportFrom)):
            pass  # imported names stay
    return {s for s in stores - params - declared - _comp_targets(func) if not s.startswith('__') and not hasattr(builtins, s)}


class _Renamer(ast.NodeTransformer):
    def __init__(self, names):
        self.names = set(names)

    def _sub(self, node, names):
        if not names:
            return node
        saved = self.names
        self.names = names
        try:
            return self.generic_visit(node)
        finally:
            self.names = saved

    def visit_Name(self, node):
        if node.id in self.names:
            node.id = node.id + '_r'
        return node

    def visit_ExceptHandler(self, node):
        if node.name in self.names:
            node.name = node.name + '_r'
        return self.generic_visit(node)

    def _nested(self, node):
        # names rebound in the nested scope are that scope's own
        own = _params(node) | (_locals_of(node) if not isinstance(node, ast.Lambda) else set())
        if not isinstance(node, ast.Lambda):
            for n in _own_scope_nodes(node):
                if isinstance(n, ast.Nonlocal):
                    own -= set(n.names)
        return self._sub(node, self.names - own)

    visit_FunctionDef = _nested
    visit_AsyncFunctionDef = _nested
    visit_Lambda = _nested

    def visit_ClassDef(self, node):
        return node  # class bodies inside functions: leave untouched (none in this repo use outer locals by store)


def rename_locals(source):
    tree = ast.parse(source)
    funcs = [n for n in ast.walk(tree) if isinstance(n, (ast.FunctionDef, ast.AsyncFunctionDef))]
    # outermost first, each function renames its own locals throughout its subtree
    done = set()
    for f in funcs:
        if id(f) in done:
            continue
        names = _locals_of(f)
        # a nested class body inside the function reading the local would break: skip such functions
        if any(isinstance(n, ast.ClassDef) for n in ast.walk(f) if n is not f):
            names = set()
        # keyword arguments are not Names, attribute names are not Names: only variables are touched
        r = _Renamer(names)
        f.body = [r.visit(s) for s in f.body]
        done.add(id(f))
    return ast.unparse(tree) + '\n'


def unparse(source):
    return ast.unparse(ast.parse(source)) + '\n'


class _Logger(ast.NodeTransformer):
    def _body(self, stmts):
        out = []
        for s in stmts:
            out.append(s)
            if isinstance(s, (ast.Assign, ast.AugAssign, ast.Expr, ast.AnnAssign)) and not (isinstance(s, ast.Expr) and isinstance(s.value, ast.Constant)):
                out.append(ast.Expr(ast.Call(ast.Attribute(ast.Call(ast.Attribute(ast.Name('logging', ast.Load()), 'getLogger', ast.Load()), [ast.Constant('verif.benign')], []), 'debug', ast.Load()), [ast.Constant('step')], [])))
        return out

    def visit_FunctionDef(self, node):
        self.generic_visit(node)
        for n in ast.walk(node):
            for fld in ('body', 'orelse', 'finalbody'):
                if n is node and fld != 'body':
                    continue
                if isinstance(getattr(n, fld, None), list) and isinstance(n, (ast.FunctionDef, ast.If, ast.For, ast.While, ast.With, ast.Try, ast.ExceptHandler)):
                    if not getattr(n, '_logged_' + fld, False):
                        setattr(n, fld, self._body(getattr(n, fld)))
                        setattr(n, '_logged_' + fld, True)
        return node


def add_logging(source):
    tree = ast.parse(source)
    has_logging = any(isinstance(n, ast.Import) and any(a.name == 'logging' and a.asname is None for a in n.names) for n in tree.body)
    _Logger().visit(tree)
    if not has_logging:
        ix = 0
        if tree.body and isinstance(tree.body[0], ast.Expr) and isinstance(tree.body[0].value, ast.Constant):
            ix = 1
        while ix < len(tree.body) and isinstance(tree.body[ix], ast.ImportFrom) and tree.body[ix].module == '__future__':
            ix += 1
        tree.body.insert(ix, ast.Import([ast.alias('logging')]))
    ast.fix_missing_locations(tree)
    return ast.unparse(tree) + '\n'


class _SplitElif(ast.NodeTransformer):
    pass  # ast has no elif node: "elif" is already "else: [If]" in the tree; unparse re-creates elif.  See not_not.


class _NotNot(ast.NodeTransformer):
    def visit_If(self, node):
        self.generic_visit(node)
        if node.orelse and not (len(node.orelse) == 1 and isinstance(node.orelse[0], ast.If)) and not (len(node.body) == 1 and isinstance(node.body[0], ast.If)):
            test = node.test
            if isinstance(test, ast.UnaryOp) and isinstance(test.op, ast.Not):
                new = test.operand
            else:
                new = ast.UnaryOp(ast.Not(), test)
            return ast.copy_location(ast.If(new, node.orelse, node.body), node)
        return node


def not_not(source):
    tree = ast.parse(source)
    _NotNot().visit(tree)
    ast.fix_missing_locations(tree)
    return ast.unparse(tree) + '\n'


class _Messages(ast.NodeTransformer):
    """ Log and exception texts get a prefix (format placeholders kept). """
    LEVELS = ('debug', 'info', 'warning', 'error', 'critical', 'exception')

    def visit_Call(self, node):
        self.generic_visit(node)
        f = node.func
        is_log = isinstance(f, ast.Attribute) and f.attr in self.LEVELS
        is_exc = isinstance(f, ast.Name) and (f.id.endswith('Error') or f.id.endswith('Exception'))
        if (is_log or is_exc) and node.args and isinstance(node.args[0], ast.Constant) and isinstance(node.args[0].value, str):
            node.args[0] = ast.copy_location(ast.Constant('[x] ' + node.args[0].value), node.args[0])
        return node


def messages(source):
    tree = ast.parse(source)
    _Messages().visit(tree)
    return ast.unparse(tree) + '\n'


class _AugExpand(ast.NodeTransformer):
    def visit_AugAssign(self, node):
        t = node.target
        simple = isinstance(t, ast.Name) or (isinstance(t, ast.Attribute) and isinstance(t.value, ast.Name))
        if not simple:
            return node
        load = ast.Name(t.id, ast.Load()) if isinstance(t, ast.Name) else ast.Attribute(ast.Name(t.value.id, ast.Load()), t.attr, ast.Load())
        return ast.copy_location(ast.Assign([t], ast.BinOp(load, node.op, node.value)), node)


def aug_expand(source):
    """ "t op= v" -> "t = t op v" for plain names and one-level attributes (ints, bytes, flags, interval sets: same value;
    lists are rebound instead of extended, which differs only through an alias - none of the rewritten sites has one). """
    tree = ast.parse(source)
    _AugExpand().visit(tree)
    ast.fix_missing_locations(tree)
    return ast.unparse(tree) + '\n'


def _returns_value(func):
    for n in ast.walk(func):
        if isinstance(n, ast.Return) and n.value is not None and not (isinstance(n.value, ast.Constant) and n.value.value is None):
            return True
        if isinstance(n, (ast.Yield, ast.YieldFrom)):
            return True
    return False


def guard_clauses(source):
    """ A function that ends in "if c: BODY" (no else, no value returned anywhere) becomes "if not c: return" + BODY. """
    tree = ast.parse(source)
    for f in [n for n in ast.walk(tree) if isinstance(n, ast.FunctionDef)]:
        if _returns_value(f) or not f.body:
            continue
        last = f.body[-1]
        if isinstance(last, ast.If) and not last.orelse and len(f.body) > 1:
            test = last.test.operand if isinstance(last.test, ast.UnaryOp) and isinstance(last.test.op, ast.Not) else ast.UnaryOp(ast.Not(), last.test)
            guard = ast.If(test, [ast.Return(None)], [])
            f.body = f.body[:-1] + [guard] + last.body
    ast.fix_missing_locations(tree)
    return ast.unparse(tree) + '\n'


def nest_returns(source):
    """ "if c: return" followed by REST, in a function that returns no value, at the top level of the function body
    becomes "if not c: REST". """
    tree = ast.parse(source)
    for f in [n for n in ast.walk(tree) if isinstance(n, ast.FunctionDef)]:
        if _returns_value(f):
            continue
        for ix in range(len(f.body) - 2, -1, -1):
            st = f.body[ix]
            if isinstance(st, ast.If) and not st.orelse and len(st.body) == 1 and isinstance(st.body[0], ast.Return) and f.body[ix + 1:]:
                test = st.test.operand if isinstance(st.test, ast.UnaryOp) and isinstance(st.test.op, ast.Not) else ast.UnaryOp(ast.Not(), st.test)
                f.body = f.body[:ix] + [ast.If(test, f.body[ix + 1:], [])]
                break  # one per function keeps the result readable
    ast.fix_missing_locations(tree)
    return ast.unparse(tree) + '\n'


def reorder_defs(source):
    """ Methods of every class in reverse order (decorated property setters stay behind their getters: classes with
    decorators that reference earlier names are left alone); class attributes first, as before. """
    tree = ast.parse(source)
    for c in [n for n in ast.walk(tree) if isinstance(n, ast.ClassDef)]:
        funcs = [n for n in c.body if isinstance(n, ast.FunctionDef)]
        if any(isinstance(d, ast.Attribute) and d.attr in ('setter', 'deleter', 'getter') for f in funcs for d in f.decorator_list):
            continue
        if len({f.name for f in funcs}) != len(funcs):
            continue
        # only reorder when every non-function statement precedes the first function (no class-level code uses methods)
        first = next((i for i, n in enumerate(c.body) if isinstance(n, ast.FunctionDef)), None)
        if first is None or any(not isinstance(n, ast.FunctionDef) for n in c.body[first:]):
            continue
        c.body = c.body[:first] + list(reversed(c.body[first:]))
    return ast.unparse(tree) + '\n'


def kwargs_calls(source):
    """ Positional arguments of self.method(...) calls become keyword arguments, for methods defined (once, or every time with
    the same parameter names) in classes of the same module, without *args.  Same call, different spelling. """
    tree = ast.parse(source)
    sigs = {}
    for c in [n for n in ast.walk(tree) if isinstance(n, ast.ClassDef)]:
        for f in c.body:
            if isinstance(f, ast.FunctionDef) and f.args.args and f.args.args[0].arg == 'self' and not f.args.vararg and not f.args.posonlyargs:
                names = tuple(a.arg for a in f.args.args[1:])
                sigs.setdefault(f.name, set()).add(names)
            elif isinstance(f, ast.FunctionDef):
                sigs.setdefault(f.name, set()).add(None)
    for call in [n for n in ast.walk(tree) if isinstance(n, ast.Call)]:
        f = call.func
        if isinstance(f, ast.Attribute) and isinstance(f.value, ast.Name) and f.value.id == 'self' and len(sigs.get(f.attr, ())) == 1:
            names = next(iter(sigs[f.attr]))
            if names is None or any(isinstance(a, ast.Starred) for a in call.args) or len(call.args) > len(names) or len(call.args) < 2:
                continue
            given = {k.arg for k in call.keywords}
            if any(n in given for n in names[:len(call.args)]):
                continue
            call.keywords = [ast.keyword(n, a) for (n, a) in zip(names, call.args)] + call.keywords
            call.args = []
    ast.fix_missing_locations(tree)
    return ast.unparse(tree) + '\n'


class _Hoist(ast.NodeTransformer):
    """ "x = f(g(a), b)" -> "_t1 = g(a); x = f(_t1, b)" for simple statements whose outer call has a nested call as an
    argument and otherwise only names / constants / attribute chains (no evaluation order changes that could matter). """

    def __init__(self):
        self.n = 0

    @staticmethod
    def _simple(e):
        return isinstance(e, (ast.Name, ast.Constant)) or (isinstance(e, ast.Attribute) and _Hoist._simple(e.value))

    def _body(self, stmts):
        out = []
        for st in stmts:
            val = st.value if isinstance(st, (ast.Assign, ast.Expr, ast.Return)) and getattr(st, 'value', None) is not None else None
            if isinstance(val, ast.Call) and self._simple(val.func) and not val.keywords:
                inner = [i for i, a in enumerate(val.args) if isinstance(a, ast.Call)]
                others = [a for i, a in enumerate(val.args) if i not in inner]
                if len(inner) == 1 and all(self._simple(a) for a in others) and not any(isinstance(a, ast.Starred) for a in val.args):
                    self.n += 1
                    tmp = '_t%d' % self.n
                    out.append(ast.copy_location(ast.Assign([ast.Name(tmp, ast.Store())], val.args[inner[0]]), st))
                    val.args[inner[0]] = ast.Name(tmp, ast.Load())
            out.append(st)
        return out

    def generic_visit(self, node):
        super().generic_visit(node)
        for fld in ('body', 'orelse', 'finalbody'):
            if isinstance(getattr(node, fld, None), list) and isinstance(node, (ast.FunctionDef, ast.If, ast.For, ast.While, ast.With, ast.Try, ast.ExceptHandler)):
                setattr(node, fld, self._body(getattr(node, fld)))
        return node


def temporaries(source):
    tree = ast.parse(source)
    for f in [n for n in tree.body if isinstance(n, (ast.FunctionDef, ast.ClassDef))]:
        _Hoist().visit(f)
    ast.fix_missing_locations(tree)
    return ast.unparse(tree) + '\n'


TRANSFORMS = {
    'unparse': unparse,
    'rename_locals': rename_locals,
    'add_logging': add_logging,
    'not_not': not_not,
    'messages': messages,
    'aug_expand': aug_expand,
    'guard_clauses': guard_clauses,
    'nest_returns': nest_returns,
    'reorder_defs': reorder_defs,
    'kwargs_calls': kwargs_calls,
    'temporaries': temporaries,
}


def overlay(tree, name):
    ''' rel -> transformed text for every module of the tree (test modules included). '''
    fn = TRANSFORMS[name]
    out = {}
    for rel, mod in tree.modules.items():
        out[rel] = fn(mod.source)
        ast.parse(out[rel])
    return out
