''' Thorough tier: variant matrix (self-validation of the checkers).
Filled in by sa/variants.py; see DESIGN.md section 6. '''
import os


def run_matrix(prop, tree):
    try:
        from . import variants
    except ImportError:
        return dict(variants_break=0, variants_benign=0, variants_skipped=0, selftest_mismatches=0, selftest_mismatch_list=[])
    return variants.run(prop, tree)
