''' Packet schema extraction (scapy and scapy_cbor classes): ordered field
tables, widths, conditional predicates, layer bindings. '''
import ast
import struct

from .core import AnalysisError, dotted, src, const_int, kwarg, walk_local


class Field:
    def __init__(self, name, kind, node):
        self.name = name
        self.kind = kind          # class name of the field, e.g. UInt16Field
        self.node = node
        self.width = None         # octets for fixed scapy fields
        self.cond = None          # predicate lambda (ast) for ConditionalField
        self.optional = False     # scapy_cbor OptionalField
        self.length_of = None
        self.length_from = None   # lambda ast
        self.default = None       # ast of the default
        self.wrap = []            # wrapper kinds (ArrayWrapField, ...)
        self.inner = None         # inner Field for list fields
        self.kwargs = {}

    def __repr__(self):
        return '{}:{}{}'.format(self.name, self.kind, '?' if self.cond is not None or self.optional else '')


_FMT_CACHE = {}


def field_width(tree, rel, kind_expr):
    ''' Width in octets of a scapy field class given by expression
    (e.g. formats.UInt16Field, fields.ByteEnumField). '''
    name = dotted(kind_expr) or ''
    base = name.split('.')[-1]
    builtin = {'ByteField': 1, 'ByteEnumField': 1, 'ShortField': 2, 'IntField': 4, 'LongField': 8,
               'XByteField': 1, 'ShortEnumField': 2}
    if base in builtin:
        return builtin[base]
    got = tree.resolve_expr_class(rel, kind_expr)
    if not got:
        return None
    key = (got[0], got[1].name)
    if key in _FMT_CACHE and _FMT_CACHE[key][0] is tree:
        return _FMT_CACHE[key][1]
    width = None
    for item in got[1].body:
        if isinstance(item, ast.FunctionDef) and item.name == '__init__':
            for sub in ast.walk(item):
                fmt = None
                if isinstance(sub, ast.Call) and (dotted(sub.func) or '').endswith('.__init__') and len(sub.args) >= 4 \
                        and isinstance(sub.args[3], ast.Constant) and isinstance(sub.args[3].value, str):
                    fmt = sub.args[3].value
                elif isinstance(sub, ast.Assign) and len(sub.targets) == 1 and src(sub.targets[0]) in ("kwargs['fmt']", 'kwargs["fmt"]') \
                        and isinstance(sub.value, ast.Constant):
                    fmt = sub.value.value
                if fmt:
                    try:
                        width = struct.calcsize(fmt)
                    except struct.error:
                        width = None
    _FMT_CACHE[key] = (tree, width)
    return width


def _field_from_call(tree, rel, call):
    ''' Build a Field from a constructor call expression. '''
    if not isinstance(call, ast.Call):
        return None
    kind = (dotted(call.func) or src(call.func)).split('.')[-1]
    if kind == 'ConditionalField':
        inner = kwarg(call, 'fld', 0)
        cond = kwarg(call, 'cond', 1)
        fld = _field_from_call(tree, rel, inner)
        if fld is None:
            return None
        fld.cond = cond
        return fld
    if kind == 'OptionalField':
        fld = _field_from_call(tree, rel, call.args[0])
        if fld is None:
            return None
        fld.optional = True
        return fld
    if kind == 'ArrayWrapField':
        fld = _field_from_call(tree, rel, call.args[0])
        if fld is None:
            return None
        fld.wrap.append('ArrayWrapField')
        return fld
    name = None
    if call.args and isinstance(call.args[0], ast.Constant) and isinstance(call.args[0].value, str):
        name = call.args[0].value
    elif kwarg(call, 'name') is not None and isinstance(kwarg(call, 'name'), ast.Constant):
        name = kwarg(call, 'name').value
    if name is None:
        return None
    fld = Field(name, kind, call)
    fld.default = kwarg(call, 'default', 1)
    for kw in call.keywords:
        if kw.arg:
            fld.kwargs[kw.arg] = kw.value
    lo = kwarg(call, 'length_of')
    if isinstance(lo, ast.Constant):
        fld.length_of = lo.value
    fld.length_from = kwarg(call, 'length_from')
    size = kwarg(call, 'size')
    if kind in ('FlagsField', 'BitField', 'BitFieldLenField', 'BitEnumField'):
        if kind == 'BitField' and size is None and len(call.args) >= 3:
            size = call.args[2]
        bits = const_int(tree, rel, size) if size is not None else None
        fld.width = (bits / 8.0) if bits is not None else None
    elif kind == 'StrFixedLenField':
        ln = kwarg(call, 'length', 2)
        fld.width = const_int(tree, rel, ln) if ln is not None else None
    elif kind in ('LenField', 'FieldLenField'):
        fmt = kwarg(call, 'fmt')
        if isinstance(fmt, ast.Constant):
            try:
                fld.width = struct.calcsize('!' + fmt.value.lstrip('!<>=@'))
            except struct.error:
                fld.width = None
        else:
            fld.width = 2
    else:
        fld.width = field_width(tree, rel, call.func)
    inner = kwarg(call, 'fld')
    if inner is not None and kind == 'FieldListField':
        fld.inner = _field_from_call(tree, rel, inner)
    return fld


def fields_desc(tree, rel, clsname, inherit=True):
    ''' Ordered Field list of a packet class (own fields_desc, else the first
    one found up the repo MRO). '''
    for (r, cnode) in (tree.mro(rel, clsname) if inherit else [(rel, tree.klass(rel, clsname))]):
        for item in cnode.body:
            if isinstance(item, ast.Assign) and any(isinstance(t, ast.Name) and t.id == 'fields_desc' for t in item.targets):
                if not isinstance(item.value, (ast.List, ast.Tuple)):
                    raise AnalysisError('fields_desc of {} is not a literal list'.format(cnode.name))
                out = []
                for elt in item.value.elts:
                    fld = _field_from_call(tree, r, elt)
                    if fld is None:
                        raise AnalysisError('unrecognised field constructor in {}.fields_desc: {}'.format(cnode.name, src(elt)))
                    fld.rel = r
                    out.append(fld)
                return out
    return []


def bindings(tree, rel):
    ''' Layer bindings declared in a module.
    :return: list of (lower_expr_text, upper_class_name, {field: int}, node) '''
    res = []
    mod = tree.module(rel)
    for node in mod.tree.body:
        if isinstance(node, ast.Expr) and isinstance(node.value, ast.Call):
            call = node.value
            if (dotted(call.func) or '').split('.')[-1] == 'bind_layers' and len(call.args) >= 2:
                kws = {}
                for kw in call.keywords:
                    kws[kw.arg] = const_int(tree, rel, kw.value)
                res.append((dotted(call.args[0]), dotted(call.args[1]), kws, call))
        elif isinstance(node, ast.ClassDef):
            for deco in node.decorator_list:
                if isinstance(deco, ast.Call) and isinstance(deco.func, ast.Attribute) and deco.func.attr in ('bind_type', 'bind_extension') and deco.args:
                    key = 'type_code' if deco.func.attr == 'bind_type' else 'type'
                    res.append((dotted(deco.func.value), node.name, {key: const_int(tree, rel, deco.args[0])}, deco))
    return res


def lambda_atoms(lam):
    ''' Decompose a ConditionalField predicate ``lambda p: <expr>`` into
    (subject-field, operator, constant-expression-ast). Recognised forms:
    p.getfieldval('f') & C, p.f & C, p.f != 0, p.getfieldval('f') != 0.
    :return: (field, op, rhs_ast) or None '''
    if not isinstance(lam, ast.Lambda) or len(lam.args.args) != 1:
        return None
    par = lam.args.args[0].arg
    body = lam.body

    def subject(expr):
        if isinstance(expr, ast.Attribute) and isinstance(expr.value, ast.Name) and expr.value.id == par:
            return expr.attr
        if isinstance(expr, ast.Call) and isinstance(expr.func, ast.Attribute) and expr.func.attr == 'getfieldval' \
                and isinstance(expr.func.value, ast.Name) and expr.func.value.id == par and expr.args \
                and isinstance(expr.args[0], ast.Constant):
            return expr.args[0].value
        return None

    if isinstance(body, ast.BinOp) and isinstance(body.op, ast.BitAnd):
        sub = subject(body.left)
        if sub:
            return (sub, '&', body.right)
        sub = subject(body.right)
        if sub:
            return (sub, '&', body.left)
    if isinstance(body, ast.Compare) and len(body.ops) == 1:
        sub = subject(body.left)
        if sub:
            return (sub, type(body.ops[0]).__name__, body.comparators[0])
    sub = subject(body)
    if sub:
        return (sub, 'truthy', None)
    return None
