''' Normalisation of conditions into (atom-text, polarity) facts and small
def-use helpers.  Atoms are canonical source text, so local renames of the
*subjects* change them (rules name subjects by resolved attribute, e.g.
``self._in_term``), but formatting, parenthesisation, ``not (a == b)`` vs
``a != b``, ``bool(x)`` wrappers and if/early-return shape do not.
'''
import ast
from .core import src, walk_local, dotted
from . import core as _core

_NEG = {ast.Eq: ast.NotEq, ast.NotEq: ast.Eq, ast.Is: ast.IsNot, ast.IsNot: ast.Is,
        ast.In: ast.NotIn, ast.NotIn: ast.In, ast.Lt: ast.GtE, ast.GtE: ast.Lt,
        ast.Gt: ast.LtE, ast.LtE: ast.Gt}
# canonical (positive) operators; the others are expressed as their negation
_POS = (ast.Eq, ast.Is, ast.In, ast.Lt, ast.Gt)


def strip(expr):
    ''' Remove bool(...) wrappers and redundant parentheses (ast has none). '''
    while isinstance(expr, ast.Call) and isinstance(expr.func, ast.Name) and expr.func.id == 'bool' and len(expr.args) == 1 and not expr.keywords:
        expr = expr.args[0]
    return expr


def atom(expr):
    ''' Canonical (text, polarity) for a non-boolean-operator expression. '''
    expr = strip(expr)
    if isinstance(expr, ast.UnaryOp) and isinstance(expr.op, ast.Not):
        text, pol = atom(expr.operand)
        return text, not pol
    if isinstance(expr, ast.Compare) and len(expr.ops) == 1:
        op = type(expr.ops[0])
        left, right = expr.left, expr.comparators[0]
        if op in _POS:
            return '{} {} {}'.format(src(left), _OPTXT[op], src(right)), True
        pos = _NEG[op]
        return '{} {} {}'.format(src(left), _OPTXT[pos], src(right)), False
    if isinstance(expr, ast.Compare) and len(expr.ops) == 2 and all(isinstance(o, (ast.Lt, ast.LtE)) for o in expr.ops):
        return src(expr), True
    return src(expr), True


_OPTXT = {ast.Eq: '==', ast.Is: 'is', ast.In: 'in', ast.Lt: '<', ast.Gt: '>'}


def cond_facts(expr, outcome):
    ''' Facts implied by `expr` evaluating to `outcome` (True/False). '''
    expr = strip(expr)
    if isinstance(expr, ast.UnaryOp) and isinstance(expr.op, ast.Not):
        return cond_facts(expr.operand, not outcome)
    if isinstance(expr, ast.BoolOp):
        is_and = isinstance(expr.op, ast.And)
        if is_and == outcome:
            # all conjuncts true / all disjuncts false
            res = []
            for val in expr.values:
                res += cond_facts(val, outcome)
            return res
        if len(expr.values) == 1:
            return cond_facts(expr.values[0], outcome)
        return [('(' + src(expr) + ')', outcome)]
    text, pol = atom(expr)
    return [(text, pol == outcome)]


def all_atoms(expr):
    ''' Every leaf atom of a boolean expression with its syntactic polarity. '''
    expr = strip(expr)
    if isinstance(expr, ast.UnaryOp) and isinstance(expr.op, ast.Not):
        return [(t, not p) for (t, p) in all_atoms(expr.operand)]
    if isinstance(expr, ast.BoolOp):
        res = []
        for val in expr.values:
            res += all_atoms(val)
        return res
    return [atom(expr)]


def written_names(node, kind='stmt'):
    ''' Dotted names (e.g. 'x', 'self._in_term') assigned by this statement,
    not descending into nested statements. '''
    res = []

    def targets(tgt):
        if isinstance(tgt, (ast.Tuple, ast.List)):
            for elt in tgt.elts:
                targets(elt)
        elif isinstance(tgt, ast.Starred):
            targets(tgt.value)
        else:
            name = dotted(tgt)
            if name:
                res.append(name)
            elif isinstance(tgt, ast.Subscript):
                name = dotted(tgt.value)
                if name:
                    res.append(name)

    if isinstance(node, ast.Assign):
        for tgt in node.targets:
            targets(tgt)
    elif isinstance(node, (ast.AugAssign, ast.AnnAssign)):
        targets(node.target)
    elif isinstance(node, (ast.For, ast.AsyncFor)):
        targets(node.target)
    elif isinstance(node, (ast.With, ast.AsyncWith)):
        for item in node.items:
            if item.optional_vars is not None:
                targets(item.optional_vars)
    elif isinstance(node, ast.Delete):
        for tgt in node.targets:
            targets(tgt)
    elif isinstance(node, ast.ExceptHandler):
        if node.name:
            res.append(node.name)
    # walrus and mutating method calls on plain containers
    if isinstance(node, ast.AST) and not isinstance(node, (ast.For, ast.With, ast.ExceptHandler)):
        for sub in walk_local(node):
            if isinstance(sub, ast.NamedExpr):
                targets(sub.target)
            elif isinstance(sub, ast.Call) and isinstance(sub.func, ast.Attribute) and sub.func.attr in MUTATORS:
                name = dotted(sub.func.value)
                if name:
                    res.append(name)
    return res


MUTATORS = {'append', 'extend', 'insert', 'pop', 'remove', 'clear', 'add', 'discard', 'update',
            'popitem', 'setdefault', 'sort', 'reverse', 'popleft', 'appendleft', 'write', 'seek', 'read'}


def mentions(text, names):
    ''' Does atom text mention one of the dotted names (token-wise)? '''
    for name in names:
        idx = text.find(name)
        while idx >= 0:
            before = text[idx - 1] if idx > 0 else ' '
            after = text[idx + len(name)] if idx + len(name) < len(text) else ' '
            if not (before.isalnum() or before in '_.') and not (after.isalnum() or after == '_'):
                return True
            idx = text.find(name, idx + 1)
    return False


def has_fact(facts, text, polarity):
    return (text, polarity) in facts


def local_assigns(func, name):
    ''' All values assigned to local `name` in func: list of (stmt, value or None). '''
    res = []
    for node in walk_local(func):
        if isinstance(node, ast.Assign):
            for tgt in node.targets:
                if isinstance(tgt, ast.Name) and tgt.id == name:
                    res.append((node, node.value))
                elif isinstance(tgt, (ast.Tuple, ast.List)):
                    for ix, elt in enumerate(tgt.elts):
                        if isinstance(elt, ast.Name) and elt.id == name:
                            val = None
                            if isinstance(node.value, (ast.Tuple, ast.List)) and len(node.value.elts) == len(tgt.elts):
                                val = node.value.elts[ix]
                            res.append((node, val if val is not None else _Unpack(node.value, ix)))
        elif isinstance(node, ast.AnnAssign) and isinstance(node.target, ast.Name) and node.target.id == name and node.value is not None:
            res.append((node, node.value))
        elif isinstance(node, ast.AugAssign) and isinstance(node.target, ast.Name) and node.target.id == name:
            res.append((node, None))
        elif isinstance(node, (ast.For, ast.AsyncFor)):
            for sub in ast.walk(node.target):
                if isinstance(sub, ast.Name) and sub.id == name:
                    res.append((node, None))
        elif isinstance(node, ast.NamedExpr) and isinstance(node.target, ast.Name) and node.target.id == name:
            res.append((node, node.value))
        elif isinstance(node, (ast.With, ast.AsyncWith)):
            for item in node.items:
                if isinstance(item.optional_vars, ast.Name) and item.optional_vars.id == name:
                    res.append((node, None))
        elif isinstance(node, ast.ExceptHandler) and node.name == name:
            res.append((node, None))
    res.sort(key=lambda it: (it[0].lineno, it[0].col_offset))
    return res


class _Unpack(ast.AST):
    ''' Marker: element `index` of unpacking `value`. '''
    _fields = ('value',)

    def __init__(self, value, index):
        self.value = value
        self.index = index


def is_param(func, name):
    args = func.args
    allargs = args.posonlyargs + args.args + args.kwonlyargs
    if args.vararg:
        allargs = allargs + [args.vararg]
    if args.kwarg:
        allargs = allargs + [args.kwarg]
    return any(a.arg == name for a in allargs)


def inline(func, expr, depth=4):
    ''' Replace local names that have exactly one plain assignment (and are
    not parameters) by their value, recursively.  Returns a new AST. '''
    if depth <= 0:
        return expr

    class Sub(ast.NodeTransformer):
        def visit_Name(self, node):
            if not isinstance(node.ctx, ast.Load) or is_param(func, node.id):
                return node
            defs = local_assigns(func, node.id)
            if len(defs) == 1 and defs[0][1] is not None and not isinstance(defs[0][1], _Unpack):
                return inline(func, _core.clone(defs[0][1]), depth - 1)
            return node

        def visit_Lambda(self, node):
            return node

    return Sub().visit(_core.clone(expr))


def same(a, b):
    return src(a) == src(b)
