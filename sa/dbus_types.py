''' D-Bus signature parsing and a small abstract expression typer.

Abstract types: 's' string, 'int', 'bool', 'bytes', 'dict', 'list', 'none',
'peer' (a value decoded from peer-controlled CBOR whose type the peer chooses),
'obj:<Class>' (an instance of a known non-marshallable class), '?' unknown.
'''
import ast

from .core import AnalysisError, dotted, src, call_name, const_int
from . import norm

INT_CODES = set('ynqiuxtd')


def split_signature(sig):
    ''' Split a D-Bus signature into complete types. '''
    out = []
    pos = 0

    def one(p):
        if p >= len(sig):
            raise AnalysisError('bad D-Bus signature ' + sig)
        ch = sig[p]
        if ch == 'a':
            return one(p + 1)
        if ch == '(':
            p += 1
            while sig[p] != ')':
                p = one(p)
            return p + 1
        if ch == '{':
            p = one(p + 1)
            p = one(p)
            if sig[p] != '}':
                raise AnalysisError('bad D-Bus signature ' + sig)
            return p + 1
        return p + 1

    while pos < len(sig):
        end = one(pos)
        out.append(sig[pos:end])
        pos = end
    return out


def compatible(elem, atype):
    ''' May a value of abstract type atype be marshalled as D-Bus type elem?
    :return: True / False / None (undetermined) '''
    if atype == '?':
        return None
    if elem == 'v':
        if atype.startswith('obj:') or atype == 'none':
            return False
        return True
    if atype == 'peer':
        return False
    if atype.startswith('obj:') or atype == 'none':
        return False
    if elem in ('s', 'o', 'g'):
        return atype == 's'
    if elem in INT_CODES:
        return atype in ('int', 'bool')
    if elem == 'b':
        return atype in ('bool', 'int')
    if elem == 'ay':
        return atype in ('bytes', 'list')
    if elem.startswith('a{'):
        return atype == 'dict'
    if elem.startswith('a'):
        return atype in ('list',)
    return None


HANDLER_PARAM_TYPES = {
    # parameters of the TCPCL recv_* handlers come from fixed-width packet fields
    'transfer_id': 'int', 'length': 'int', 'reason': 'int', 'flags': 'int', 'data': 'bytes',
}


class Typer:
    def __init__(self, tree, fv, param_types=None):
        self.tree = tree
        self.fv = fv
        self.param_types = dict(param_types or {})

    def of(self, expr, at, depth=5):
        if depth <= 0:
            return '?'
        if isinstance(expr, ast.Constant):
            val = expr.value
            if isinstance(val, bool):
                return 'bool'
            if isinstance(val, int):
                return 'int'
            if isinstance(val, str):
                return 's'
            if isinstance(val, bytes):
                return 'bytes'
            if val is None:
                return 'none'
            return '?'
        if isinstance(expr, ast.JoinedStr):
            return 's'
        if isinstance(expr, ast.BinOp) and isinstance(expr.op, ast.Mod) and self.of(expr.left, at, depth - 1) == 's':
            return 's'
        if isinstance(expr, ast.BinOp) and isinstance(expr.op, (ast.Add, ast.Sub, ast.Mult, ast.FloorDiv, ast.BitAnd, ast.BitOr)):
            lt, rt = self.of(expr.left, at, depth - 1), self.of(expr.right, at, depth - 1)
            if lt == rt:
                return lt
            if {lt, rt} <= {'int', 'bool'}:
                return 'int'
            return '?'
        if isinstance(expr, ast.Dict):
            return 'dict'
        if isinstance(expr, (ast.List, ast.ListComp, ast.Tuple)):
            return 'list'
        if isinstance(expr, ast.Compare) or (isinstance(expr, ast.UnaryOp) and isinstance(expr.op, ast.Not)):
            return 'bool'
        if isinstance(expr, ast.BoolOp):
            types = {self.of(v, at, depth - 1) for v in expr.values}
            types.discard('none') if isinstance(expr.op, ast.Or) and len(types) > 1 else None
            if len(types) == 1:
                return types.pop()
            if types <= {'int', 'bool'}:
                return 'int'
            return '?'
        if isinstance(expr, ast.IfExp):
            types = {self.of(expr.body, at, depth - 1), self.of(expr.orelse, at, depth - 1)}
            if len(types) == 1:
                return types.pop()
            return 'mixed:' + '|'.join(sorted(types))
        if isinstance(expr, ast.Call):
            name = call_name(expr) or ''
            last = name.split('.')[-1]
            if name in ('str', 'repr') or last in ('String', 'ObjectPath', 'format', 'hex', 'decode', 'join') and name != 'b"".join':
                if last == 'join' and isinstance(expr.func, ast.Attribute) and isinstance(expr.func.value, ast.Constant) and isinstance(expr.func.value.value, bytes):
                    return 'bytes'
                return 's'
            if name in ('int', 'len') or last in ('tell', 'Int32', 'Int64', 'UInt32', 'UInt64', 'UInt16', 'Byte', 'datetime_to_dtntime', 'total_seconds'):
                return 'int'
            if name == 'bool' or last in ('Boolean',):
                return 'bool'
            if name in ('bytes', 'bytearray') or last in ('ByteArray', 'read', 'getvalue', 'to_bytes', 'encode'):
                return 'bytes'
            if name in ('dict',) or last in ('Dictionary',):
                return 'dict'
            if name in ('list', 'sorted', 'tuple') or last in ('Array',):
                return 'list'
            if name in ('min', 'max') and expr.args:
                types = {self.of(a, at, depth - 1) for a in expr.args}
                return types.pop() if len(types) == 1 else '?'
            if name == 'ipaddress.ip_address':
                return 'obj:ipaddress'
            if last == 'get' and isinstance(expr.func, ast.Attribute) and self._is_peer_map(expr.func.value, at):
                return 'peer'
            if name in ('cbor2.load', 'cbor2.loads'):
                return 'peer'
            if last == 'keys':
                return 'list'
            # repo function with a return annotation / constant returns
            return '?'
        if isinstance(expr, ast.Subscript):
            if self._is_peer_map(expr.value, at):
                return 'peer'
            return '?'
        if isinstance(expr, ast.Name):
            rd = self.fv.reaching_defs(expr.id, at)
            if rd == [(None, None)]:
                return self.param_types.get(expr.id, '?')
            types = set()
            for (st, val) in rd:
                if st is None:
                    types.add(self.param_types.get(expr.id, '?'))
                elif isinstance(val, norm._Unpack):
                    types.add('peer' if self._is_peer_value(val.value, st) else '?')
                elif val is None or not isinstance(val, ast.expr):
                    types.add('?')
                else:
                    types.add(self.of(val, st, depth - 1))
            if len(types) == 1:
                return types.pop()
            if types <= {'int', 'bool'}:
                return 'int'
            return '?'
        if isinstance(expr, ast.Attribute) and isinstance(expr.value, ast.Name) and expr.value.id == 'self' and self.fv.clsname:
            # a self attribute that is reset to None during operation (outside __init__) and is not known non-None here
            kinds = self._self_attr_kinds(expr.attr)
            if kinds:
                if 'none' in kinds and not self.fv.has(at, 'self.{} is None'.format(expr.attr), False):
                    rest = sorted(kinds - {'none'})
                    return 'mixed:' + '|'.join(rest + ['none'])
                if len(kinds - {'none'}) == 1:
                    return next(iter(kinds - {'none'}))
        if isinstance(expr, ast.Attribute):
            name = dotted(expr) or ''
            last = expr.attr
            if last in ('transfer_id', 'total_length', 'port', 'peer_port', 'local_port', 'ack_length', 'xfer_id'):
                return 'int?'   # int or None by construction; refined by the caller
            if last in ('address', 'local_address', 'object_path', '_state', 'node_id'):
                return 's'
            return '?'
        return '?'

    def _self_attr_kinds(self, attr):
        ''' Abstract kinds of the values stored to self.<attr> outside __init__, over the class MRO. '''
        from .lib import stores_to_self_attr
        kinds = set()
        for (_r, cnode) in self.tree.mro(self.fv.rel, self.fv.clsname):
            for (func, stmt, kind, val) in stores_to_self_attr(cnode, attr):
                if func.name == '__init__':
                    continue
                if kind == 'aug':
                    kinds.add('int')
                elif isinstance(val, ast.Constant):
                    kinds.add('none' if val.value is None else ('int' if isinstance(val.value, int) else ('s' if isinstance(val.value, str) else '?')))
                elif isinstance(val, ast.Call) and (dotted(val.func) or '') in ('str',):
                    kinds.add('s')
                elif isinstance(val, ast.Call) and (dotted(val.func) or '') in ('int', 'len', 'min', 'max'):
                    kinds.add('int')
                else:
                    kinds.add('?')
        if '?' in kinds:
            return set()
        return kinds

    def _is_peer_map(self, expr, at):
        ''' Is expr a mapping decoded from a peer datagram (parameter named extmap
        or a value loaded by cbor2)? '''
        if isinstance(expr, ast.Name):
            if self.param_types.get(expr.id) == 'peermap':
                return True
            rd = self.fv.reaching_defs(expr.id, at)
            for (st, val) in rd:
                if val is not None and isinstance(val, ast.expr) and (call_name(val) if isinstance(val, ast.Call) else '') in ('cbor2.load', 'cbor2.loads'):
                    return True
        return False

    def _is_peer_value(self, expr, at):
        if isinstance(expr, ast.Subscript):
            return self._is_peer_map(expr.value, at)
        return False
