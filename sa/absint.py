''' Finite-domain evaluation of guard code.

A handful of rules ask "is an item of kind K refused before it is converted?" about short decode functions whose guards are
isinstance tests, comparisons with constants and boolean connectives.  The answer is read off the source by folding those
guards over one representative value per kind: statements are walked in order, `if` tests are folded, and the walk ends
at the first raise (refused), return (converted / None) or at a construct outside the folded subset (AnalysisError, never
a verdict).  Nothing of the repository is imported or executed; only the predicate text is folded. '''
import ast
from .core import AnalysisError, src

_TYPES = {'bool': bool, 'int': int, 'float': float, 'str': str, 'bytes': bytes, 'bytearray': bytearray, 'memoryview': memoryview,
          'list': list, 'tuple': tuple, 'dict': dict}
import numbers as _numbers
_TYPES.update({'numbers.Integral': _numbers.Integral, 'numbers.Number': _numbers.Number, 'numbers.Real': _numbers.Real, 'numbers.Rational': _numbers.Rational,
               'Integral': _numbers.Integral, 'Number': _numbers.Number, 'collections.abc.Sequence': __import__('collections.abc').abc.Sequence,
               'collections.abc.Mapping': __import__('collections.abc').abc.Mapping, 'object': object})


class Unknown(Exception):
    pass


class FoldRaise(Exception):
    ''' the folded builtin raises (TypeError / ValueError ...) for this value '''

    def __init__(self, exc):
        Exception.__init__(self, type(exc).__name__)
        self.exc = exc


_CONV = {'int': int, 'bytes': bytes, 'str': str, 'bool': bool, 'float': float, 'list': list, 'tuple': tuple}


class Outcome(object):
    def __init__(self, kind, node, value=None):
        self.kind = kind      # 'raise' | 'return' | 'fallthrough'
        self.node = node
        self.value = value    # for return: folded value or Unknown


def fold(node, env, consts):
    ''' value of an expression under env (names -> python values); raises Unknown outside the folded subset '''
    text = src(node)
    if text in consts:
        return consts[text]
    if isinstance(node, ast.Constant):
        return node.value
    if isinstance(node, ast.Name):
        if node.id in env:
            return env[node.id]
        if node.id in ('True', 'False', 'None'):
            return {'True': True, 'False': False, 'None': None}[node.id]
        raise Unknown(text)
    if isinstance(node, ast.Tuple) or isinstance(node, ast.List):
        return [fold(e, env, consts) for e in node.elts]
    if isinstance(node, ast.Subscript):
        base = fold(node.value, env, consts)
        if isinstance(node.slice, ast.Slice):
            lo = fold(node.slice.lower, env, consts) if node.slice.lower is not None else None
            up = fold(node.slice.upper, env, consts) if node.slice.upper is not None else None
            try:
                return base[lo:up]
            except Exception:
                raise Unknown(text)
        ix = fold(node.slice, env, consts)
        try:
            return base[ix]
        except Exception:
            raise Unknown(text)
    if isinstance(node, ast.UnaryOp) and isinstance(node.op, ast.Not):
        return not fold(node.operand, env, consts)
    if isinstance(node, ast.BoolOp):
        # short circuit, as python does: an operand that cannot be folded matters only when it is reached
        if isinstance(node.op, ast.And):
            val = True
            for v in node.values:
                val = fold(v, env, consts)
                if not val:
                    return val
            return val
        val = False
        for v in node.values:
            val = fold(v, env, consts)
            if val:
                return val
        return val
    if isinstance(node, ast.Compare):
        left = fold(node.left, env, consts)
        for (op, comp) in zip(node.ops, node.comparators):
            right = fold(comp, env, consts)
            if isinstance(op, ast.Is):
                ok = left is right
            elif isinstance(op, ast.IsNot):
                ok = left is not right
            elif isinstance(op, ast.Eq):
                ok = left == right
            elif isinstance(op, ast.NotEq):
                ok = left != right
            elif isinstance(op, ast.In):
                ok = left in right
            elif isinstance(op, ast.NotIn):
                ok = left not in right
            elif isinstance(op, (ast.Lt, ast.LtE, ast.Gt, ast.GtE)):
                try:
                    ok = {ast.Lt: left < right, ast.LtE: left <= right, ast.Gt: left > right, ast.GtE: left >= right}[type(op)]
                except Exception:
                    raise Unknown(text)
            else:
                raise Unknown(text)
            if not ok:
                return False
            left = right
        return True
    if isinstance(node, ast.IfExp):
        return fold(node.body if fold(node.test, env, consts) else node.orelse, env, consts)
    if isinstance(node, ast.Call):
        name = src(node.func)
        if name == 'isinstance' and len(node.args) == 2:
            val = fold(node.args[0], env, consts)
            tnode = node.args[1]
            tnames = [src(e) for e in tnode.elts] if isinstance(tnode, ast.Tuple) else [src(tnode)]
            types = []
            for t in tnames:
                if t not in _TYPES:
                    raise Unknown(text)
                types.append(_TYPES[t])
            return isinstance(val, tuple(types))
        if name in _CONV and len(node.args) == 1 and not node.keywords:
            val = fold(node.args[0], env, consts)
            if name == 'bytes' and isinstance(val, int) and not isinstance(val, bool) and val > 4096:
                raise Unknown(text)
            try:
                return _CONV[name](val)
            except Exception as err:
                raise FoldRaise(err)
        if name == 'len' and len(node.args) == 1:
            try:
                return len(fold(node.args[0], env, consts))
            except TypeError:
                raise Unknown(text)
        if name in ('any', 'all') and len(node.args) == 1 and isinstance(node.args[0], (ast.GeneratorExp, ast.ListComp)):
            gen = node.args[0]
            if len(gen.generators) != 1 or gen.generators[0].ifs or not isinstance(gen.generators[0].target, ast.Name):
                raise Unknown(text)
            seq = fold(gen.generators[0].iter, env, consts)
            try:
                items = list(seq)
            except TypeError:
                raise Unknown(text)
            vals = []
            for it in items:
                e2 = dict(env)
                e2[gen.generators[0].target.id] = it
                vals.append(bool(fold(gen.elt, e2, consts)))
            return any(vals) if name == 'any' else all(vals)
        raise Unknown(text)
    raise Unknown(text)


def run(stmts, env, consts):
    ''' walk statements; :return: Outcome '''
    env = dict(env)
    return _run(list(stmts), env, consts)


def _run(stmts, env, consts, _handlers=None):
    for st in stmts:
        if isinstance(st, ast.Expr) and isinstance(st.value, ast.Constant):
            continue
        if isinstance(st, ast.Raise):
            return Outcome('raise', st)
        if isinstance(st, ast.Return):
            if st.value is None:
                return Outcome('return', st, None)
            try:
                return Outcome('return', st, fold(st.value, env, consts))
            except Unknown:
                return Outcome('return', st, Unknown)
            except FoldRaise as err:
                if _handlers is not None:
                    raise
                return Outcome('raise', st)
        if isinstance(st, ast.If):
            try:
                test = fold(st.test, env, consts)
            except FoldRaise:
                if _handlers is not None:
                    raise
                return Outcome('raise', st)
            except Unknown as err:
                raise AnalysisError('guard {} cannot be folded ({})'.format(src(st.test)[:80], err))
            out = _run(st.body if test else st.orelse, env, consts, _handlers=_handlers)
            if out.kind != 'fallthrough':
                return out
            continue
        if isinstance(st, ast.Assign) and len(st.targets) == 1 and isinstance(st.targets[0], ast.Name):
            try:
                env[st.targets[0].id] = fold(st.value, env, consts)
            except Unknown:
                env.pop(st.targets[0].id, None)
                # a conversion of the item ends the guard part
                return Outcome('return', st, Unknown)
            except FoldRaise:
                if _handlers is not None:
                    raise
                return Outcome('raise', st)
            continue
        if isinstance(st, ast.Try):
            try:
                out = _run(st.body, env, consts, _handlers=st.handlers)
            except FoldRaise as err:
                out = None
                for h in st.handlers:
                    names = [src(e) for e in h.type.elts] if isinstance(h.type, ast.Tuple) else ([src(h.type)] if h.type is not None else [None])
                    mro = [c.__name__ for c in type(err.exc).__mro__]
                    if any(n is None or n.split('.')[-1] in mro for n in names):
                        out = _run(h.body, env, consts, _handlers=_handlers)
                        break
                if out is None:
                    if _handlers is not None:
                        raise
                    return Outcome('raise', st)
            if out.kind != 'fallthrough':
                return out
            continue
        if isinstance(st, ast.Expr) and isinstance(st.value, ast.Call) and 'log' in src(st.value.func).lower():
            continue
        # anything else: the guard part is over
        return Outcome('return', st, Unknown)
    return Outcome('fallthrough', None)
