''' Facts about the analysed tree: parsing, class table, name resolution.

Pure stdlib.  Nothing from the analysed repository is imported or executed.
'''
import ast
import os
import hashlib


class AnalysisError(Exception):
    ''' The analysis cannot decide (vanished anchor, unrecognised idiom).
    Reported as ANALYSIS-ERROR / exit 2, never as a violation. '''


class ModuleInfo:
    def __init__(self, rel, source):
        self.rel = rel
        self.source = source
        self.tree = ast.parse(source, filename=rel)
        set_parents(self.tree)
        self.lines = source.splitlines()


def set_parents(tree):
    for node in ast.walk(tree):
        for child in ast.iter_child_nodes(node):
            child._parent = node
    tree._parent = None


def parent(node):
    return getattr(node, '_parent', None)


def clone(node, _par=None, _top=True):
    ''' Structural copy of an AST subtree (positions kept).  The copy's root keeps the original's parent pointer;
    copy.deepcopy would follow _parent and copy the whole enclosing module. '''
    if isinstance(node, list):
        return [clone(x, _par, False) for x in node]
    if not isinstance(node, ast.AST):
        return node
    new = node.__class__()
    for f in node._fields:
        if hasattr(node, f):
            setattr(new, f, clone(getattr(node, f), new, False))
    for a in node._attributes:
        if hasattr(node, a):
            setattr(new, a, getattr(node, a))
    new._parent = parent(node) if _top else _par
    return new


def ancestors(node):
    node = parent(node)
    while node is not None:
        yield node
        node = parent(node)


def enclosing(node, kinds):
    for anc in ancestors(node):
        if isinstance(anc, kinds):
            return anc
    return None


def enclosing_stmt(node):
    ''' The innermost statement containing (or being) the node. '''
    cur = node
    while cur is not None and not isinstance(cur, ast.stmt):
        cur = parent(cur)
    return cur


class Tree:
    ''' All non-test modules below <root>/src.

    :param overlay: optional map rel-path -> replacement source text
        (used by the self-test variant matrix; nothing is written to disk).
    '''

    def __init__(self, root=None, overlay=None):
        if root is None:
            root = os.environ.get('VERIF_REPO', '/repo')
        self.root = root
        self.src = os.path.join(root, 'src')
        self.modules = {}
        self.overlay = dict(overlay or {})
        if not os.path.isdir(self.src):
            raise AnalysisError('source root {} missing'.format(self.src))
        for dirpath, dirnames, filenames in os.walk(self.src):
            dirnames[:] = sorted(d for d in dirnames if d not in ('test', '__pycache__') and not d.endswith('.egg-info'))
            for fn in sorted(filenames):
                if not fn.endswith('.py'):
                    continue
                full = os.path.join(dirpath, fn)
                rel = os.path.relpath(full, self.src)
                if rel in self.overlay:
                    text = self.overlay[rel]
                else:
                    with open(full, 'r', encoding='utf-8') as infile:
                        text = infile.read()
                try:
                    self.modules[rel] = ModuleInfo(rel, text)
                except SyntaxError as err:
                    raise AnalysisError('cannot parse {}: {}'.format(rel, err))
        self._class_cache = {}
        self._func_cache = {}
        # spelling of function-local variables is not part of any property: alpha-rename to the reference spelling
        self.renamed = {}
        if not os.environ.get('VERIF_NO_CANON'):
            from . import canon
            ref = canon.load_reference()
            # how the code is cut into functions is not part of any property either: a function the reference tree does not
            # have (a new helper) is read as part of its callers
            self.inlined = {}
            known_funcs = {}
            try:
                import json as _json
                with open(os.path.join(os.path.dirname(os.path.abspath(__file__)), 'reference_functions.json')) as infile:
                    known_funcs = _json.load(infile)
            except OSError:
                known_funcs = {}
            if known_funcs and not os.environ.get('VERIF_NO_INLINE'):
                from . import inline
                for rel, mod in self.modules.items():
                    n = inline.inline_new_helpers(mod.tree, known_funcs.get(rel))
                    if n:
                        set_parents(mod.tree)
                        self.inlined[rel] = n
            canon.normalise_calls({rel: mod.tree for rel, mod in self.modules.items()})
            for rel, mod in self.modules.items():
                if canon.minmax_module(mod.tree):
                    set_parents(mod.tree)
                canon.normalise_module(mod.tree)
                got = canon.apply_to_module(mod.tree, ref.get(rel))
                if got:
                    self.renamed[rel] = got

    # ---- coverage numbers
    def stats(self):
        ncls = nfun = ncall = 0
        for mod in self.modules.values():
            for node in ast.walk(mod.tree):
                if isinstance(node, ast.ClassDef):
                    ncls += 1
                elif isinstance(node, (ast.FunctionDef, ast.AsyncFunctionDef)):
                    nfun += 1
                elif isinstance(node, ast.Call):
                    ncall += 1
        return dict(modules=len(self.modules), classes=ncls, functions=nfun, call_sites=ncall)

    def digest(self, rels=None):
        hsh = hashlib.sha256()
        for rel in sorted(rels or self.modules):
            hsh.update(rel.encode())
            hsh.update(self.modules[rel].source.encode())
        return hsh.hexdigest()[:16]

    # ---- lookup by anchor
    def module(self, rel):
        try:
            return self.modules[rel]
        except KeyError:
            raise AnalysisError('anchor vanished: module {}'.format(rel))

    def klass(self, rel, name):
        key = (rel, name)
        if key not in self._class_cache:
            found = None
            for node in self.module(rel).tree.body:
                if isinstance(node, ast.ClassDef) and node.name == name:
                    found = node
            if found is None:
                # nested classes (enum inside a packet class)
                parts = name.split('.')
                cur = self.module(rel).tree
                for part in parts:
                    nxt = None
                    for node in cur.body:
                        if isinstance(node, ast.ClassDef) and node.name == part:
                            nxt = node
                    if nxt is None:
                        raise AnalysisError('anchor vanished: class {} in {}'.format(name, rel))
                    cur = nxt
                found = cur
            self._class_cache[key] = found
        return self._class_cache[key]

    def has_class(self, rel, name):
        try:
            self.klass(rel, name)
            return True
        except AnalysisError:
            return False

    def func(self, rel, qual):
        ''' qual is 'func', 'Class.meth' or 'Class.meth.inner'. '''
        key = (rel, qual)
        if key in self._func_cache:
            return self._func_cache[key]
        cur = self.module(rel).tree
        for part in qual.split('.'):
            nxt = None
            for node in ast.walk(cur) if isinstance(cur, (ast.FunctionDef, ast.AsyncFunctionDef)) else cur.body:
                if isinstance(node, (ast.ClassDef, ast.FunctionDef, ast.AsyncFunctionDef)) and node.name == part and node is not cur:
                    nxt = node
                    break
            if nxt is None:
                raise AnalysisError('anchor vanished: {} in {}'.format(qual, rel))
            cur = nxt
        if not isinstance(cur, (ast.FunctionDef, ast.AsyncFunctionDef)):
            raise AnalysisError('anchor {} in {} is not a function'.format(qual, rel))
        cur._qual = qual
        cur._rel = rel
        self._func_cache[key] = cur
        return cur

    def has_func(self, rel, qual):
        try:
            self.func(rel, qual)
            return True
        except AnalysisError:
            return False

    def methods(self, rel, clsname):
        return {node.name: node for node in self.klass(rel, clsname).body
                if isinstance(node, (ast.FunctionDef, ast.AsyncFunctionDef))}

    # ---- imports and names
    def _pkg_of(self, rel):
        return os.path.dirname(rel)

    def _mod_rel(self, dotted, from_rel=None, level=0):
        ''' Map a dotted module name to a rel path if it is a repo module. '''
        if level:
            base = self._pkg_of(from_rel)
            for _ in range(level - 1):
                base = os.path.dirname(base)
            parts = [p for p in base.split(os.sep) if p] + ([p for p in dotted.split('.')] if dotted else [])
        else:
            parts = dotted.split('.')
        cand = os.path.join(*parts) + '.py' if parts else None
        if cand and cand in self.modules:
            return cand
        cand = os.path.join(*(parts + ['__init__.py'])) if parts else '__init__.py'
        if cand in self.modules:
            return cand
        return None

    def imports(self, rel):
        ''' name -> ('module', rel2) | ('name', rel2, orig) | ('ext', dotted) '''
        mod = self.module(rel)
        if hasattr(mod, '_imports'):
            return mod._imports
        table = {}
        for node in ast.walk(mod.tree):
            if isinstance(node, ast.Import):
                for alias in node.names:
                    target = self._mod_rel(alias.name)
                    name = alias.asname or alias.name.split('.')[0]
                    if alias.asname is None and '.' in alias.name:
                        # "import a.b" binds a; remember the full dotted path too
                        table.setdefault('@dotted', {})[alias.name] = target
                        top = self._mod_rel(alias.name.split('.')[0])
                        table[name] = ('module', top) if top else ('ext', alias.name.split('.')[0])
                    else:
                        table[name] = ('module', target) if target else ('ext', alias.name)
            elif isinstance(node, ast.ImportFrom):
                base = self._mod_rel(node.module or '', rel, node.level)
                for alias in node.names:
                    name = alias.asname or alias.name
                    if alias.name == '*':
                        if base:
                            table.setdefault('@star', []).append(base)
                        continue
                    sub = self._mod_rel(((node.module + '.') if node.module else '') + alias.name, rel, node.level)
                    if sub:
                        table[name] = ('module', sub)
                    elif base:
                        table[name] = ('name', base, alias.name)
                    else:
                        table[name] = ('ext', ((node.module or '') + '.' + alias.name).lstrip('.'))
        mod._imports = table
        return table

    def toplevel(self, rel, name, _seen=None):
        ''' Find the definition of a module-level name, following imports.
        :return: (rel, node) or None '''
        _seen = _seen or set()
        if (rel, name) in _seen:
            return None
        _seen.add((rel, name))
        mod = self.modules.get(rel)
        if mod is None:
            return None
        for node in mod.tree.body:
            if isinstance(node, (ast.ClassDef, ast.FunctionDef)) and node.name == name:
                return (rel, node)
            if isinstance(node, ast.Assign):
                for tgt in node.targets:
                    if isinstance(tgt, ast.Name) and tgt.id == name:
                        return (rel, node)
        imp = self.imports(rel)
        if name in imp:
            ent = imp[name]
            if ent[0] == 'name':
                return self.toplevel(ent[1], ent[2], _seen)
            return None
        for star in imp.get('@star', []):
            got = self.toplevel(star, name, _seen)
            if got:
                return got
        return None

    def resolve_expr_class(self, rel, expr):
        ''' Resolve a Name / dotted Attribute expression to a repo class.
        :return: (rel, ClassDef) or None (external / unknown). '''
        if isinstance(expr, ast.Name):
            got = self.toplevel(rel, expr.id)
            if got and isinstance(got[1], ast.ClassDef):
                return got
            return None
        if isinstance(expr, ast.Attribute):
            # module.Class or Class.Nested
            parts = dotted_parts(expr)
            if not parts:
                return None
            imp = self.imports(rel)
            head = imp.get(parts[0])
            if head and head[0] == 'module' and head[1]:
                cur_rel = head[1]
                idx = 1
                # import a.b.c style
                while idx < len(parts) - 1:
                    nxt = self._mod_rel(os.path.splitext(cur_rel)[0].replace('/__init__', '').replace(os.sep, '.') + '.' + parts[idx])
                    if nxt:
                        cur_rel = nxt
                        idx += 1
                    else:
                        break
                got = self.toplevel(cur_rel, parts[idx])
                if got and isinstance(got[1], ast.ClassDef):
                    node = got[1]
                    for part in parts[idx + 1:]:
                        node = next((n for n in node.body if isinstance(n, ast.ClassDef) and n.name == part), None)
                        if node is None:
                            return None
                    return (got[0], node)
                return None
            got = self.toplevel(rel, parts[0])
            if got and isinstance(got[1], ast.ClassDef):
                node = got[1]
                for part in parts[1:]:
                    node = next((n for n in node.body if isinstance(n, ast.ClassDef) and n.name == part), None)
                    if node is None:
                        return None
                return (got[0], node)
        return None

    def mro(self, rel, clsname):
        ''' Linearised repo bases (depth-first, left-to-right, duplicates
        removed keeping the last as C3 would for the simple hierarchies here).
        External bases are skipped. '''
        out = []

        def visit(r, node):
            out.append((r, node))
            for base in node.bases:
                got = self.resolve_expr_class(r, base)
                if got:
                    visit(*got)

        visit(rel, self.klass(rel, clsname))
        seen = set()
        res = []
        for item in out:
            if id(item[1]) in seen:
                continue
            seen.add(id(item[1]))
            res.append(item)
        return res

    def external_bases(self, rel, clsname):
        res = []
        for (r, node) in self.mro(rel, clsname):
            for base in node.bases:
                if not self.resolve_expr_class(r, base):
                    res.append(ast.unparse(base))
        return res

    def find_method(self, rel, clsname, meth):
        ''' MRO lookup. :return: (rel, ClassDef, FunctionDef) or None '''
        for (r, node) in self.mro(rel, clsname):
            for item in node.body:
                if isinstance(item, (ast.FunctionDef, ast.AsyncFunctionDef)) and item.name == meth:
                    item._qual = node.name + '.' + meth
                    item._rel = r
                    return (r, node, item)
        return None

    def all_classes(self):
        for rel, mod in self.modules.items():
            for node in mod.tree.body:
                if isinstance(node, ast.ClassDef):
                    yield rel, node

    def subclasses(self, rel, clsname):
        target = self.klass(rel, clsname)
        res = []
        for r, node in self.all_classes():
            if node is target:
                continue
            if any(c is target for (_r, c) in self.mro(r, node.name)):
                res.append((r, node))
        return res

    def all_functions(self, rels=None):
        ''' Yield (rel, qualname, FunctionDef) for every function. '''
        for rel in sorted(rels or self.modules):
            mod = self.modules[rel]

            def walk(body, prefix):
                for node in body:
                    if isinstance(node, ast.ClassDef):
                        yield from walk(node.body, prefix + node.name + '.')
                    elif isinstance(node, (ast.FunctionDef, ast.AsyncFunctionDef)):
                        node._qual = prefix + node.name
                        node._rel = rel
                        yield (rel, prefix + node.name, node)
                        yield from walk([n for n in ast.walk(node) if isinstance(n, (ast.FunctionDef, ast.AsyncFunctionDef)) and parent_func(n) is node], prefix + node.name + '.')

            yield from walk(mod.tree.body, '')


def parent_func(node):
    return enclosing(node, (ast.FunctionDef, ast.AsyncFunctionDef, ast.Lambda))


def owner_class(node):
    return enclosing(node, (ast.ClassDef,))


def dotted_parts(expr):
    parts = []
    while isinstance(expr, ast.Attribute):
        parts.append(expr.attr)
        expr = expr.value
    if isinstance(expr, ast.Name):
        parts.append(expr.id)
        return list(reversed(parts))
    return None


def dotted(expr):
    parts = dotted_parts(expr)
    return '.'.join(parts) if parts else None


def mangle(clsname, attr):
    ''' Python private-name mangling. '''
    if attr.startswith('__') and not attr.endswith('__'):
        return '_' + clsname.lstrip('_') + attr
    return attr


def self_attr(node, clsname=None):
    ''' If node is ``self.X`` return X (mangled for clsname), else None. '''
    if isinstance(node, ast.Attribute) and isinstance(node.value, ast.Name) and node.value.id == 'self':
        return mangle(clsname, node.attr) if clsname else node.attr
    return None


def loc(rel, node):
    return 'src/{}:{}'.format(rel, getattr(node, 'lineno', 0))


def src(node):
    try:
        return ast.unparse(node)
    except Exception:  # pragma: no cover
        return '<unparse failed>'


def calls_in(node, skip_nested=True):
    ''' All Call nodes inside node (not descending into nested defs/lambdas
    when skip_nested). '''
    res = []
    stack = [node]
    first = True
    while stack:
        cur = stack.pop()
        if not first and skip_nested and isinstance(cur, (ast.FunctionDef, ast.AsyncFunctionDef, ast.Lambda, ast.ClassDef)):
            continue
        first = False
        if isinstance(cur, ast.Call):
            res.append(cur)
        stack.extend(ast.iter_child_nodes(cur))
    res.sort(key=lambda n: (n.lineno, n.col_offset))
    return res


def walk_local(node):
    ''' ast.walk that does not descend into nested function/class bodies. '''
    stack = list(ast.iter_child_nodes(node))
    yield node
    while stack:
        cur = stack.pop()
        yield cur
        if isinstance(cur, (ast.FunctionDef, ast.AsyncFunctionDef, ast.Lambda, ast.ClassDef)):
            continue
        stack.extend(ast.iter_child_nodes(cur))


def call_name(call):
    ''' Dotted name of the callee expression, or None. '''
    return dotted(call.func)


def is_logging_call(call):
    name = call_name(call) or ''
    if not name and isinstance(call.func, ast.Attribute) and isinstance(call.func.value, ast.Call) and \
            (call_name(call.func.value) or '').split('.')[-1] == 'getLogger':
        name = 'logging.' + call.func.attr  # logging.getLogger(...).debug(...)
    parts = name.split('.')
    return len(parts) >= 2 and parts[-1] in ('debug', 'info', 'warning', 'error', 'critical', 'exception', 'log') and (
        'logger' in parts[-2].lower() or parts[-2] == 'logging')


def is_logging_stmt(stmt):
    return isinstance(stmt, ast.Expr) and isinstance(stmt.value, ast.Call) and is_logging_call(stmt.value)


def kwarg(call, name, pos=None):
    for kw in call.keywords:
        if kw.arg == name:
            return kw.value
    if pos is not None and len(call.args) > pos and not any(isinstance(a, ast.Starred) for a in call.args[:pos + 1]):
        return call.args[pos]
    return None


def const_int(tree, rel, expr, _depth=0):
    ''' Evaluate a constant integer expression (literals, + - * ** | & << ~,
    repo enum members, module-level constants).  None when not constant. '''
    if _depth > 8:
        return None
    if isinstance(expr, ast.Constant):
        if isinstance(expr.value, bool):
            return int(expr.value)
        if isinstance(expr.value, int):
            return expr.value
        return None
    if isinstance(expr, ast.UnaryOp):
        val = const_int(tree, rel, expr.operand, _depth + 1)
        if val is None:
            return None
        if isinstance(expr.op, ast.USub):
            return -val
        if isinstance(expr.op, ast.Invert):
            return ~val
        if isinstance(expr.op, ast.UAdd):
            return val
        return None
    if isinstance(expr, ast.BinOp):
        lft = const_int(tree, rel, expr.left, _depth + 1)
        rgt = const_int(tree, rel, expr.right, _depth + 1)
        if lft is None or rgt is None:
            return None
        ops = {ast.Add: lambda a, b: a + b, ast.Sub: lambda a, b: a - b, ast.Mult: lambda a, b: a * b,
               ast.Pow: lambda a, b: a ** b if 0 <= b <= 128 else None, ast.BitOr: lambda a, b: a | b,
               ast.BitAnd: lambda a, b: a & b, ast.LShift: lambda a, b: a << b if 0 <= b <= 128 else None,
               ast.BitXor: lambda a, b: a ^ b, ast.FloorDiv: lambda a, b: a // b if b else None}
        fun = ops.get(type(expr.op))
        return fun(lft, rgt) if fun else None
    if isinstance(expr, ast.Call) and isinstance(expr.func, ast.Name) and expr.func.id == 'int' and len(expr.args) == 1:
        return const_int(tree, rel, expr.args[0], _depth + 1)
    if isinstance(expr, (ast.Attribute, ast.Name)):
        parts = dotted_parts(expr)
        if not parts:
            return None
        # enum member Class[.Nested].MEMBER, possibly via module alias
        if len(parts) >= 2:
            got = tree.resolve_expr_class(rel, expr.value) if isinstance(expr, ast.Attribute) else None
            if got:
                for node in got[1].body:
                    if isinstance(node, ast.Assign) and any(isinstance(t, ast.Name) and t.id == parts[-1] for t in node.targets):
                        return const_int(tree, got[0], node.value, _depth + 1)
                return None
            # module.CONST
            imp = tree.imports(rel).get(parts[0])
            if imp and imp[0] == 'module' and imp[1] and len(parts) == 2:
                got = tree.toplevel(imp[1], parts[1])
                if got and isinstance(got[1], ast.Assign):
                    return const_int(tree, got[0], got[1].value, _depth + 1)
            return None
        got = tree.toplevel(rel, parts[0])
        if got and isinstance(got[1], ast.Assign):
            return const_int(tree, got[0], got[1].value, _depth + 1)
    return None


def enum_members(tree, rel, clsnode):
    ''' name -> int for an enum class body (only constant members). '''
    res = {}
    for node in clsnode.body:
        if isinstance(node, ast.Assign) and len(node.targets) == 1 and isinstance(node.targets[0], ast.Name):
            val = const_int(tree, rel, node.value)
            if val is not None:
                res[node.targets[0].id] = val
    return res


def function_statements(func):
    ''' the simple statements, tests and loop heads of a function, each as a short digest of its syntax tree (canonical
    spelling; independent of how a python version prints code), for shape comparison '''
    out = []

    def key(kind, node):
        text = kind + ast.dump(node, annotate_fields=False, include_attributes=False)
        return hashlib.md5(text.encode()).hexdigest()[:10]
    for n in walk_local(func):
        if isinstance(n, ast.stmt) and not isinstance(n, (ast.If, ast.For, ast.While, ast.Try, ast.With, ast.FunctionDef, ast.AsyncFunctionDef, ast.ClassDef)):
            if isinstance(n, ast.Expr) and isinstance(n.value, ast.Constant) and isinstance(n.value.value, str):
                continue
            out.append(key('s', n))
        elif isinstance(n, (ast.If, ast.While)):
            out.append(key('t', n.test))
        elif isinstance(n, ast.For):
            out.append(key('f', ast.Tuple(elts=[n.target, n.iter], ctx=ast.Load())))
    return sorted(out)
