''' Canonical decomposition into functions.

How a piece of code is cut into functions is not part of any property: a maintainer who splits a long method into
private helpers (or merges duplicated code into one) changes no behaviour.  The rules, however, are written on the
functions of the reference tree (sa/reference_locals.json lists them).  So a function the reference does not know -- a new
helper -- is read as part of its callers: its body is inlined at every call site, arguments bound to parameters, returns
turned into the control flow they mean at that site, and the helper itself disappears from the module.  What cannot be
inlined faithfully (generators, helpers used as values, returns inside loops, calls buried in larger expressions) is left
alone; the rules then see the helper as an unknown callee, as before.

Like the other canonical forms this is a reading of the source: nothing is executed and /repo is not touched. '''
import ast

MAX_ROUNDS = 4


def _clone(node):
    if isinstance(node, list):
        return [_clone(x) for x in node]
    if not isinstance(node, ast.AST):
        return node
    new = node.__class__()
    for (f, v) in ast.iter_fields(node):
        setattr(new, f, _clone(v))
    for a in ('lineno', 'col_offset', 'end_lineno', 'end_col_offset'):
        if hasattr(node, a):
            setattr(new, a, getattr(node, a))
    return new


def _walk_local(func):
    ''' nodes of the function body, not descending into nested function / class definitions '''
    todo = list(func.body)
    while todo:
        n = todo.pop()
        yield n
        if isinstance(n, (ast.FunctionDef, ast.AsyncFunctionDef, ast.ClassDef, ast.Lambda)):
            continue
        todo.extend(ast.iter_child_nodes(n))


def _stored_names(func):
    res = set()
    for n in _walk_local(func):
        if isinstance(n, ast.Name) and isinstance(n.ctx, (ast.Store, ast.Del)):
            res.add(n.id)
        elif isinstance(n, ast.ExceptHandler) and n.name:
            res.add(n.name)
        elif isinstance(n, (ast.Import, ast.ImportFrom)):
            for a in n.names:
                res.add((a.asname or a.name).split('.')[0])
    return res


def _simple(expr):
    ''' cheap, side-effect free, stable: a name, an attribute chain on a name, a constant '''
    if isinstance(expr, (ast.Name, ast.Constant)):
        return True
    if isinstance(expr, ast.Attribute):
        return _simple(expr.value)
    return False


def _inlinable(func):
    if func.args.vararg or func.args.kwarg or func.args.posonlyargs:
        return False
    decos = [ast.unparse(d) for d in func.decorator_list]
    if any(d not in ('staticmethod',) for d in decos):
        return False
    if func.name.startswith('__') and func.name.endswith('__'):
        return False
    for n in _walk_local(func):
        if isinstance(n, (ast.Yield, ast.YieldFrom, ast.Await, ast.Global, ast.Nonlocal)):
            return False
        if isinstance(n, (ast.FunctionDef, ast.AsyncFunctionDef, ast.ClassDef)):
            return False
        if isinstance(n, ast.Call) and isinstance(n.func, ast.Name) and n.func.id in ('super', 'locals', 'vars'):
            return False
    return True


def _contains_return(stmts):
    for st in stmts:
        for n in ast.walk(st):
            if isinstance(n, ast.Return):
                return True
    return False


def _terminates(stmts):
    ''' the list cannot fall through its end '''
    if not stmts:
        return False
    last = stmts[-1]
    if isinstance(last, (ast.Return, ast.Raise, ast.Continue, ast.Break)):
        return True
    if isinstance(last, ast.If):
        return bool(last.orelse) and _terminates(last.body) and _terminates(last.orelse)
    return False


def _rewrite_returns(stmts, leaf):
    ''' statements with every return replaced by leaf(value) (a list of statements), restructured so that what followed an
    "if ...: return" becomes the other arm.  Returns inside loops / try / with cannot be expressed that way: None. '''
    out = []
    for ix, st in enumerate(stmts):
        if isinstance(st, ast.Return):
            out.extend(leaf(st.value))
            return out
        if not _contains_return([st]):
            out.append(st)
            continue
        if not isinstance(st, ast.If):
            return None
        rest = stmts[ix + 1:]
        body = _rewrite_returns(list(st.body) + ([] if _terminates(st.body) else _clone(rest)), leaf)
        orelse = _rewrite_returns(list(st.orelse) + ([] if (st.orelse and _terminates(st.orelse)) else _clone(rest)), leaf)
        if body is None or orelse is None:
            return None
        new = ast.If(test=st.test, body=body or [ast.Pass()], orelse=orelse)
        ast.copy_location(new, st)
        out.append(new)
        return out
    out.extend(leaf(None))
    return out


class _Subst(ast.NodeTransformer):
    def __init__(self, mapping, renames):
        self.mapping = mapping      # name -> expression to put in its place (loads only)
        self.renames = renames      # name -> new name (all contexts)

    def visit_Name(self, node):
        if node.id in self.mapping and isinstance(node.ctx, ast.Load):
            return ast.copy_location(_clone(self.mapping[node.id]), node)
        if node.id in self.renames:
            return ast.copy_location(ast.Name(id=self.renames[node.id], ctx=node.ctx), node)
        return node

    def visit_ExceptHandler(self, node):
        if node.name in self.renames:
            node.name = self.renames[node.name]
        return self.generic_visit(node)


def _bind(helper, call, is_method, recv, caller_locals):
    ''' body of the helper with parameters bound for this call; (prologue statements, body statements) or None '''
    params = [a.arg for a in helper.args.args]
    defaults = dict(zip(params[len(params) - len(helper.args.defaults):], helper.args.defaults))
    kwonly = [a.arg for a in helper.args.kwonlyargs]
    for (a, d) in zip(kwonly, helper.args.kw_defaults):
        if d is not None:
            defaults[a] = d
    static = any(ast.unparse(d) == 'staticmethod' for d in helper.decorator_list)
    args = list(call.args)
    bound = {}
    if is_method and not static:
        if not params:
            return None
        bound[params[0]] = recv
        rest = params[1:]
    else:
        rest = params
    if any(isinstance(a, ast.Starred) for a in args) or any(k.arg is None for k in call.keywords):
        return None
    if len(args) > len(rest):
        return None
    for (p, a) in zip(rest, args):
        bound[p] = a
    for k in call.keywords:
        if k.arg in bound or k.arg not in rest + kwonly:
            return None
        bound[k.arg] = k.value
    for p in rest + kwonly:
        if p not in bound:
            if p not in defaults:
                return None
            bound[p] = defaults[p]
    stored = _stored_names(helper)
    mapping = {}
    renames = {}
    prologue = []
    taken = set(caller_locals)
    for (p, a) in bound.items():
        if p not in stored and _simple(a):
            mapping[p] = a
        else:
            name = p
            while name in taken:
                name += '_h'
            taken.add(name)
            if name != p:
                renames[p] = name
            prologue.append(ast.Assign(targets=[ast.Name(id=name, ctx=ast.Store())], value=_clone(a), lineno=call.lineno, col_offset=call.col_offset))
    for loc in sorted(stored - set(bound)):
        name = loc
        while name in taken:
            name += '_h'
        taken.add(name)
        if name != loc:
            renames[loc] = name
    body = _clone(helper.body)
    if body and isinstance(body[0], ast.Expr) and isinstance(body[0].value, ast.Constant) and isinstance(body[0].value.value, str):
        body = body[1:]
    sub = _Subst(mapping, renames)
    body = [sub.visit(st) for st in body]
    body = _fold_const_ifs(body) or [ast.Pass(lineno=call.lineno, col_offset=call.col_offset)]
    return prologue, body


def _const_test(test):
    ''' truth of a test that is a constant once the arguments of this call are in place (flag parameters); else None '''
    if isinstance(test, ast.Constant) and (isinstance(test.value, (bool, int, str, bytes)) or test.value is None):
        return bool(test.value)
    if isinstance(test, ast.UnaryOp) and isinstance(test.op, ast.Not):
        inner = _const_test(test.operand)
        return None if inner is None else not inner
    if isinstance(test, ast.Compare) and len(test.ops) == 1 and isinstance(test.ops[0], (ast.Is, ast.IsNot)) and \
            isinstance(test.left, ast.Constant) and isinstance(test.comparators[0], ast.Constant) and test.comparators[0].value is None:
        res = test.left.value is None
        return res if isinstance(test.ops[0], ast.Is) else not res
    return None


def _fold_const_ifs(stmts):
    ''' `if True: A else: B` -> A: a helper called with a literal flag is, at that call, the arm the flag selects '''
    out = []
    for st in stmts:
        if isinstance(st, ast.If):
            c = _const_test(st.test)
            if c is not None:
                out.extend(_fold_const_ifs(st.body if c else st.orelse))
                continue
            st.body = _fold_const_ifs(st.body) or [ast.Pass(lineno=st.lineno, col_offset=st.col_offset)]
            st.orelse = _fold_const_ifs(st.orelse)
        elif isinstance(st, (ast.For, ast.While, ast.With)):
            st.body = _fold_const_ifs(st.body) or [ast.Pass(lineno=st.lineno, col_offset=st.col_offset)]
            if hasattr(st, 'orelse'):
                st.orelse = _fold_const_ifs(st.orelse)
        elif isinstance(st, ast.Try):
            st.body = _fold_const_ifs(st.body) or [ast.Pass(lineno=st.lineno, col_offset=st.col_offset)]
            for h in st.handlers:
                h.body = _fold_const_ifs(h.body) or [ast.Pass(lineno=st.lineno, col_offset=st.col_offset)]
            st.orelse = _fold_const_ifs(st.orelse)
            st.finalbody = _fold_const_ifs(st.finalbody)
        out.append(st)
    return out


def _status_test(test, var):
    ''' predicate over a constant, when <test> tests the local <var> against a constant or for its truth value '''
    if isinstance(test, ast.UnaryOp) and isinstance(test.op, ast.Not):
        got = _status_test(test.operand, var)
        return (lambda c: not got(c)) if got is not None else None
    if isinstance(test, ast.Name) and test.id == var:
        return lambda c: bool(c)
    if isinstance(test, ast.Compare) and len(test.ops) == 1 and isinstance(test.left, ast.Name) and test.left.id == var and isinstance(test.comparators[0], ast.Constant):
        k = test.comparators[0].value
        op = test.ops[0]

        def same(c):
            return (c is k) or (type(c) is type(k) and c == k)
        if isinstance(op, (ast.Eq, ast.Is)):
            return same
        if isinstance(op, (ast.NotEq, ast.IsNot)):
            return lambda c: not same(c)
    return None


def _assigns(st, var):
    return any(isinstance(n, ast.Name) and n.id == var and isinstance(n.ctx, ast.Store) for n in ast.walk(st))


def _fold_tail(stmts, var, c):
    ''' the statements with every test of <var> decided for the value c, as far as <var> keeps that value '''
    out = []
    for ix, st in enumerate(stmts):
        if isinstance(st, ast.If):
            pred = _status_test(st.test, var)
            if pred is not None:
                arm = list(st.body if pred(c) else st.orelse)
                return out + _fold_tail(arm + list(stmts[ix + 1:]), var, c)
            if _assigns(st, var):
                return out + list(stmts[ix:])
            new = ast.If(test=st.test, body=_fold_tail(list(st.body), var, c) or [ast.Pass()], orelse=_fold_tail(list(st.orelse), var, c))
            ast.copy_location(new, st)
            out.append(new)
            continue
        out.append(st)
        if isinstance(st, (ast.Return, ast.Raise, ast.Continue, ast.Break)):
            return out
        if _assigns(st, var):
            return out + list(stmts[ix + 1:])
    return out


def _fold_status(new, leaves, var, rest):
    ''' <new> ends, on every way through, with one of <leaves> (`var = <constant>`); <rest> are the caller's statements that
    follow.  When they test var, each leaf is continued with a copy of them in which those tests are decided.  None when the
    pattern is not there. '''
    if len(leaves) < 2 or not rest:
        return None
    vals = []
    for lf in leaves:
        if not (isinstance(lf.value, ast.Constant) and isinstance(lf.value.value, (str, bool, int, type(None)))):
            return None
        vals.append(lf.value.value)
    tested = False
    for st in rest:
        if isinstance(st, ast.If) and _status_test(st.test, var) is not None:
            tested = True
            break
        if _assigns(st, var):
            break
    if not tested:
        return None

    def holder(stmts, leaf):
        for st in stmts:
            if st is leaf:
                return stmts
            if isinstance(st, ast.If):
                got = holder(st.body, leaf) or holder(st.orelse, leaf)
                if got is not None:
                    return got
        return None
    for lf in leaves:
        lst = holder(new, lf)
        if lst is None or lst[-1] is not lf:
            return None
    for lf in leaves:
        lst = holder(new, lf)
        lst.extend(_fold_tail(_clone(list(rest)), var, lf.value.value))
    return new


def _const_bool(expr):
    if expr is None:
        return False
    if isinstance(expr, ast.Constant) and (isinstance(expr.value, bool) or expr.value is None):
        return bool(expr.value)
    return None


def _inline_at(holder_list, ix, helper, call, is_method, recv, caller_locals):
    ''' replace statement holder_list[ix], which contains `call` in one of the supported positions; True when done '''
    st = holder_list[ix]
    got = _bind(helper, call, is_method, recv, caller_locals)
    if got is None:
        return False
    (prologue, body) = got

    def at(node):
        return dict(lineno=getattr(node, 'lineno', 0), col_offset=getattr(node, 'col_offset', 0))

    new = None
    if isinstance(st, ast.Expr) and st.value is call:
        new = _rewrite_returns(body, lambda v: [])
        if new is not None and not new:
            new = [ast.Pass(**at(st))]
    elif isinstance(st, ast.Return) and st.value is call:
        new = body if _terminates(body) else body + [ast.Return(value=None, **at(st))]
    elif isinstance(st, (ast.Assign, ast.AnnAssign)) and st.value is call and (isinstance(st, ast.AnnAssign) or len(st.targets) == 1):
        tgt = st.target if isinstance(st, ast.AnnAssign) else st.targets[0]
        if isinstance(tgt, (ast.Name, ast.Attribute, ast.Subscript)):
            leaves = []

            def assign_leaf(v):
                node = ast.Assign(targets=[_clone(tgt)], value=(v if v is not None else ast.Constant(value=None)), **at(st))
                leaves.append(node)
                return [node]
            new = _rewrite_returns(body, assign_leaf)
            if new is not None and isinstance(tgt, ast.Name):
                # a helper that answers with a status (constants only) which the caller then tests: continue each way out of
                # the helper with the caller's following statements, the tests of the status decided for that way
                folded = _fold_status(new, leaves, tgt.id, holder_list[ix + 1:])
                if folded is not None:
                    holder_list[ix:] = prologue + folded
                    return True
    elif isinstance(st, ast.If):
        test = st.test
        neg = False
        if isinstance(test, ast.UnaryOp) and isinstance(test.op, ast.Not):
            (test, neg) = (test.operand, True)
        if test is call:
            rets = [n for n in ast.walk(ast.Module(body=body, type_ignores=[])) if isinstance(n, ast.Return)]
            if all(_const_bool(r.value) is not None for r in rets):
                (yes, no) = (st.orelse, st.body) if neg else (st.body, st.orelse)

                def leaf(v):
                    arm = yes if _const_bool(v) else no
                    return _clone(list(arm))
                new = _rewrite_returns(body, leaf)
                if new is not None and not new:
                    new = [ast.Pass(**at(st))]
    if new is None:
        return False
    holder_list[ix:ix + 1] = prologue + new
    return True


def _statement_lists(func):
    todo = [func]
    while todo:
        n = todo.pop()
        for fld in ('body', 'orelse', 'finalbody'):
            lst = getattr(n, fld, None)
            if isinstance(lst, list) and lst and isinstance(lst[0], ast.stmt):
                yield lst
                for st in lst:
                    if not isinstance(st, (ast.FunctionDef, ast.AsyncFunctionDef, ast.ClassDef)):
                        todo.append(st)
        if isinstance(n, ast.Try):
            for h in n.handlers:
                todo.append(h)


_HOIST = [0]


def _hoist(lst, st, call):
    ''' the call sits inside a larger expression of a simple statement and is evaluated unconditionally there: give it a
    name first ("__hN = call" ahead of the statement) so that it can be inlined as an assignment.  Returns the new statement
    or None. '''
    if not isinstance(st, (ast.Assign, ast.AugAssign, ast.AnnAssign, ast.Expr, ast.Return)):
        return None
    # not under something that evaluates it conditionally or later
    path_ok = True

    def find(node, conditional):
        nonlocal path_ok
        for child in ast.iter_child_nodes(node):
            cond = conditional or isinstance(node, (ast.BoolOp, ast.IfExp, ast.Lambda, ast.ListComp, ast.SetComp, ast.DictComp, ast.GeneratorExp))
            if child is call:
                if cond:
                    path_ok = False
                return True
            if find(child, cond):
                return True
        return False
    if not find(st, False) or not path_ok:
        return None
    _HOIST[0] += 1
    name = '__h{}'.format(_HOIST[0])

    class Repl(ast.NodeTransformer):
        def visit_Call(self, node):
            if node is call:
                return ast.copy_location(ast.Name(id=name, ctx=ast.Load()), node)
            return self.generic_visit(node)
    ix = [i for (i, x) in enumerate(lst) if x is st][0]
    new_assign = ast.Assign(targets=[ast.Name(id=name, ctx=ast.Store())], value=call, lineno=st.lineno, col_offset=st.col_offset)
    lst[ix] = Repl().visit(st)
    lst.insert(ix, new_assign)
    return new_assign


def _call_position(st, call):
    ''' the call sits in one of the positions _inline_at knows '''
    if isinstance(st, ast.Expr) and st.value is call:
        return True
    if isinstance(st, ast.Return) and st.value is call:
        return True
    if isinstance(st, (ast.Assign, ast.AnnAssign)) and st.value is call:
        return True
    if isinstance(st, ast.If):
        t = st.test
        if isinstance(t, ast.UnaryOp) and isinstance(t.op, ast.Not):
            t = t.operand
        return t is call
    return False


def _functions_with_qual(module_ast):
    ''' (qualname, FunctionDef, owner body list, class node or None) for module-level functions and methods '''
    res = []

    def visit(body, prefix, cls):
        for n in body:
            if isinstance(n, (ast.FunctionDef, ast.AsyncFunctionDef)):
                res.append((prefix + n.name, n, body, cls))
            elif isinstance(n, ast.ClassDef):
                visit(n.body, prefix + n.name + '.', n)
    visit(module_ast.body, '', None)
    return res


def _one_round(module_ast, known):
    funcs = _functions_with_qual(module_ast)
    new = [(q, f, body, cls) for (q, f, body, cls) in funcs if q not in known and isinstance(f, ast.FunctionDef) and _inlinable(f)]
    if not new:
        return 0
    names = {}
    for (q, f, body, cls) in new:
        names.setdefault(f.name, []).append((q, f, body, cls))
    done = 0
    for (name, cands) in sorted(names.items()):
        if len(cands) != 1 or any(f.name == name and q not in [c[0] for c in cands] for (q, f, b, c) in funcs):
            continue        # the name is not unique in the module: which one is meant cannot be told from a call
        (q, helper, owner_body, cls) = cands[0]
        is_method = cls is not None
        # every reference to the name must be a call in a supported position
        refs = []
        ok = True
        for (fq, f, fb, fc) in funcs:
            if f is helper:
                for n in ast.walk(f):
                    if (isinstance(n, ast.Attribute) and n.attr == name) or (isinstance(n, ast.Name) and n.id == name):
                        ok = False      # recursive
                continue
            for n in ast.walk(f):
                hit = (is_method and isinstance(n, ast.Attribute) and n.attr == name) or (not is_method and isinstance(n, ast.Name) and n.id == name and isinstance(n.ctx, ast.Load))
                if hit:
                    refs.append((f, fc, n))
        # references outside functions (class bodies, module level: tables of handlers ...)
        for n in ast.walk(module_ast):
            hit = (is_method and isinstance(n, ast.Attribute) and n.attr == name) or (not is_method and isinstance(n, ast.Name) and n.id == name and isinstance(n.ctx, ast.Load))
            if hit and not any(n is r[2] for r in refs) and not any(n is x for x in ast.walk(helper)):
                ok = False
        if not ok or not refs:
            continue
        plans = []
        for (f, fc, ref) in refs:
            site = None
            buried = None
            for lst in _statement_lists(f):
                for (ix, st) in enumerate(lst):
                    if isinstance(st, (ast.FunctionDef, ast.ClassDef, ast.If, ast.For, ast.While, ast.Try, ast.With)) and not (isinstance(st, ast.If) and any(x is ref for x in ast.walk(st.test))):
                        continue
                    for c in ast.walk(st):
                        if isinstance(c, ast.Call) and c.func is ref:
                            if _call_position(st, c):
                                site = (lst, st, c)
                            else:
                                buried = (lst, st, c)
            if site is None and buried is not None:
                (lst, st, c) = buried
                got = _hoist(lst, st, c)
                if got is not None:
                    site = (lst, got, c)
            if site is None:
                ok = False
                break
            (lst, st, c) = site
            recv = ref.value if is_method else None
            if is_method:
                if not _simple(recv):
                    ok = False
                    break
                same_class = fc is cls
                mangled = any(isinstance(x, ast.Attribute) and x.attr.startswith('__') and not x.attr.endswith('__') for x in ast.walk(helper))
                if mangled and not same_class:
                    ok = False
                    break
                if isinstance(recv, ast.Name) and recv.id[:1].isupper():
                    # Class.helper(self, ...) or a static call: the receiver is not an instance
                    static = any(ast.unparse(d) == 'staticmethod' for d in helper.decorator_list)
                    if not static:
                        ok = False
                        break
            plans.append((f, lst, st, c, recv))
        if not ok:
            continue
        for (f, lst, st, c, recv) in plans:
            ix = [i for (i, x) in enumerate(lst) if x is st]
            if not ix:
                ok = False
                break
            caller_locals = _stored_names(f) | {a.arg for a in f.args.args + f.args.kwonlyargs}
            if not _inline_at(lst, ix[0], helper, c, is_method, recv, caller_locals):
                ok = False
                break
            done += 1
        if ok:
            owner_body[:] = [x for x in owner_body if x is not helper]
            if not owner_body:
                owner_body.append(ast.Pass(lineno=helper.lineno, col_offset=helper.col_offset))
        else:
            # a partly inlined helper stays defined for the remaining call sites
            pass
    return done


def _inline_properties(module_ast, known):
    ''' a read-only property the reference tree does not have, whose body is one `return <expression over self>`, is read as
    that expression wherever `self.<name>` is loaded in the classes of the module (a derived value given a name) '''
    props = {}
    for (qual, func, _owner, cls) in _functions_with_qual(module_ast):
        if cls is None or qual in known:
            continue
        if not any(isinstance(d, ast.Name) and d.id == 'property' for d in func.decorator_list) or len(func.decorator_list) != 1:
            continue
        body = [st for st in func.body if not (isinstance(st, ast.Expr) and isinstance(st.value, ast.Constant) and isinstance(st.value.value, str))]
        if len(body) != 1 or not isinstance(body[0], ast.Return) or body[0].value is None or len(func.args.args) != 1:
            continue
        expr = body[0].value
        me = func.args.args[0].arg
        names = {n.id for n in ast.walk(expr) if isinstance(n, ast.Name)}
        if any(isinstance(n, (ast.Call, ast.Lambda, ast.Await, ast.Yield, ast.NamedExpr)) for n in ast.walk(expr)) or not names <= {me}:
            continue
        if func.name in props:
            props[func.name] = None      # two classes define it differently: leave alone
        else:
            props[func.name] = (expr, me)
    props = {k: v for (k, v) in props.items() if v is not None}
    if not props:
        return 0
    # a setter / an assignment to the attribute anywhere means it is not a pure derived value
    for n in ast.walk(module_ast):
        if isinstance(n, ast.Attribute) and isinstance(n.ctx, (ast.Store, ast.Del)) and n.attr in props:
            props.pop(n.attr, None)
    count = 0

    class T(ast.NodeTransformer):
        def visit_Attribute(self, node):
            nonlocal count
            self.generic_visit(node)
            if isinstance(node.ctx, ast.Load) and node.attr in props and isinstance(node.value, ast.Name) and node.value.id == 'self':
                (expr, me) = props[node.attr]
                new = _clone(expr)
                if me != 'self':
                    for x in ast.walk(new):
                        if isinstance(x, ast.Name) and x.id == me:
                            x.id = 'self'
                count += 1
                return ast.copy_location(new, node)
            return node
    for (qual, func, _owner, cls) in _functions_with_qual(module_ast):
        if cls is not None and func.name not in props:
            T().visit(func)
    return count


def inline_new_helpers(module_ast, known):
    ''' :param known: qualified names of the functions the reference tree has in this module (None: module unknown) '''
    if known is None:
        return 0
    known = set(known)
    total = _inline_properties(module_ast, known)
    for _ in range(MAX_ROUNDS):
        n = _one_round(module_ast, known)
        if not n:
            break
        total += n
    if total:
        ast.fix_missing_locations(module_ast)
    return total
