''' Canonical local-variable names.

The rules name function-local variables as they are spelled in the reference tree ("major_type == 4", "off_start",
"target_result.append(...)").  A local's spelling is not part of any property, so before any rule runs every function of
the tree under analysis is alpha-renamed to the reference spelling of its locals.  The mapping current-name -> reference-name
is recovered by aligning the statement sequence of the current function with the reference function on shapes in which
local names are abstracted away (difflib over statement shapes), and letting each aligned pair of statements vote.

* identity wins ties, definitions (stores) weigh more than uses: a change that swaps or replaces a variable in a few
  statements (a mutant) keeps its spelling, only a consistent renaming is undone;
* the mapping is injective and never captures a parameter, a global or a free name;
* a local for which no majority exists keeps its current spelling: the rules then see exactly what they would have seen
  without this pass.  The pass can therefore only remove dependence on spelling, never add a verdict.

The reference (sa/reference_locals.json: per function, the statement shapes and the names occurring in them) is produced
by tools/make_reference.py from the repaired tree and is committed; it holds no line numbers and no layout.
Only Name nodes and "except ... as name" of function bodies are touched; parameters, attributes, methods, classes and
module-level names are left alone (they are the anchors of the rules and are reported as vanished if renamed).
'''
import ast
import builtins
import difflib
import hashlib
import json
import os

REF_PATH = os.path.join(os.path.dirname(os.path.abspath(__file__)), 'reference_locals.json')
_BUILTINS = set(dir(builtins))


def _all_params(func):
    out = set()
    for n in ast.walk(func):
        if isinstance(n, (ast.FunctionDef, ast.AsyncFunctionDef, ast.Lambda)):
            a = n.args
            for x in a.posonlyargs + a.args + a.kwonlyargs:
                out.add(x.arg)
            if a.vararg:
                out.add(a.vararg.arg)
            if a.kwarg:
                out.add(a.kwarg.arg)
    return out


def local_names(func):
    ''' Names bound by assignment anywhere below func (any nested scope), minus parameters and declared globals. '''
    stores = set()
    glob = set()
    for n in ast.walk(func):
        if isinstance(n, ast.Name) and isinstance(n.ctx, (ast.Store, ast.Del)):
            stores.add(n.id)
        elif isinstance(n, ast.ExceptHandler) and n.name:
            stores.add(n.name)
        elif isinstance(n, ast.Global):
            glob.update(n.names)
    return {s for s in stores - _all_params(func) - glob if not (s.startswith('__') and s.endswith('__'))}


def _ordered_names(node, locs):
    ''' (name-carrying node, weight) in deterministic source order. '''
    out = []

    def walk(n):
        if isinstance(n, ast.Name):
            if n.id in locs:
                out.append((n, 3 if isinstance(n.ctx, (ast.Store, ast.Del)) else 1))
            return
        if isinstance(n, ast.ExceptHandler):
            if n.name in locs:
                out.append((n, 3))
        for c in ast.iter_child_nodes(n):
            walk(c)
    walk(node)
    return out


class _Abstract(ast.NodeTransformer):
    def __init__(self, locs):
        self.locs = locs

    def visit_Name(self, node):
        if node.id in self.locs:
            return ast.Name('_', node.ctx)
        return node


def _shape(nodes, locs, tag):
    from .core import clone
    parts = [tag]
    for n in nodes:
        if n is None:
            parts.append('None')
        else:
            parts.append(ast.dump(_Abstract(locs).visit(clone(n))))
    return hashlib.sha1('|'.join(parts).encode()).hexdigest()[:12]


def units(func, locs):
    ''' Flatten a function into (shape, [name nodes]) units: simple statements whole, compound statements by header. '''
    out = []

    def emit(tag, nodes):
        carriers = []
        for n in nodes:
            if n is not None:
                carriers.extend(_ordered_names(n, locs))
        out.append((_shape(nodes, locs, tag), carriers))

    def body(stmts):
        for s in stmts:
            if isinstance(s, ast.If):
                emit('If', [s.test])
                body(s.body)
                body(s.orelse)
            elif isinstance(s, ast.While):
                emit('While', [s.test])
                body(s.body)
                body(s.orelse)
            elif isinstance(s, (ast.For, ast.AsyncFor)):
                emit('For', [s.target, s.iter])
                body(s.body)
                body(s.orelse)
            elif isinstance(s, (ast.With, ast.AsyncWith)):
                nodes = []
                for it in s.items:
                    nodes.append(it.context_expr)
                    nodes.append(it.optional_vars)
                emit('With', nodes)
                body(s.body)
            elif isinstance(s, ast.Try):
                body(s.body)
                for h in s.handlers:
                    out.append((hashlib.sha1(('Except|' + (ast.dump(h.type) if h.type is not None else 'None') + '|' + ('_' if h.name in locs else str(h.name))).encode()).hexdigest()[:12],
                                [(h, 3)] if h.name in locs else []))
                    body(h.body)
                body(s.orelse)
                body(s.finalbody)
            elif isinstance(s, (ast.FunctionDef, ast.AsyncFunctionDef)):
                emit('Def:' + s.name, list(s.args.defaults))
                body(s.body)
            elif isinstance(s, ast.ClassDef):
                emit('Class:' + s.name, [])
            else:
                emit(type(s).__name__, [s])
    body(func.body)
    return out


def _carrier_name(n):
    return n.id if isinstance(n, ast.Name) else n.name


def functions(module_ast):
    ''' qualname -> FunctionDef for module-level functions and methods (nested functions belong to their outermost function). '''
    out = {}

    def visit(body, prefix):
        for n in body:
            if isinstance(n, (ast.FunctionDef, ast.AsyncFunctionDef)):
                out.setdefault(prefix + n.name, n)
            elif isinstance(n, ast.ClassDef):
                visit(n.body, prefix + n.name + '.')
    visit(module_ast.body, '')
    return out


def reference_of(module_ast):
    ref = {}
    for qual, func in functions(module_ast).items():
        locs = local_names(func)
        if not locs:
            continue
        us = units(func, locs)
        ref[qual] = [[shape, [[_carrier_name(n), w] for (n, w) in carriers]] for (shape, carriers) in us]
    return ref


def normalise_module(module_ast):
    """ Layout choices that carry no meaning are brought to one form, in place:
    "if not X: A else: B"  ->  "if X: B else: A"  (both arms present; elif chains are left alone). """
    n = 0
    for node in ast.walk(module_ast):
        if isinstance(node, ast.If) and node.orelse and isinstance(node.test, ast.UnaryOp) and isinstance(node.test.op, ast.Not) \
                and not (len(node.orelse) == 1 and isinstance(node.orelse[0], ast.If)):
            inner = node.test.operand
            inner._parent = node
            node.test = inner
            node.body, node.orelse = node.orelse, node.body
            n += 1
    n += _inline_adjacent_temporaries(module_ast)
    # "t = t op v"  ->  "t op= v"  for a plain name or an attribute chain (same value; the rules are written on the
    # augmented form)
    for node in ast.walk(module_ast):
        for fld in ('body', 'orelse', 'finalbody'):
            stmts = getattr(node, fld, None)
            if not isinstance(stmts, list):
                continue
            for ix, st in enumerate(stmts):
                if isinstance(st, ast.Assign) and len(st.targets) == 1 and isinstance(st.targets[0], (ast.Name, ast.Attribute)) \
                        and isinstance(st.value, ast.BinOp) and ast.dump(st.value.left).replace('Load()', 'Store()') == ast.dump(st.targets[0]).replace('Load()', 'Store()'):
                    new = ast.copy_location(ast.AugAssign(st.targets[0], st.value.op, st.value.right), st)
                    new._parent = getattr(st, '_parent', None)
                    st.targets[0]._parent = new
                    st.value.right._parent = new
                    stmts[ix] = new
                    n += 1
    return n


def _inline_adjacent_temporaries(module_ast):
    """ "t = E" directly followed by the one and only use of t (in a simple statement) is read as that statement with E in
    place of t: whether a sub-expression is given a name first is not part of any property.  Only locals assigned once
    and read once are touched; the value keeps its own source position. """
    n = 0
    for func in [f for f in ast.walk(module_ast) if isinstance(f, (ast.FunctionDef, ast.AsyncFunctionDef))]:
        stores = {}
        loads = {}
        for x in ast.walk(func):
            if isinstance(x, ast.Name):
                (stores if isinstance(x.ctx, (ast.Store, ast.Del)) else loads).setdefault(x.id, []).append(x)
            elif isinstance(x, ast.ExceptHandler) and x.name:
                stores.setdefault(x.name, []).append(x)
        params = _all_params(func)
        for holder in ast.walk(func):
            for fld in ('body', 'orelse', 'finalbody'):
                stmts = getattr(holder, fld, None)
                if not isinstance(stmts, list) or not stmts or not isinstance(stmts[0], ast.stmt):
                    continue
                ix = 0
                while ix + 1 < len(stmts):
                    s1, s2 = stmts[ix], stmts[ix + 1]
                    ok = isinstance(s1, ast.Assign) and len(s1.targets) == 1 and isinstance(s1.targets[0], ast.Name) and \
                        isinstance(s2, (ast.Assign, ast.AugAssign, ast.Expr, ast.Return, ast.Raise, ast.AnnAssign))
                    if ok:
                        t = s1.targets[0].id
                        ok = t not in params and len(stores.get(t, ())) == 1 and len(loads.get(t, ())) == 1
                    if ok:
                        use = loads[t][0]
                        inside = any(y is use for y in ast.walk(s2))
                        # not through a nested function / lambda / comprehension (evaluated later or repeatedly)
                        nested = False
                        if inside:
                            for y in ast.walk(s2):
                                if isinstance(y, (ast.Lambda, ast.FunctionDef, ast.ListComp, ast.SetComp, ast.DictComp, ast.GeneratorExp)) and any(z is use for z in ast.walk(y)):
                                    nested = True
                        ok = inside and not nested and isinstance(s1.value, (ast.Call, ast.Attribute, ast.Subscript, ast.BinOp, ast.Name, ast.Constant, ast.Compare, ast.BoolOp))
                    if ok:
                        par = getattr(use, '_parent', None)
                        replaced = False
                        if par is not None:
                            for f2, v2 in ast.iter_fields(par):
                                if v2 is use:
                                    setattr(par, f2, s1.value)
                                    replaced = True
                                elif isinstance(v2, list):
                                    for k, item in enumerate(v2):
                                        if item is use:
                                            v2[k] = s1.value
                                            replaced = True
                        if replaced:
                            s1.value._parent = par
                            del stmts[ix]
                            del stores[t]
                            del loads[t]
                            n += 1
                            ix = max(ix - 1, 0)
                            continue
                    ix += 1
    return n


def _method_sigs(module_ast):
    sigs = {}
    for c in [n for n in ast.walk(module_ast) if isinstance(n, ast.ClassDef)]:
        for f in c.body:
            if isinstance(f, (ast.FunctionDef, ast.AsyncFunctionDef)):
                a = f.args
                if a.args and a.args[0].arg in ('self', 'cls') and not a.vararg and not a.posonlyargs:
                    sigs.setdefault(f.name, set()).add(tuple(x.arg for x in a.args[1:]))
                else:
                    sigs.setdefault(f.name, set()).add(None)
    return sigs


def normalise_calls(modules):
    """ Keyword arguments of calls to repo methods become positional where they name the leading parameters in order
    ("self.m(a=1, b=2)" -> "self.m(1, 2)"): how a call spells its arguments is not part of any property, and the rules
    read arguments by position.  The signature is taken from the classes of the same module when the method name has
    one signature there, else from the whole tree when it has one signature there; otherwise the call is left alone.
    :param modules: {rel: module ast}  (edited in place) """
    local = {rel: _method_sigs(m) for rel, m in modules.items()}
    glob = {}
    for sigs in local.values():
        for name, ss in sigs.items():
            glob.setdefault(name, set()).update(ss)
    n = 0
    for rel, m in modules.items():
        for call in [x for x in ast.walk(m) if isinstance(x, ast.Call) and x.keywords and isinstance(x.func, ast.Attribute)]:
            name = call.func.attr
            cand = local[rel].get(name)
            if not cand or len(cand) != 1:
                cand = glob.get(name)
            if not cand or len(cand) != 1:
                continue
            params = next(iter(cand))
            if params is None or any(isinstance(a, ast.Starred) for a in call.args) or any(k.arg is None for k in call.keywords):
                continue
            # Base.m(self, ...) passes self explicitly
            recv = call.func.value
            off = 1 if (isinstance(recv, ast.Name) and recv.id[:1].isupper() and call.args and isinstance(call.args[0], ast.Name) and call.args[0].id == 'self') else 0
            npos = len(call.args) - off
            if npos < 0 or npos > len(params):
                continue
            kws = {k.arg: k for k in call.keywords}
            moved = []
            for pname in params[npos:]:
                if pname in kws:
                    moved.append(kws.pop(pname))
                else:
                    break
            if not moved:
                continue
            for k in moved:
                k.value._parent = call
                call.args.append(k.value)
            call.keywords = [k for k in call.keywords if k.arg in kws]
            n += 1
    return n


def load_reference():
    try:
        with open(REF_PATH) as infile:
            return json.load(infile)
    except OSError:
        return {}


def mapping_for(func, ref_units):
    locs = local_names(func)
    if not locs:
        return {}, []
    cur = units(func, locs)
    sm = difflib.SequenceMatcher(a=[u[0] for u in ref_units], b=[u[0] for u in cur], autojunk=False)
    votes = {}
    for (i, j, size) in sm.get_matching_blocks():
        for k in range(size):
            rnames = ref_units[i + k][1]
            cnames = cur[j + k][1]
            if len(rnames) != len(cnames):
                continue
            for ((rname, _w), (cnode, w)) in zip(rnames, cnames):
                key = (_carrier_name(cnode), rname)
                votes[key] = votes.get(key, 0) + w
    forbidden = _all_params(func) | _BUILTINS
    free = {n.id for n in ast.walk(func) if isinstance(n, ast.Name)} - locs
    ranked = sorted(votes.items(), key=lambda kv: (-kv[1], kv[0]))
    mapping = {}
    taken = set()
    for ((cname, rname), v) in ranked:
        if cname in mapping or rname in taken:
            continue
        if rname != cname:
            if votes.get((cname, cname), 0) >= v:
                continue  # identity wins ties
            if rname in forbidden or rname in free:
                continue  # would capture a parameter / global / free name
        mapping[cname] = rname
        taken.add(rname)
    # locals left alone keep their spelling unless it was taken by a mapped one
    for cname in sorted(locs):
        if cname not in mapping:
            new = cname
            while new in taken:
                new = new + '_'
            mapping[cname] = new
            taken.add(new)
    mapping = {c: r for c, r in mapping.items() if c != r}
    carriers = [n for u in cur for (n, _w) in u[1]]
    return mapping, carriers


def apply_to_module(module_ast, ref_module):
    ''' Rename in place; returns {qualname: mapping} for what was changed. '''
    changed = {}
    if not ref_module:
        return changed
    for qual, func in functions(module_ast).items():
        ref_units = ref_module.get(qual)
        if not ref_units:
            continue
        mapping, carriers = mapping_for(func, ref_units)
        if not mapping:
            continue
        for n in carriers:
            if isinstance(n, ast.Name):
                if n.id in mapping:
                    n.id = mapping[n.id]
            elif n.name in mapping:
                n.name = mapping[n.name]
        # nonlocal declarations name outer locals
        for n in ast.walk(func):
            if isinstance(n, ast.Nonlocal):
                n.names = [mapping.get(x, x) for x in n.names]
        changed[qual] = mapping
    return changed


def minmax_module(module_ast):
    """ The smaller / larger of two values is written min(a, b) / max(a, b): the spellings
    ``a if a <= b else b``  and  ``if b < a: t = b / else: t = a``  are brought to that form (same value for every input
    for which the comparison is defined; for equal values either operand is the same value).  Returns the number of
    rewrites; the caller re-computes parent links. """
    def as_minmax(test, body, orelse):
        if not (isinstance(test, ast.Compare) and len(test.ops) == 1 and isinstance(test.ops[0], (ast.Lt, ast.LtE, ast.Gt, ast.GtE))):
            return None
        (l, r) = (ast.dump(test.left), ast.dump(test.comparators[0]))
        (b, o) = (ast.dump(body), ast.dump(orelse))
        if l == r or {b, o} != {l, r}:
            return None
        less = isinstance(test.ops[0], (ast.Lt, ast.LtE))
        # body is the left operand of "<": the smaller one is chosen
        fn = 'min' if (b == l) == less else 'max'
        return ast.Call(func=ast.Name(id=fn, ctx=ast.Load()), args=[test.left, test.comparators[0]], keywords=[])

    n = 0

    class T(ast.NodeTransformer):
        def visit_IfExp(self, node):
            nonlocal n
            self.generic_visit(node)
            got = as_minmax(node.test, node.body, node.orelse)
            if got is not None:
                n += 1
                return ast.copy_location(got, node)
            return node

        def visit_If(self, node):
            nonlocal n
            self.generic_visit(node)
            if len(node.body) == 1 and len(node.orelse) == 1 and isinstance(node.body[0], ast.Assign) and isinstance(node.orelse[0], ast.Assign) \
                    and len(node.body[0].targets) == 1 and len(node.orelse[0].targets) == 1 and ast.dump(node.body[0].targets[0]) == ast.dump(node.orelse[0].targets[0]):
                got = as_minmax(node.test, node.body[0].value, node.orelse[0].value)
                if got is not None:
                    n += 1
                    new = ast.Assign(targets=[node.body[0].targets[0]], value=got)
                    ast.copy_location(new, node)
                    ast.copy_location(got, node)
                    return new
            return node
    T().visit(module_ast)
    if n:
        ast.fix_missing_locations(module_ast)
    return n
