''' Command line: decide one property on the current tree.

exit 0 held (known findings printed) / 1 VIOLATION / 2 ANALYSIS-ERROR
'''
import importlib
import json
import os
import sys
import time
import traceback

from .core import Tree, AnalysisError
from .report import finish, Check


def load(prop):
    try:
        return importlib.import_module('sa.props.' + prop.lower())
    except ModuleNotFoundError:
        raise AnalysisError('no checker module for ' + prop)


def decide(prop, tree, thorough=False):
    mod = load(prop)
    check = Check(prop, tree)
    mod.check(check, thorough)
    return check


def main(argv):
    started = time.time()
    args = [a for a in argv if not a.startswith('--')]
    thorough = '--thorough' in argv or os.environ.get('VERIF_TIER') == 'thorough'
    if '--replay' in argv:
        path = argv[argv.index('--replay') + 1]
        with open(path) as infile:
            rec = json.load(infile)
        print(json.dumps(rec, indent=1))
        prop = rec['property']
        args = [prop]
        print('--- re-deciding {} on the current tree ---'.format(prop))
    if len(args) != 1:
        print('usage: sa/run Cxx [--thorough] | --replay <path>')
        return 2
    prop = args[0].upper()
    try:
        tree = Tree()
        check = decide(prop, tree, thorough)
        extra = None
        if thorough:
            from . import selftest
            extra = selftest.run_matrix(prop, tree)
        return finish(check, 'thorough' if thorough else 'quick', started, extra)
    except AnalysisError as err:
        print('ANALYSIS-ERROR property={} {}'.format(prop, err))
        return 2
    except Exception:  # internal failure must not look like a violation
        print('ANALYSIS-ERROR property={} internal error'.format(prop))
        traceback.print_exc()
        return 2


if __name__ == '__main__':
    sys.exit(main(sys.argv[1:]))
