''' Query helpers shared by the property modules. '''
import ast
import re

from .core import (AnalysisError, walk_local, calls_in, call_name, dotted, src, loc, parent, ancestors,
                   enclosing, enclosing_stmt, is_logging_call, kwarg, self_attr, mangle, const_int, dotted_parts)
from .cfg import cfg_of, fmt_path
from . import norm
from . import core as _core

_MV = re.compile(r'\$(\w+)')


def _pat(pattern):
    text = _MV.sub(lambda m: '_mv_' + m.group(1), pattern)
    node = ast.parse(text, mode='eval').body
    return node


def pm(pattern, node, binds=None):
    ''' Structural match of an expression against a pattern with $metavars.
    A metavar matches any expression; repeated metavars must match the same
    source text.  `$_` matches anything without binding.
    :return: dict of bindings or None. '''
    pat = _pat(pattern) if isinstance(pattern, str) else pattern
    binds = {} if binds is None else dict(binds)
    return binds if _m(pat, node, binds) else None


def _m(pat, node, binds):
    if isinstance(pat, ast.Name) and pat.id.startswith('_mv_'):
        name = pat.id[4:]
        if name == '_':
            return True
        if name in binds:
            return isinstance(node, ast.AST) and src(binds[name]) == src(node)
        binds[name] = node
        return True
    if type(pat) is not type(node):
        return False
    if isinstance(pat, ast.Constant):
        return pat.value == node.value and type(pat.value) is type(node.value)
    for field in pat._fields:
        if field in ('ctx', 'type_comment', 'kind'):
            continue
        pv = getattr(pat, field, None)
        nv = getattr(node, field, None)
        if isinstance(pv, list):
            if not isinstance(nv, list) or len(pv) != len(nv):
                return False
            for (pi, ni) in zip(pv, nv):
                if isinstance(pi, ast.AST):
                    if not _m(pi, ni, binds):
                        return False
                elif pi != ni:
                    return False
        elif isinstance(pv, ast.AST):
            if not isinstance(nv, ast.AST) or not _m(pv, nv, binds):
                return False
        elif pv != nv:
            return False
    return True


def pm_stmt(pattern, stmt, binds=None):
    ''' Match a statement pattern (e.g. "$a = $b[$k:]"). '''
    text = _MV.sub(lambda m: '_mv_' + m.group(1), pattern)
    pat = ast.parse(text).body[0]
    binds = {} if binds is None else dict(binds)
    return binds if _m(pat, stmt, binds) else None


def method_calls(func, attr, recv=None):
    ''' Calls ``<recv>.attr(...)`` inside func (recv dotted text or None=any). '''
    res = []
    for call in calls_in(func):
        if isinstance(call.func, ast.Attribute) and call.func.attr == attr:
            if recv is None or dotted(call.func.value) == recv:
                res.append(call)
    return res


def one(items, what, ob=None):
    if len(items) != 1:
        raise AnalysisError('{}expected exactly one {}, found {}'.format((ob.oid + ': ') if ob else '', what, len(items)))
    return items[0]


def at_least(items, n, what, ob=None):
    if len(items) < n:
        raise AnalysisError('{}expected at least {} {}, found {}'.format((ob.oid + ': ') if ob else '', n, what, len(items)))
    return items


class FuncView:
    ''' A function with its CFG and (lazily) branch facts. '''

    def __init__(self, tree, rel, qual, kills=None):
        self.tree = tree
        self.rel = rel
        self.qual = qual
        self.func = tree.func(rel, qual)
        self.cfg = cfg_of(self.func)
        self._facts = {}
        self._kills = kills
        cls = enclosing(self.func, (ast.ClassDef,))
        self.clsname = cls.name if cls else None

    def node(self, astnode):
        return self.cfg.node_of(astnode)

    def facts(self, astnode, avoid=()):
        key = tuple(sorted(n.idx for n in avoid))
        if key not in self._facts:
            self._facts[key] = _facts(self.cfg, self._kill_fn(), avoid, self._gen_fn())
        facts, unreached = self._facts[key]
        node = self.node(astnode)
        if node.idx in unreached:
            return None
        return facts[node]

    def _kill_fn(self):
        if self._kills is not None:
            return self._kills
        if self.clsname is None:
            return None
        writes = attr_write_summary(self.tree, self.rel, self.clsname)

        def kills(astnode):
            out = set()
            for sub in walk_local(astnode) if isinstance(astnode, ast.AST) else []:
                if isinstance(sub, ast.Call):
                    name = call_name(sub) or ''
                    parts = name.split('.')
                    if len(parts) == 2 and parts[0] == 'self':
                        out |= {'self.' + a for a in writes.get(parts[1], ())}
                    elif len(parts) == 3 and parts[2] in writes and isinstance(sub.args[0] if sub.args else None, ast.Name) and sub.args[0].id == 'self':
                        # Base.meth(self, ...)
                        out |= {'self.' + a for a in writes.get(parts[2], ())}
            return out
        self._kills = kills
        return kills

    def _gen_fn(self):
        ''' Post-conditions of calls to repo methods that start with
        ``if COND: raise`` guards: after the call returns, COND is false.
        Only facts about self attributes are kept. '''
        if self.clsname is None:
            return None
        fv = self

        def gens(stmt):
            out = []
            if not isinstance(stmt, (ast.Expr, ast.Assign)) or not isinstance(stmt.value, ast.Call):
                return out
            call = stmt.value
            name = call_name(call) or ''
            parts = name.split('.')
            meth = None
            if len(parts) == 2 and parts[0] == 'self':
                got = fv.tree.find_method(fv.rel, fv.clsname, parts[1])
                # a subclass override could weaken the guard: only exact Base.m(self) and non-overridden self.m()
                if got and not any(parts[1] in [i.name for i in sub.body if isinstance(i, ast.FunctionDef)]
                                   for (_r, sub) in fv.tree.subclasses(got[0], got[1].name)):
                    meth = got[2]
            elif len(parts) == 2 and call.args and isinstance(call.args[0], ast.Name) and call.args[0].id == 'self':
                got = fv.tree.resolve_expr_class(fv.rel, call.func.value)
                if got:
                    fm = fv.tree.find_method(got[0], got[1].name, parts[1])
                    meth = fm[2] if fm else None
            if meth is None:
                return out
            return callee_post(fv.tree, meth._rel, meth._qual)
        return gens

    def has(self, astnode, text, pol, avoid=()):
        facts = self.facts(astnode, avoid)
        return facts is not None and (text, pol) in facts

    def exit_facts(self):
        ''' [(node, label, facts)] for every normal (non-raising) way out of the function: facts that hold on that way
        out (return statements, and falling off the end through the last statement or a branch edge). '''
        key = ()
        if key not in self._facts:
            self._facts[key] = _facts(self.cfg, self._kill_fn(), (), self._gen_fn())
        facts, unreached = self._facts[key]
        out = []
        for (pred, label) in self.cfg.exit.pred:
            if pred.idx in unreached or label == 'exc':
                continue
            have = set(facts[pred])
            if pred.kind == 'cond' and label in (True, False) and not isinstance(pred.owner, (ast.For, ast.With)):
                have |= set(norm.cond_facts(pred.ast, label))
            elif pred.kind == 'stmt' and pred.ast is not None:
                written = set(norm.written_names(pred.ast, pred.kind))
                kills = self._kill_fn()
                if kills:
                    written |= set(kills(pred.ast))
                have = {f for f in have if not norm.mentions(f[0], written)}
                from .cfg import _gen_facts
                have |= set(_gen_facts(pred))
                gens = self._gen_fn()
                if gens:
                    have |= set(gens(pred.ast))
            out.append((pred, label, frozenset(have)))
        return out

    def holds_any(self, astnode, alts, avoid=()):
        facts = self.facts(astnode, avoid)
        if facts is None:
            return True  # unreachable
        return any((t, p) in facts for (t, p) in alts)

    def dominates(self, a_ast, b_ast, include_exc=True):
        ''' every path entry -> b passes a '''
        ok, wit = self.cfg.must_pass(self.cfg.entry, self.node(b_ast), {self.node(a_ast)}, include_exc)
        return ok, wit

    def where(self, astnode):
        return loc(self.rel, astnode)

    def reaching_defs(self, name, use_ast):
        ''' Definitions (stmt, value) of local `name` that can reach the use
        without passing another definition of it.  A parameter counts as a
        definition at entry: represented as (None, None). '''
        defs = norm.local_assigns(self.func, name)
        use = self.node(use_ast)
        dnodes = {}
        for (st, val) in defs:
            dnodes.setdefault(self.node(st), []).append((st, val))
        res = []
        for dn, items in dnodes.items():
            # the use statement may itself redefine the name (x = f(x)): it reads the old value
            others = [n for n in dnodes if n is not dn and n is not use]
            if dn is use:
                if use in self.cfg.reachable([dn], avoid=others):
                    res.append(items[-1])       # loop-carried
                continue
            if use in self.cfg.reachable([dn], avoid=others):
                res.append(items[-1])
        if norm.is_param(self.func, name) or not defs:
            if use in self.cfg.reachable([self.cfg.entry], avoid=[n for n in dnodes if n is not use]):
                res.append((None, None))
        return res

    def value_at(self, expr, use_ast, depth=4, keep=()):
        ''' Inline local names by their unique reaching definition at use_ast. '''
        fv = self
        if depth <= 0:
            return expr

        class Sub(ast.NodeTransformer):
            def visit_Name(self, node):
                if not isinstance(node.ctx, ast.Load) or node.id in keep:
                    return node
                rd = fv.reaching_defs(node.id, use_ast)
                if len(rd) == 1 and rd[0][1] is not None and isinstance(rd[0][1], ast.expr):
                    return fv.value_at(_core.clone(rd[0][1]), rd[0][0], depth - 1, keep)
                return node

            def visit_Lambda(self, node):
                return node

        return Sub().visit(_core.clone(expr))


def callee_post(tree, rel, qual):
    ''' Post-conditions of a repo method: facts about self attributes that hold on every normal way out of it
    (e.g. after "if not self._in_sess: raise" - in whatever shape that guard is written - self._in_sess is true).
    Cached on the tree; a method on the stack of this computation contributes nothing (recursion). '''
    cache = tree.__dict__.setdefault('_post_cache', {})
    key = (rel, qual)
    if key in cache:
        return cache[key] or []
    cache[key] = None  # in progress
    res = []
    try:
        fv = FuncView(tree, rel, qual)
        exits = fv.exit_facts()
        if exits:
            common = set(exits[0][2])
            for (_n, _l, f) in exits[1:]:
                common &= set(f)
            res = sorted((t, p) for (t, p) in common if t.startswith('self.') or ' self.' in t)
    except AnalysisError:
        res = []
    cache[key] = res
    return res


def _facts(cfg, kills, avoid, gens=None):
    if not avoid:
        return cfg.facts(kills, gens)
    # temporarily cut the avoided nodes out of the graph
    saved = []
    for node in avoid:
        saved.append((node, list(node.succ)))
        node.succ = []
    try:
        return cfg.facts(kills, gens)
    finally:
        for (node, succ) in saved:
            node.succ = succ


_WRITE_CACHE = {}


def attr_write_summary(tree, rel, clsname):
    ''' method name -> set of self attributes it may write (transitively via
    self.m() calls), over the MRO of the class and its repo subclasses. '''
    # cached on the tree itself (ids of collected trees can be reused by later trees)
    cache = tree.__dict__.setdefault('_write_cache', {})
    key = (rel, clsname)
    if key in cache:
        return cache[key]
    _WRITE_CACHE = cache
    classes = list(tree.mro(rel, clsname)) + list(tree.subclasses(rel, clsname))
    direct = {}
    callees = {}
    for (_r, cnode) in classes:
        for item in cnode.body:
            if not isinstance(item, (ast.FunctionDef, ast.AsyncFunctionDef)):
                continue
            wr = direct.setdefault(item.name, set())
            cl = callees.setdefault(item.name, set())
            for sub in ast.walk(item):
                if isinstance(sub, (ast.Assign, ast.AugAssign, ast.AnnAssign, ast.Delete)) or isinstance(sub, ast.Call):
                    for name in norm.written_names(sub) if not isinstance(sub, ast.Call) else []:
                        if name.startswith('self.'):
                            wr.add(name[5:])
                if isinstance(sub, ast.Call):
                    nm = call_name(sub) or ''
                    parts = nm.split('.')
                    if len(parts) >= 2 and parts[0] == 'self' and len(parts) == 2:
                        cl.add(parts[1])
                    elif len(parts) == 3 and parts[0] == 'self' and parts[2] in norm.MUTATORS:
                        wr.add(parts[1])
                    elif len(parts) == 2 and sub.args and isinstance(sub.args[0], ast.Name) and sub.args[0].id == 'self':
                        cl.add(parts[1])
                    elif len(parts) == 3 and parts[0] == 'super()':
                        cl.add(parts[2])
                    if isinstance(sub.func, ast.Attribute) and isinstance(sub.func.value, ast.Call) and call_name(sub.func.value) == 'super':
                        cl.add(sub.func.attr)
    changed = True
    total = {k: set(v) for k, v in direct.items()}
    while changed:
        changed = False
        for meth, cls_ in callees.items():
            for callee in cls_:
                extra = total.get(callee, set()) - total[meth]
                if extra:
                    total[meth] |= extra
                    changed = True
    _WRITE_CACHE[key] = total
    return total


def stores_to_self_attr(clsnode, attr):
    ''' All statements in the class that store to self.<attr> (unmangled
    spelling as written in that class).  :return: list of (func, stmt, kind, value) '''
    res = []
    for item in clsnode.body:
        if not isinstance(item, (ast.FunctionDef, ast.AsyncFunctionDef)):
            continue
        for sub in ast.walk(item):
            if isinstance(sub, ast.Assign):
                for tgt in sub.targets:
                    for t in (tgt.elts if isinstance(tgt, (ast.Tuple, ast.List)) else [tgt]):
                        if self_attr(t) == attr:
                            res.append((item, sub, 'assign', sub.value))
            elif isinstance(sub, ast.AugAssign) and self_attr(sub.target) == attr:
                res.append((item, sub, 'aug', sub.value))
            elif isinstance(sub, ast.AnnAssign) and self_attr(sub.target) == attr and sub.value is not None:
                res.append((item, sub, 'assign', sub.value))
            elif isinstance(sub, ast.Delete):
                for tgt in sub.targets:
                    if self_attr(tgt) == attr:
                        res.append((item, sub, 'del', None))
    return res


def uses_of_self_attr(node, attr):
    ''' Attribute nodes self.<attr> below node. '''
    return [sub for sub in ast.walk(node) if self_attr(sub) == attr]


def qual_of(func):
    return getattr(func, '_qual', None) or qualname(func)


def qualname(node):
    parts = [node.name]
    for anc in ancestors(node):
        if isinstance(anc, (ast.ClassDef, ast.FunctionDef, ast.AsyncFunctionDef)):
            parts.append(anc.name)
    return '.'.join(reversed(parts))


def const_str(expr):
    if isinstance(expr, ast.Constant) and isinstance(expr.value, str):
        return expr.value
    return None


def flag_value(tree, rel, expr):
    return const_int(tree, rel, expr)


def returns_of(func):
    return [n for n in walk_local(func) if isinstance(n, ast.Return)]


def is_truthy_return(ret):
    ''' Return statement returning a constant truthy value. '''
    return ret.value is not None and isinstance(ret.value, ast.Constant) and bool(ret.value.value)


def is_falsy_return(ret):
    return ret.value is None or (isinstance(ret.value, ast.Constant) and not ret.value.value)


def path_text(path):
    return fmt_path(path)
