''' Statement-level control-flow graph for the statement kinds the repo uses,
with reachability / must-pass-through queries and a forward must-analysis of
branch facts ("which atoms hold on every path to this node").

Node kinds
  entry, exit (normal return or fall off the end), raise (exception escapes)
  stmt  - a simple statement (ast.stmt)
  cond  - the test of an if/while, the iterator of a for, a with header
Edges carry a label: None | True | False | 'iter' | 'done' | 'exc'
'''
import ast
from .core import AnalysisError, walk_local, src, dotted

CATCH_ALL = {'Exception', 'BaseException'}

# builtin exception hierarchy (child -> parent), as far as the repo needs it
EXC_PARENT = {
    'KeyError': 'LookupError', 'IndexError': 'LookupError', 'LookupError': 'Exception',
    'ValueError': 'Exception', 'TypeError': 'Exception', 'RuntimeError': 'Exception',
    'NotImplementedError': 'RuntimeError', 'AttributeError': 'Exception', 'OSError': 'Exception',
    'IOError': 'OSError', 'TimeoutError': 'OSError', 'StopIteration': 'Exception',
    'AssertionError': 'Exception', 'ArithmeticError': 'Exception', 'ZeroDivisionError': 'ArithmeticError',
    'UnicodeError': 'ValueError', 'struct.error': 'Exception', 'Exception': 'BaseException',
    'KeyboardInterrupt': 'BaseException',
    # repo classes
    'RejectError': 'Exception', 'TerminateError': 'Exception', 'VerifyError': 'RuntimeError',
    'formats.VerifyError': 'RuntimeError', 'DecodeError': 'RuntimeError',
    'socket.error': 'OSError', 'ssl.SSLError': 'OSError', 'ssl.SSLWantReadError': 'OSError',
    'dbus.DBusException': 'Exception', 'dbus.exceptions.DBusException': 'Exception',
    'x509.ExtensionNotFound': 'Exception', 'ssl.CertificateError': 'ValueError',
    'cbor2.CBORDecodeError': 'Exception', 'cbor2.CBOREncodeError': 'Exception',
    'CoseUnsupportedCurve': 'Exception',
}


def exc_is_a(name, handler_name):
    ''' True if exception class `name` is caught by `except handler_name`. '''
    if handler_name in CATCH_ALL or handler_name is None:
        return True
    seen = set()
    cur = name
    while cur and cur not in seen:
        if cur == handler_name or cur.split('.')[-1] == handler_name.split('.')[-1]:
            return True
        seen.add(cur)
        cur = EXC_PARENT.get(cur, EXC_PARENT.get(cur.split('.')[-1]))
    return False


def handler_names(handler):
    ''' Exception class names of an except clause; [None] for bare except. '''
    if handler.type is None:
        return [None]
    if isinstance(handler.type, ast.Tuple):
        return [dotted(e) or src(e) for e in handler.type.elts]
    return [dotted(handler.type) or src(handler.type)]


def raised_name(stmt):
    ''' Class name raised by ``raise X(...)`` / ``raise X``; None for re-raise. '''
    if stmt.exc is None:
        return None
    exc = stmt.exc
    if isinstance(exc, ast.Call):
        exc = exc.func
    return dotted(exc) or src(exc)


def _strip_not(test):
    pos = True
    while isinstance(test, ast.UnaryOp) and isinstance(test.op, ast.Not):
        test = test.operand
        pos = not pos
    return test, pos


class Node:
    __slots__ = ('idx', 'kind', 'ast', 'succ', 'pred', 'owner')

    def __init__(self, idx, kind, astnode=None, owner=None):
        self.idx = idx
        self.kind = kind
        self.ast = astnode
        self.owner = owner  # owning compound statement for cond nodes
        self.succ = []  # (node, label)
        self.pred = []

    @property
    def lineno(self):
        return getattr(self.ast, 'lineno', 0)

    def text(self):
        if self.kind in ('entry', 'exit', 'raise'):
            return '<{}>'.format(self.kind)
        if self.kind == 'cond':
            if isinstance(self.owner, (ast.For,)):
                return 'for {} in {}'.format(src(self.owner.target), src(self.owner.iter))
            if isinstance(self.owner, ast.With):
                return 'with ' + ', '.join(src(i) for i in self.owner.items)
            return '{} {}'.format('while' if isinstance(self.owner, ast.While) else 'if', src(self.ast))
        if self.kind == 'handler':
            return 'except ' + (src(self.ast.type) if self.ast.type else '')
        text = src(self.ast).split('\n')[0]
        return text if len(text) < 120 else text[:117] + '...'

    def __repr__(self):
        return 'N{}@{}:{}'.format(self.idx, self.lineno, self.text())


class CFG:
    def __init__(self, func):
        self.func = func
        self.nodes = []
        self.entry = self._new('entry')
        self.exit = self._new('exit')
        self.raise_exit = self._new('raise')
        self._by_ast = {}
        frontier = self._seq(func.body, [(self.entry, None)], _Ctx(self))
        for (node, label) in frontier:
            self._edge(node, self.exit, label)
        self._facts = None

    # ---- construction
    def _new(self, kind, astnode=None, owner=None):
        node = Node(len(self.nodes), kind, astnode, owner)
        self.nodes.append(node)
        if astnode is not None:
            self._by_ast.setdefault(id(astnode), node)
        return node

    @staticmethod
    def _edge(a, b, label=None):
        if (b, label) not in a.succ:
            a.succ.append((b, label))
            b.pred.append((a, label))

    def _join(self, frontier, node):
        for (pred, label) in frontier:
            self._edge(pred, node, label)

    def _seq(self, stmts, frontier, ctx):
        for stmt in stmts:
            frontier = self._stmt(stmt, frontier, ctx)
        return frontier

    def _exc_edges(self, node, ctx, raised=None, explicit=False):
        ''' Exceptional successors of a node.
        `raised` is a class name for explicit raise, None for "anything". '''
        for level in reversed(ctx.handlers):
            caught_all = False
            for (hnode, names) in level:
                if raised is None or any(exc_is_a(raised, nm) for nm in names):
                    self._edge(node, hnode, 'exc')
                    if raised is not None or any(nm is None or nm in CATCH_ALL for nm in names):
                        caught_all = True
                        break
            if caught_all:
                return
        if explicit:
            self._edge(node, self.raise_exit, 'exc')

    def _stmt(self, stmt, frontier, ctx):
        if isinstance(stmt, ast.If):
            # "if not X" is the cond node X with the edge labels exchanged: rules never see the spelling of a negation
            (test, pos) = _strip_not(stmt.test)
            cond = self._new('cond', test, stmt)
            self._by_ast.setdefault(id(stmt), cond)
            self._by_ast.setdefault(id(stmt.test), cond)
            self._join(frontier, cond)
            self._maybe_exc(cond, stmt.test, ctx)
            out = self._seq(stmt.body, [(cond, pos)], ctx)
            out += self._seq(stmt.orelse, [(cond, not pos)], ctx) if stmt.orelse else [(cond, not pos)]
            return out
        if isinstance(stmt, ast.While):
            (test, pos) = _strip_not(stmt.test)
            cond = self._new('cond', test, stmt)
            self._by_ast.setdefault(id(stmt), cond)
            self._by_ast.setdefault(id(stmt.test), cond)
            self._join(frontier, cond)
            self._maybe_exc(cond, stmt.test, ctx)
            loop = _Ctx(self, ctx)
            loop.breaks = []
            loop.cont = cond
            body_out = self._seq(stmt.body, [(cond, pos)], loop)
            self._join(body_out, cond)
            out = []
            always = isinstance(stmt.test, ast.Constant) and bool(stmt.test.value)
            if not always:
                out = self._seq(stmt.orelse, [(cond, not pos)], ctx) if stmt.orelse else [(cond, not pos)]
            return out + loop.breaks
        if isinstance(stmt, (ast.For, ast.AsyncFor)):
            cond = self._new('cond', stmt.iter, stmt)
            self._by_ast.setdefault(id(stmt), cond)
            self._join(frontier, cond)
            self._maybe_exc(cond, stmt.iter, ctx)
            loop = _Ctx(self, ctx)
            loop.breaks = []
            loop.cont = cond
            body_out = self._seq(stmt.body, [(cond, 'iter')], loop)
            self._join(body_out, cond)
            out = self._seq(stmt.orelse, [(cond, 'done')], ctx) if stmt.orelse else [(cond, 'done')]
            return out + loop.breaks
        if isinstance(stmt, (ast.With, ast.AsyncWith)):
            cond = self._new('cond', stmt.items[0].context_expr, stmt)
            self._by_ast.setdefault(id(stmt), cond)
            self._join(frontier, cond)
            self._maybe_exc(cond, stmt, ctx, header_only=True)
            return self._seq(stmt.body, [(cond, None)], ctx)
        if isinstance(stmt, ast.Try):
            return self._try(stmt, frontier, ctx)
        if hasattr(ast, 'Match') and isinstance(stmt, ast.Match):
            raise AnalysisError('match statement not modelled (line {})'.format(stmt.lineno))

        node = self._new('stmt', stmt)
        self._join(frontier, node)
        if isinstance(stmt, ast.Return):
            self._maybe_exc(node, stmt, ctx)
            if ctx.finals:
                # run pending finally blocks (innermost first), then exit
                front = [(node, None)]
                for fin in reversed(ctx.finals):
                    front = self._seq(fin, front, ctx.outer_of_final(fin))
                self._join(front, self.exit)
            else:
                self._edge(node, self.exit)
            return []
        if isinstance(stmt, ast.Raise):
            self._exc_edges(node, ctx, raised_name(stmt), explicit=True)
            if not node.succ:
                self._edge(node, self.raise_exit, 'exc')
            return []
        if isinstance(stmt, ast.Break):
            ctx.loop().breaks.append((node, None))
            return []
        if isinstance(stmt, ast.Continue):
            self._edge(node, ctx.loop().cont)
            return []
        self._maybe_exc(node, stmt, ctx)
        return [(node, None)]

    def _maybe_exc(self, node, astnode, ctx, header_only=False):
        ''' Inside a try body every statement that calls / subscripts may raise. '''
        if not ctx.handlers:
            return
        scan = astnode.items if header_only else [astnode]
        for part in scan:
            for sub in walk_local(part):
                if isinstance(sub, (ast.Call, ast.Subscript, ast.Attribute, ast.BinOp)):
                    self._exc_edges(node, ctx, None)
                    return

    def _try(self, stmt, frontier, ctx):
        inner = _Ctx(self, ctx)
        level = []
        hentries = []
        for handler in stmt.handlers:
            hnode = self._new('handler', handler, stmt)
            level.append((hnode, handler_names(handler)))
            hentries.append((hnode, handler))
        if stmt.finalbody:
            inner.finals = ctx.finals + [stmt.finalbody]
            inner._final_outer[id(stmt.finalbody)] = ctx
        if level:
            inner.handlers = ctx.handlers + [level]
        body_out = self._seq(stmt.body, frontier, inner)
        # else-body runs outside the handlers of this try
        else_ctx = _Ctx(self, ctx)
        else_ctx.finals = inner.finals
        else_ctx._final_outer = inner._final_outer
        if stmt.orelse:
            body_out = self._seq(stmt.orelse, body_out, else_ctx)
        out = list(body_out)
        for (hnode, handler) in hentries:
            hctx = _Ctx(self, ctx)
            hctx.finals = inner.finals
            hctx._final_outer = inner._final_outer
            hctx.in_handler = handler
            out += self._seq(handler.body, [(hnode, None)], hctx)
        if stmt.finalbody:
            out = self._seq(stmt.finalbody, out, ctx)
        return out

    # ---- lookup
    def node_of(self, astnode):
        ''' CFG node for a statement or condition expression; for an inner
        expression the node of its enclosing statement/condition. '''
        cur = astnode
        while cur is not None:
            got = self._by_ast.get(id(cur))
            if got is not None:
                return got
            cur = getattr(cur, '_parent', None)
            if cur is self.func:
                break
        raise AnalysisError('no CFG node for {} (line {})'.format(type(astnode).__name__, getattr(astnode, 'lineno', '?')))

    def nodes_where(self, pred):
        return [n for n in self.nodes if n.ast is not None and pred(n)]

    # ---- queries
    def reachable(self, starts, avoid=(), avoid_edges=(), include_exc=True):
        ''' Nodes reachable from `starts` (exclusive of the starts unless on a
        cycle) without entering a node in `avoid` or using an edge in
        avoid_edges (set of (src_idx, dst_idx, label)). '''
        avoid = {n.idx for n in avoid}
        seen = set()
        stack = list(starts)
        while stack:
            cur = stack.pop()
            for (nxt, label) in cur.succ:
                if not include_exc and label == 'exc':
                    continue
                if nxt.idx in avoid or nxt.idx in seen:
                    continue
                if (cur.idx, nxt.idx, label) in avoid_edges:
                    continue
                seen.add(nxt.idx)
                stack.append(nxt)
        return {self.nodes[i] for i in seen}

    def path(self, start, goal, avoid=(), include_exc=True):
        ''' A witness path start -> goal avoiding nodes, or None. '''
        avoid = {n.idx for n in avoid}
        prev = {start.idx: None}
        queue = [start]
        while queue:
            cur = queue.pop(0)
            for (nxt, label) in cur.succ:
                if not include_exc and label == 'exc':
                    continue
                if nxt.idx in avoid or nxt.idx in prev:
                    continue
                prev[nxt.idx] = (cur.idx, label)
                if nxt is goal:
                    out = []
                    idx = nxt.idx
                    while idx is not None:
                        out.append(self.nodes[idx])
                        idx = prev[idx][0] if prev[idx] else None
                    return list(reversed(out))
                queue.append(nxt)
        return None

    def must_pass(self, start, goal, through, include_exc=True):
        ''' True iff every path start -> goal passes a node of `through`.
        :return: (bool, witness path or None) '''
        if goal in through:
            return True, None
        wit = self.path(start, goal, avoid=through, include_exc=include_exc)
        return (wit is None), wit

    def dominated_by(self, node, doms, include_exc=True):
        return self.must_pass(self.entry, node, set(doms), include_exc)

    # ---- must-facts
    def facts(self, kills=None, gens=None):
        ''' Forward must-analysis: for every node the set of (atom, polarity)
        that hold on every path from entry.

        :param kills: optional callable(stmt_or_cond_ast) -> iterable of
            extra name strings considered written by that node (e.g. attributes
            written by callees).

        Status variables: a local that is only ever assigned constants (``outcome = 'crc'`` ... ``outcome = 'admitted'``,
        ``ok = False``) carries, per constant, the facts that held where it was assigned; a later test of the variable
        (``if outcome != 'admitted': return``) brings the facts of the remaining value(s) back.  This is what a guard that
        was moved into a helper returning a status looks like after inlining.  The component is a map
        var -> {constant: facts}; "var is one of these constants, and if it is c then facts hold".
        '''
        from .norm import cond_facts, written_names, mentions
        TOP = None
        state = {n.idx: TOP for n in self.nodes}
        state[self.entry.idx] = (frozenset(), frozenset())
        work = [self.entry]
        edge_facts = {}

        def unpack(imps):
            res = {}
            for (var, crep, fs) in imps:
                res.setdefault(var, {})[crep] = fs
            return res

        def pack(d):
            return frozenset((var, crep, fs) for (var, m) in d.items() for (crep, fs) in m.items())

        def merge_imps(a, b):
            (da, db) = (unpack(a), unpack(b))
            out = {}
            for var in set(da) & set(db):
                m = {}
                for crep in set(da[var]) | set(db[var]):
                    if crep in da[var] and crep in db[var]:
                        m[crep] = da[var][crep] & db[var][crep]
                    else:
                        m[crep] = da[var].get(crep, db[var].get(crep))
                out[var] = m
            return pack(out)

        def status_test(test, label):
            ''' (var, predicate over the constant) for a test of a plain local against a constant / its truth value '''
            if isinstance(test, ast.UnaryOp) and isinstance(test.op, ast.Not):
                got = status_test(test.operand, not label)
                return got
            if isinstance(test, ast.Name):
                return (test.id, (lambda c: bool(c)) if label else (lambda c: not bool(c)))
            if isinstance(test, ast.Compare) and len(test.ops) == 1 and isinstance(test.left, ast.Name) and isinstance(test.comparators[0], ast.Constant):
                k = test.comparators[0].value
                op = test.ops[0]
                if isinstance(op, (ast.Eq, ast.Is)):
                    return (test.left.id, (lambda c: (c == k and type(c) is type(k)) or (c is k)) if label else (lambda c: not ((c == k and type(c) is type(k)) or (c is k))))
                if isinstance(op, (ast.NotEq, ast.IsNot)):
                    return (test.left.id, (lambda c: not ((c == k and type(c) is type(k)) or (c is k))) if label else (lambda c: (c == k and type(c) is type(k)) or (c is k)))
            return None

        while work:
            cur = work.pop()
            cur_state = state[cur.idx]
            if cur_state is TOP:
                continue
            (cur_in, imps_in) = cur_state
            out_base = cur_in
            imps = imps_in
            if cur.kind in ('stmt', 'cond', 'handler') and cur.ast is not None:
                written = set(written_names(cur.ast if cur.kind != 'cond' else cur.owner if isinstance(cur.owner, (ast.For, ast.With)) else cur.ast, cur.kind))
                if kills:
                    written |= set(kills(cur.ast))
                if written:
                    out_base = frozenset(f for f in out_base if not mentions(f[0], written))
                    if imps:
                        imps = frozenset((var, crep, frozenset(f for f in fs if not mentions(f[0], written))) for (var, crep, fs) in imps if var not in written)
                # a constant assigned to a plain local: remember what holds here, under that value
                st = cur.ast
                if cur.kind == 'stmt' and isinstance(st, ast.Assign) and len(st.targets) == 1 and isinstance(st.targets[0], ast.Name) and isinstance(st.value, ast.Constant) \
                        and isinstance(st.value.value, (str, int, bool, type(None), bytes)):
                    imps = frozenset(x for x in imps if x[0] != st.targets[0].id) | {(st.targets[0].id, repr(st.value.value), out_base)}
                out_base = out_base | frozenset(_gen_facts(cur))
                if gens and cur.kind == 'stmt':
                    out_base = out_base | frozenset(gens(cur.ast))
            for (nxt, label) in cur.succ:
                out = out_base
                oimps = imps
                if cur.kind == 'cond' and label in (True, False) and not isinstance(cur.owner, (ast.For, ast.With)):
                    key = (cur.idx, label)
                    if key not in edge_facts:
                        edge_facts[key] = frozenset(cond_facts(cur.ast, label))
                    out = out | edge_facts[key]
                    if imps:
                        got = status_test(cur.ast, label)
                        if got is not None:
                            (var, keep) = got
                            d = unpack(imps)
                            if var in d:
                                import ast as _ast
                                left = {crep: fs for (crep, fs) in d[var].items() if keep(_ast.literal_eval(crep))}
                                if left:
                                    common = None
                                    for fs in left.values():
                                        common = fs if common is None else (common & fs)
                                    out = out | (common or frozenset())
                                    d[var] = left
                                    oimps = pack(d)
                if label == 'exc':
                    # the statement may have been interrupted: keep only the inflow facts
                    out = frozenset(f for f in cur_in if f in out_base)
                    oimps = imps_in if imps == imps_in else frozenset()
                old = state[nxt.idx]
                new = (out, oimps) if old is TOP else (old[0] & out, merge_imps(old[1], oimps))
                if old is TOP or new != old:
                    state[nxt.idx] = new
                    work.append(nxt)
        return {self.nodes[i]: (s[0] if s is not None else frozenset()) for i, s in state.items()}, \
               {i for i, s in state.items() if s is None}


class _Ctx:
    def __init__(self, cfg, outer=None):
        self.cfg = cfg
        self.outer = outer
        self.handlers = outer.handlers if outer else []
        self.finals = outer.finals if outer else []
        self._final_outer = outer._final_outer if outer else {}
        self.breaks = None
        self.cont = None
        self.in_handler = outer.in_handler if outer else None

    def loop(self):
        cur = self
        while cur is not None and cur.cont is None:
            cur = cur.outer
        if cur is None:
            raise AnalysisError('break/continue outside loop')
        return cur

    def outer_of_final(self, fin):
        return self._final_outer.get(id(fin), self)


def _gen_facts(node):
    ''' Facts established by a constant assignment ``x = True/False/None/0``. '''
    stmt = node.ast
    if node.kind != 'stmt' or not isinstance(stmt, ast.Assign) or not isinstance(stmt.value, ast.Constant):
        return []
    res = []
    for tgt in stmt.targets:
        name = dotted(tgt)
        if not name:
            continue
        val = stmt.value.value
        if val is None:
            res += [(name + ' is None', True), (name, False)]
        elif isinstance(val, (bool, int, str, bytes)):
            res += [(name, bool(val)), (name + ' is None', False)]
    return res


_CFG_CACHE = {}


def cfg_of(func):
    key = id(func)
    if key not in _CFG_CACHE:
        _CFG_CACHE[key] = (func, CFG(func))
    return _CFG_CACHE[key][1]


def fmt_path(path):
    return ['L{} {}'.format(n.lineno, n.text()) for n in path]
