''' Whole-program call graph (class-hierarchy / name based) with callback
attributes resolved through their setters, plus two interprocedural
summaries built on it: attribute-mutation reachability (R-ITER, R-WHO) and
may-escape exception sets (R-ESCAPE).
'''
import ast

from .core import (AnalysisError, walk_local, calls_in, call_name, dotted, src, enclosing, self_attr,
                   is_logging_call, parent)
from .cfg import exc_is_a, handler_names, raised_name
from . import norm

# methods of builtin containers / third-party objects that are never repo functions
_NOT_REPO = {'append', 'extend', 'insert', 'pop', 'remove', 'clear', 'add', 'discard', 'update', 'get', 'items', 'keys',
             'values', 'format', 'join', 'split', 'encode', 'decode', 'hex', 'startswith', 'endswith', 'setdefault',
             'sort', 'copy', 'index', 'count', 'strip', 'lower', 'upper', 'replace', 'seek', 'tell', 'read', 'write',
             'debug', 'info', 'warning', 'error', 'exception', 'critical', 'popleft', 'total_seconds', 'to_bytes',
             'from_bytes', 'isoformat', 'fullmatch', 'match', 'removesuffix', 'removeprefix', 'intersection'}


class CallGraph:
    def __init__(self, tree, rels=None):
        self.tree = tree
        self.funcs = []            # (rel, qual, node)
        self.by_name = {}
        self.info = {}             # id(node) -> (rel, qual)
        for (rel, qual, node) in tree.all_functions(rels):
            self.funcs.append((rel, qual, node))
            self.by_name.setdefault(node.name, []).append(node)
            self.info[id(node)] = (rel, qual)
        self._callback_attrs = None
        self._callees = {}
        self.unresolved = []

    def qual(self, node):
        return self.info.get(id(node), ('?', getattr(node, 'name', '<lambda>')))

    # ---- callbacks: self._on_x = func  (in a setter)  <-  obj.set_on_x(F)
    def callback_attrs(self):
        if self._callback_attrs is not None:
            return self._callback_attrs
        setters = {}   # setter method name -> attr
        for (rel, qual, node) in self.funcs:
            params = [a.arg for a in node.args.args[1:]]
            if len(params) != 1 or not node.name.startswith('set_'):
                continue
            body = [s for s in node.body if not (isinstance(s, ast.Expr) and isinstance(s.value, ast.Constant))]
            if len(body) == 1 and isinstance(body[0], ast.Assign) and isinstance(body[0].value, ast.Name) \
                    and body[0].value.id == params[0]:
                attr = self_attr(body[0].targets[0])
                if attr:
                    setters[node.name] = attr
        table = {}     # attr -> list of function-like nodes (FunctionDef or Lambda)
        for (rel, qual, node) in self.funcs:
            for call in calls_in(node):
                if isinstance(call.func, ast.Attribute) and call.func.attr in setters and len(call.args) == 1:
                    tgt = self._func_value(node, call.args[0])
                    if tgt is not None:
                        table.setdefault(setters[call.func.attr], []).extend(tgt)
        self._callback_attrs = table
        return table

    def _func_value(self, ctx_func, expr):
        ''' Function nodes an expression may denote (bound method / lambda / local def). '''
        if isinstance(expr, ast.Lambda):
            self.info.setdefault(id(expr), (self.qual(ctx_func)[0], self.qual(ctx_func)[1] + '.<lambda>'))
            return [expr]
        if isinstance(expr, ast.Attribute):
            return list(self.by_name.get(expr.attr, [])) or None
        if isinstance(expr, ast.Name):
            for sub in ast.walk(ctx_func):
                if isinstance(sub, ast.FunctionDef) and sub.name == expr.id and sub is not ctx_func:
                    return [sub]
            return list(self.by_name.get(expr.id, [])) or None
        return None

    # ---- call resolution
    def resolve(self, func, call):
        ''' Repo function nodes a call may invoke (empty: external/unknown). '''
        fexp = call.func
        if isinstance(fexp, ast.Name):
            name = fexp.id
            if name in ('super', 'isinstance', 'len', 'str', 'int', 'bytes', 'dict', 'list', 'set', 'tuple', 'bool',
                        'min', 'max', 'sorted', 'enumerate', 'range', 'print', 'repr', 'type', 'iter', 'next', 'map',
                        'zip', 'open', 'getattr', 'hasattr', 'any', 'all', 'reversed', 'bytearray', 'frozenset', 'sum', 'abs'):
                return []
            # nested def in an enclosing function
            cur = func
            while cur is not None:
                for sub in ast.walk(cur):
                    if isinstance(sub, ast.FunctionDef) and sub.name == name and sub is not cur:
                        return [sub]
                cur = enclosing(cur, (ast.FunctionDef, ast.AsyncFunctionDef))
            rel = self.qual(func)[0]
            got = self.tree.toplevel(rel, name) if rel in self.tree.modules else None
            if got and isinstance(got[1], ast.FunctionDef):
                return [got[1]]
            if got and isinstance(got[1], ast.ClassDef):
                init = self.tree.find_method(got[0], got[1].name, '__init__')
                return [init[2]] if init else []
            return []
        if isinstance(fexp, ast.Attribute):
            name = fexp.attr
            recv = fexp.value
            # callback attribute: self._on_close()
            if isinstance(recv, ast.Name) and recv.id == 'self' and name in self.callback_attrs():
                return list(self.callback_attrs()[name])
            if name in _NOT_REPO:
                return []
            # super().m() / Base.m(self, ...)
            cls = enclosing(func, (ast.ClassDef,))
            if isinstance(recv, ast.Call) and dotted(recv.func) == 'super' and cls is not None:
                rel = self.qual(func)[0]
                for (r, cnode) in self.tree.mro(rel, cls.name)[1:]:
                    for item in cnode.body:
                        if isinstance(item, ast.FunctionDef) and item.name == name:
                            return [item]
                return []
            if call.args and isinstance(call.args[0], ast.Name) and call.args[0].id == 'self' and not (isinstance(recv, ast.Name) and recv.id == 'self'):
                rel = self.qual(func)[0]
                got = self.tree.resolve_expr_class(rel, recv) if rel in self.tree.modules else None
                if got:
                    fm = self.tree.find_method(got[0], got[1].name, name)
                    return [fm[2]] if fm else []
            if isinstance(recv, ast.Name) and recv.id == 'self' and cls is not None:
                rel = self.qual(func)[0]
                res = []
                fm = self.tree.find_method(rel, cls.name, name)
                if fm:
                    res.append(fm[2])
                for (r, sub) in self.tree.subclasses(rel, cls.name):
                    for item in sub.body:
                        if isinstance(item, ast.FunctionDef) and item.name == name and item not in res:
                            res.append(item)
                if res:
                    return res
                return []
            # module.function
            rel = self.qual(func)[0]
            if isinstance(recv, ast.Name) and rel in self.tree.modules:
                imp = self.tree.imports(rel).get(recv.id)
                if imp and imp[0] == 'module':
                    if imp[1]:
                        got = self.tree.toplevel(imp[1], name)
                        if got and isinstance(got[1], ast.FunctionDef):
                            return [got[1]]
                        if got and isinstance(got[1], ast.ClassDef):
                            init = self.tree.find_method(got[0], got[1].name, '__init__')
                            return [init[2]] if init else []
                    return []
                if imp and imp[0] == 'ext':
                    return []
            # unknown receiver: every repo method with that name (CHA by name)
            return [f for f in self.by_name.get(name, []) if enclosing(f, (ast.ClassDef,)) is not None]
        return []

    def callees(self, func):
        key = id(func)
        if key not in self._callees:
            res = []
            body = func.body if isinstance(func.body, list) else [func.body]
            for stmt in body:
                for call in calls_in(stmt) if not isinstance(stmt, ast.Call) else [stmt] + calls_in(stmt)[1:]:
                    for tgt in self.resolve(func, call):
                        res.append((call, tgt))
            if isinstance(func, ast.Lambda):
                res = []
                for call in calls_in(func.body) if not isinstance(func.body, ast.Call) else calls_in(func):
                    for tgt in self.resolve(enclosing(func, (ast.FunctionDef,)) or func, call):
                        res.append((call, tgt))
            self._callees[key] = res
        return self._callees[key]

    def reachable_from(self, func, through=None):
        ''' Transitive callees (function nodes) of func, with one witness chain each. '''
        seen = {id(func): [func]}
        stack = [func]
        while stack:
            cur = stack.pop()
            for (call, tgt) in self.callees(cur):
                if id(tgt) in seen:
                    continue
                seen[id(tgt)] = seen[id(cur)] + [tgt]
                stack.append(tgt)
        return seen

    def chain_text(self, chain):
        return ' -> '.join(self.qual(f)[1] for f in chain)


def mutates_self_attr(func, attr):
    ''' Statements in func that structurally mutate container self.<attr>. '''
    res = []
    body = func.body if isinstance(func.body, list) else [func.body]
    for stmt in body:
        for sub in walk_local(stmt) if isinstance(stmt, ast.AST) else []:
            if isinstance(sub, ast.Call) and isinstance(sub.func, ast.Attribute) and sub.func.attr in (
                    'append', 'remove', 'pop', 'insert', 'clear', 'extend', 'add', 'discard', 'popitem', 'sort', 'reverse', 'update', 'setdefault'):
                if self_attr(sub.func.value) == attr:
                    res.append(sub)
            elif isinstance(sub, ast.Delete):
                for tgt in sub.targets:
                    if isinstance(tgt, ast.Subscript) and self_attr(tgt.value) == attr:
                        res.append(sub)
            elif isinstance(sub, ast.Assign):
                for tgt in sub.targets:
                    if isinstance(tgt, ast.Subscript) and self_attr(tgt.value) == attr:
                        res.append(sub)
    return res


SAFE_ITER_WRAPPERS = {'list', 'tuple', 'sorted', 'set', 'frozenset', 'reversed_copy'}


def iterates_directly(for_stmt):
    ''' The expression iterated, if it is not a defensive copy. '''
    it = for_stmt.iter
    if isinstance(it, ast.Call):
        name = dotted(it.func) or ''
        if name in SAFE_ITER_WRAPPERS and it.args:
            return None
        if name == 'enumerate' and it.args:
            inner = it.args[0]
            if isinstance(inner, ast.Call) and (dotted(inner.func) or '') in SAFE_ITER_WRAPPERS:
                return None
            return inner
        if isinstance(it.func, ast.Attribute) and it.func.attr == 'copy':
            return None
    if isinstance(it, ast.Subscript) and isinstance(it.slice, ast.Slice) and it.slice.lower is None and it.slice.upper is None:
        return None
    if isinstance(it, (ast.ListComp, ast.GeneratorExp, ast.List, ast.Tuple)):
        return None
    return it
