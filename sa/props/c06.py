''' C06 — fragments reassemble to the original bundle once, in any arrival order (structural clauses). '''
import ast
from ..core import AnalysisError, walk_local, calls_in, call_name, dotted, src, self_attr, kwarg, enclosing
from ..lib import (FuncView, pm, method_calls, one, at_least, stores_to_self_attr, const_str, path_text)
from .. import norm
from .c10 import c10b, c10a

FRAG = 'bp/app/fragment.py'
Q = 'Fragment._reassemble'
COMPLETE = 'reassm.valid == reassm.total_valid'


def check(chk, thorough=False):
    tree = chk.tree
    chk.run('C06.a', 'R-FLOW', 'the reassembly table is keyed by the first three identity components (source, creation time, sequence)', lambda ob: (c06a(tree, ob), c10b(tree, ob)), floor=5)
    chk.run('C06.b', 'R-ORDER', 're-injection and table deletion happen only once coverage equals [0,total); coverage only grows by the spliced range', lambda ob: c06b(tree, ob), floor=4)
    chk.run('C06.c', 'R-FLOW', 'buffer splice and coverage interval use the same bounds: the fragment own offset and offset + len(data)', lambda ob: c06c(tree, ob), floor=3)
    chk.run('C06.h', 'R-ORDER', 'fragments are reassembled before the security steps look at the bundle: reassembly runs strictly before BIB / BCB verification in the receive chain (= C12.a)', lambda ob: __import__('sa.props.c12', fromlist=['c12a']).c12a(tree, ob), floor=4)
    chk.run('C06.i', 'R-FRESH', 'each reassembly starts from an empty bundle: no default argument of the container / application classes builds a shared object', lambda ob: __import__('sa.props.common', fromlist=['fresh_defaults']).fresh_defaults(tree, ob, ['bp/util.py', 'bp/app/fragment.py', 'bp/agent.py', 'bp/encoding/bundle.py', 'bp/encoding/blocks.py']), floor=1)
    chk.run('C06.j', 'R-TYPE', 'the reassembled payload reaches the rebuilt bundle: the reassembly buffer is a bytearray, and the byte-string field it is stored into keeps a bytes-like value (folded: m2i(bytearray) is its octets, not None)', lambda ob: c06j(tree, ob), floor=2)
    chk.run('C06.k', 'R-FLOW', 'a reassembled administrative bundle is handled like one that arrived whole: the administrative element reads the record from the payload block data, not from a payload object that only decoding would have attached', lambda ob: c06k(tree, ob), floor=1)
    chk.run('C06.d', 'R-PAIR', 'one re-injection site; the fragment itself is withdrawn from delivery on every path; the synthesized bundle goes through the normal receive path', lambda ob: c06d(tree, ob), floor=3)
    chk.run('C06.f', 'R-ORDER', 'fragments and the re-injected bundle pass the receive gates: CRC gate on the whole failing set, unbounded seen-identity set, add before processing (= C08.b, C10.a)', lambda ob: (_c08b(tree, ob), c10a(tree, ob)), floor=8)
    chk.run('C06.g', 'sibling', 'checking a block CRC leaves the block as it was (blocks of the first fragment are copied into the reassembled bundle after they were checked) (= C08.c)', lambda ob: _c08c(tree, ob), floor=8)
    chk.run('C06.l', 'R-SCHEMA', 'the reassembled primary block leaves with a CRC computed over its new content: update_crc recomputes, it never keeps a value (= C08.d)', lambda ob: __import__('sa.props.c08', fromlist=['c08d']).c08d(tree, ob), floor=6)
    chk.run('C06.m', 'R-FRESH', 'the reassembly table belongs to the application object of one agent (created per instance): two agents in one process do not share reassemblies', lambda ob: __import__('sa.props.common', fromlist=['per_instance_state']).per_instance_state(tree, ob, 'bp/app/fragment.py', ['Fragment']), floor=1)
    chk.run('C06.n', 'R-NOPATH', 'every fragment admitted to reassembly is spliced in (no way from the table lookup to the exit around the splice): overlapping fragments lose nothing', lambda ob: c06n(tree, ob), floor=1)
    chk.run('C06.o', 'R-FLOW', 'every fragment a CL announces reaches the agent: the adaptors pop exactly the announced transfer and hand it on (a reopened session numbers its transfers from 1 again) (= C10.q)', lambda ob: __import__('sa.props.c11', fromlist=['adaptor_rx_fidelity']).adaptor_rx_fidelity(tree, ob), floor=2)
    chk.run('C06.p', 'R-GUARD', 'fragments addressed to the node itself are marked for delivery (and so reach reassembly): the administrative routing step looks at the destination only', lambda ob: __import__('sa.props.c10', fromlist=['admin_route_by_destination_only']).admin_route_by_destination_only(tree, ob), floor=1)
    chk.run('C06.e', 'R-GUARD', 'first_frag only from offset 0; the synthesized bundle copies its primary and blocks, clears the fragment flag and replaces only the payload data', lambda ob: c06e(tree, ob), floor=5)


def _c08b(tree, ob):
    from .c08 import c08b
    return c08b(tree, ob)


def _c08c(tree, ob):
    from .c08 import c08c
    return c08c(tree, ob)


def c06a(tree, ob):
    fv = FuncView(tree, FRAG, Q)
    keys = norm.local_assigns(fv.func, 'final_ident')
    k = one(keys, 'reassembly key', ob)
    if pm('ctr.bundle_ident()[:3]', k[1]) is None:
        ob.violate(FRAG, Q, src(k[0]), 'reassembly key is not the (source, creation time, sequence number) prefix of the bundle identity: fragments of different bundles can share an entry', k[0])
    else:
        ob.site(FRAG, k[0], 'key = bundle_ident()[:3]')
    uses = [n for n in walk_local(fv.func) if isinstance(n, ast.Subscript) and self_attr(n.value) == '_reassembly']
    gets = [c for c in calls_in(fv.func) if isinstance(c.func, ast.Attribute) and self_attr(c.func.value) == '_reassembly']
    ob.require(uses and gets, 'table accesses not found')
    for n in uses:
        if src(n.slice) != 'final_ident':
            ob.violate(FRAG, Q, src(n), 'table indexed with something other than the reassembly key', n)
        else:
            ob.site(FRAG, n, 'table[{}]'.format(src(n.slice)))
    for c in gets:
        if c.func.attr in ('get', 'pop', 'setdefault') and (not c.args or src(c.args[0]) != 'final_ident'):
            ob.violate(FRAG, Q, src(c), 'table looked up with something other than the reassembly key', c)
        else:
            ob.site(FRAG, c, 'table.{}({})'.format(c.func.attr, src(c.args[0]) if c.args else ''))


def c06b(tree, ob):
    fv = FuncView(tree, FRAG, Q)
    injs = [c for c in calls_in(fv.func) if call_name(c) == 'glib.idle_add']
    inj = one(injs, 're-injection site', ob)
    if [src(a) for a in inj.args[:1]] != ['self._agent.recv_bundle']:
        ob.violate(FRAG, Q, src(inj), 'the synthesized bundle is not re-injected through Agent.recv_bundle (CRC gate / duplicate suppression / routing)', inj)
    dels = [n for n in walk_local(fv.func) if isinstance(n, ast.Delete)]
    d = one(dels, 'table deletion', ob)
    for site in (inj, d):
        if fv.has(site, COMPLETE, True):
            ob.site(FRAG, site, 'only when coverage is complete')
        else:
            ob.violate(FRAG, Q, src(site)[:70], 'happens while payload octets may still be missing (not conditional on coverage == [0,total))', site)
    # the entry is created with total_valid = [0,total) and empty coverage
    ctors = [c for c in calls_in(fv.func) if call_name(c) == 'Reassembly']
    c = one(ctors, 'Reassembly construction', ob)
    tv = kwarg(c, 'total_valid')
    va = kwarg(c, 'valid')
    da = kwarg(c, 'data')
    tl = kwarg(c, 'total_length')
    if tv is None or pm('portion.closedopen(0, total_length)', tv) is None or tl is None or src(tl) != 'total_length':
        ob.violate(FRAG, Q, src(tv) if tv is not None else 'total_valid', 'expected coverage is not [0, total length)', c)
    elif va is None or pm('portion.empty()', va) is None:
        ob.violate(FRAG, Q, src(va) if va is not None else 'valid', 'coverage does not start empty', c)
    elif da is None or pm('bytearray(total_length)', da) is None:
        ob.violate(FRAG, Q, src(da) if da is not None else 'data', 'buffer is not sized to the total length', c)
    else:
        ob.site(FRAG, c, 'entry: total_valid=[0,total), valid=empty, buffer of total length')
    tdef = fv.value_at(ast.parse('total_length', mode='eval').body, c)
    if src(tdef) != 'ctr.bundle.primary.total_app_data_len':
        ob.violate(FRAG, Q, 'total_length = ' + src(tdef), 'total length is not the fragment total application data length', c)
    # coverage writers
    writers = [n for n in walk_local(fv.func) if isinstance(n, (ast.Assign, ast.AugAssign)) and any(w == 'reassm.valid' for w in norm.written_names(n))]
    for w in writers:
        if isinstance(w, ast.AugAssign) and isinstance(w.op, ast.BitOr) and pm('portion.closedopen($a, $b)', w.value) is not None:
            ob.site(FRAG, w, 'coverage |= [a,b)')
        else:
            ob.violate(FRAG, Q, src(w), 'coverage is written other than by union with the spliced range', w)
    ob.require(writers, 'no coverage update')
    tvw = [n for n in walk_local(fv.func) if isinstance(n, (ast.Assign, ast.AugAssign)) and any(w == 'reassm.total_valid' for w in norm.written_names(n))]
    for w in tvw:
        ob.violate(FRAG, Q, src(w), 'expected coverage is modified after creation', w)


def c06c(tree, ob):
    fv = FuncView(tree, FRAG, Q)
    spl = [n for n in walk_local(fv.func) if isinstance(n, ast.Assign) and pm('reassm.data[$a:$b]', n.targets[0]) is not None]
    s = one(spl, 'buffer splice', ob)
    got = pm('reassm.data[$a:$b]', s.targets[0])
    cov = [n for n in walk_local(fv.func) if isinstance(n, ast.AugAssign) and src(n.target) == 'reassm.valid']
    c = one(cov, 'coverage update', ob)
    cg = pm('portion.closedopen($a, $b)', c.value)
    ob.require(cg is not None, 'coverage interval form')
    if src(got['a']) != src(cg['a']) or src(got['b']) != src(cg['b']):
        ob.violate(FRAG, Q, '{} vs {}'.format(src(s.targets[0]), src(c.value)), 'the range marked as covered is not the range that was written', c)
    else:
        ob.site(FRAG, c, 'same bounds for splice and coverage')
    lo = fv.value_at(got['a'], s)
    hi = fv.value_at(got['b'], s)
    data = fv.value_at(s.value, s)
    if src(lo) != 'ctr.bundle.primary.fragment_offset':
        ob.violate(FRAG, Q, 'offset = ' + src(lo), 'splice does not start at the fragment own offset', s)
    elif pm("ctr.block_num(1).getfieldval('btsd')", data) is None and pm("ctr.block_num(Bundle.BLOCK_NUM_PAYLOAD).getfieldval('btsd')", data) is None:
        ob.violate(FRAG, Q, 'data = ' + src(data), 'spliced data is not the fragment payload', s)
    elif src(hi) not in ('ctr.bundle.primary.fragment_offset + len({})'.format(src(data)),):
        ob.violate(FRAG, Q, 'end = ' + src(hi), 'splice end is not offset + length of the fragment payload', s)
    else:
        ob.site(FRAG, s, 'splice [offset, offset+len(payload)) with the fragment payload')
    if fv.node(c) not in fv.cfg.reachable([fv.node(s)]) or not fv.dominates(s, c)[0]:
        ob.violate(FRAG, Q, src(c), 'range is marked covered without the data having been written', c)
    else:
        ob.site(FRAG, c, 'coverage updated after the splice')


def _reassembled_primary(tree, ob):
    ''' The synthesized bundle carries the primary block as originated: only the fragment flag (and with it the two fragment
    fields) goes, and the CRC value is refreshed.  Anything else changes what a security block covers. '''
    fv = FuncView(tree, FRAG, 'Fragment._reassemble')
    bad = []
    for n in walk_local(fv.func):
        if isinstance(n, (ast.Assign, ast.AugAssign)):
            for t in (n.targets if isinstance(n, ast.Assign) else [n.target]):
                tx = src(t)
                if tx.startswith('rctr.bundle.primary.') and not (tx == 'rctr.bundle.primary.bundle_flags' and 'IS_FRAGMENT' in src(n.value)):
                    bad.append((tx, n))
    for (tx, n) in bad:
        ob.violate(FRAG, fv.qual, src(n), 'the primary block of the reassembled bundle is rewritten ({}): the encoded primary block is covered by BPSec, so a correctly signed bundle that was '
                   'fragmented on its way fails verification after reassembly'.format(tx.split('.')[-1]), n)
    ups = [c for c in calls_in(fv.func) if src(c) == 'rctr.bundle.primary.update_crc()']
    if not bad and ups:
        ob.site(FRAG, ups[0], 'reassembled primary block: fragment flag cleared, CRC value refreshed, nothing else')
    elif not bad:
        ob.violate(FRAG, fv.qual, 'rctr.bundle.primary (CRC not refreshed)', 'the CRC of the primary block is not recomputed after the fragment fields went', fv.func)


def c06d(tree, ob):
    _reassembled_primary(tree, ob)
    fv = FuncView(tree, FRAG, Q)
    clears = [c for c in calls_in(fv.func) if pm('ctr.actions.clear()', c) is not None]
    # paths that pass both guards
    guards = [n for n in fv.cfg.nodes if n.kind == 'cond']
    keys = norm.local_assigns(fv.func, 'final_ident')
    start = fv.node(keys[0][0])
    ok, wit = fv.cfg.must_pass(start, fv.cfg.exit, {fv.node(c) for c in clears}, include_exc=False) if clears else (False, None)
    if not ok:
        ob.violate(FRAG, Q, 'ctr.actions.clear()', 'a fragment can stay marked for delivery (an application may receive the fragment itself)', fv.func, path_text(wit or []))
    else:
        ob.site(FRAG, clears[0], 'fragment is withdrawn from delivery on every path')
    rets = [r for r in walk_local(fv.func) if isinstance(r, ast.Return) and fv.node(r) in fv.cfg.reachable([start])]
    if not rets or any(not (isinstance(r.value, ast.Constant) and r.value.value is True) for r in rets):
        ob.violate(FRAG, Q, 'return True', 'the receive chain is not interrupted for a fragment', fv.func)
    else:
        ob.site(FRAG, rets[0], 'chain interrupted for fragments')
    # early exits are exactly: not delivered, not a fragment
    early = [r for r in walk_local(fv.func) if isinstance(r, ast.Return) and fv.node(r) not in fv.cfg.reachable([start])]
    for r in early:
        facts = fv.facts(r) or frozenset()
        if ("'deliver' in ctr.actions", False) in facts or ('ctr.bundle.primary.bundle_flags & PrimaryBlock.Flag.IS_FRAGMENT', False) in facts:
            ob.site(FRAG, r, 'pass-through for non-delivered / non-fragment bundles')
        else:
            ob.violate(FRAG, Q, 'early return', 'reassembly is skipped for a reason other than "not delivered here" / "not a fragment"', r)


def c06e(tree, ob):
    fv = FuncView(tree, FRAG, Q)
    ffs = [n for n in walk_local(fv.func) if isinstance(n, ast.Assign) and src(n.targets[0]) == 'reassm.first_frag']
    f = one(ffs, 'first_frag assignment', ob)
    off = None
    for (t, p) in (fv.facts(f) or ()):
        if p and t.endswith(' == 0'):
            off = t[:-5]
    offv = src(fv.value_at(ast.parse(off, mode='eval').body, f)) if off else None
    if src(f.value) != 'ctr.bundle' or offv != 'ctr.bundle.primary.fragment_offset':
        ob.violate(FRAG, Q, src(f), 'the first-fragment blocks are not taken from the fragment with offset 0', f)
    else:
        ob.site(FRAG, f, 'first_frag = the offset-0 fragment')
    pri = [n for n in walk_local(fv.func) if isinstance(n, ast.Assign) and src(n.targets[0]) == 'rctr.bundle.primary']
    p = one(pri, 'synthesized primary', ob)
    if pm('reassm.first_frag.primary.copy()', p.value) is None:
        ob.violate(FRAG, Q, src(p), 'synthesized primary block is not a copy of the first fragment primary', p)
    else:
        ob.site(FRAG, p, 'primary copied from first fragment')
    clr = [n for n in walk_local(fv.func) if isinstance(n, ast.AugAssign) and src(n.target) == 'rctr.bundle.primary.bundle_flags']
    c = one(clr, 'fragment flag clear', ob)
    if not isinstance(c.op, ast.BitAnd) or pm('~PrimaryBlock.Flag.IS_FRAGMENT', c.value) is None:
        ob.violate(FRAG, Q, src(c), 'the fragment flag is not cleared on the synthesized bundle', c)
    else:
        ob.site(FRAG, c, 'fragment flag cleared')
    loops = [n for n in walk_local(fv.func) if isinstance(n, ast.For) and fv.has(n.iter, COMPLETE, True)]
    lp = one(loops, 'block copy loop', ob)
    apps = [x for x in calls_in(lp) if pm('rctr.bundle.blocks.append($b.copy())', x) is not None]
    if src(lp.iter) != 'reassm.first_frag.blocks' or not apps or src(pm('rctr.bundle.blocks.append($b.copy())', apps[0])['b']) != src(lp.target):
        ob.violate(FRAG, Q, 'for {} in {}'.format(src(lp.target), src(lp.iter)), 'extension blocks of the reassembled bundle are not those of the first fragment '
                   '(they come from whichever fragment arrived last)', lp)
    else:
        ob.site(FRAG, lp, 'all blocks copied from the first fragment')
    sets = [x for x in calls_in(fv.func) if isinstance(x.func, ast.Attribute) and x.func.attr == 'setfieldval' and x.args and const_str(x.args[0]) == 'btsd'
            and fv.has(x, COMPLETE, True)]
    s = one(sets, 'payload replacement', ob)
    blk = fv.value_at(s.func.value, s, keep=('rctr',))
    if src(s.args[1]) != 'reassm.data' or (pm('rctr.block_num(Bundle.BLOCK_NUM_PAYLOAD)', blk) is None and pm('rctr.block_num(1)', blk) is None):
        ob.violate(FRAG, Q, src(s), 'the payload block of the synthesized bundle does not get the accumulated buffer', s)
    else:
        ob.site(FRAG, s, 'payload block data = accumulated buffer')
    if not fv.dominates(s, one([x for x in calls_in(fv.func) if call_name(x) == 'glib.idle_add'], 'inject', ob))[0]:
        ob.violate(FRAG, Q, src(s), 'bundle is re-injected before its payload was set', s)



def c06j(tree, ob):
    from .. import absint
    fv = FuncView(tree, FRAG, 'Fragment._reassemble')
    sets = [c for c in calls_in(fv.func) if isinstance(c.func, ast.Attribute) and c.func.attr == 'setfieldval' and c.args and const_str(c.args[0]) == 'btsd']
    st = one(sets, "setfieldval('btsd', ...) of the rebuilt bundle", ob)
    val = src(st.args[1])
    wrapped = val.startswith('bytes(')
    ob.site(FRAG, st, 'payload of the rebuilt bundle = {}'.format(val))
    if wrapped:
        ob.site(FRAG, st, 'the buffer is converted to bytes before it is stored')
        return
    cls = tree.klass('scapy_cbor/fields.py', 'BstrField')
    m = one([x for x in cls.body if isinstance(x, ast.FunctionDef) and x.name == 'm2i'], 'BstrField.m2i', ob)
    out = absint.run(m.body, {m.args.args[2].arg: bytearray(b'ab')}, {})
    if out.kind == 'return' and out.value is not None:
        ob.site('scapy_cbor/fields.py', m, 'BstrField.m2i keeps a bytearray (as its octets)')
    else:
        ob.violate('scapy_cbor/fields.py', 'BstrField.m2i', 'm2i(bytearray(...))', 'the byte-string field turns a bytearray into "no value": the reassembly buffer, which is a bytearray, is stored as None and the '
                   'reassembled bundle is delivered without its payload', out.node or m)


def c06k(tree, ob):
    ADMIN = 'bp/app/admin.py'
    fv = FuncView(tree, ADMIN, 'Administrative._recv_bundle')
    loads = [c for c in calls_in(fv.func) if (call_name(c) or '') in ('cbor2.loads', 'cbor2.load')]
    from_data = [c for c in loads if "getfieldval('btsd')" in src(fv.value_at(c.args[0], c, depth=3)) or '.btsd' in src(fv.value_at(c.args[0], c, depth=3))]
    uses_payload = [n for n in walk_local(fv.func) if isinstance(n, ast.Attribute) and n.attr == 'payload' and 'block_num' in src(fv.value_at(n.value, n, depth=2) if isinstance(n.value, ast.Name) else n.value)]
    if uses_payload:
        ob.violate(ADMIN, fv.qual, src(uses_payload[0])[:60], 'the administrative element looks at the payload object of the payload block: a bundle rebuilt from fragments was never decoded as a whole, '
                   'its payload block carries no administrative record object, and the record is refused (the bundle deleted) although it arrived complete', uses_payload[0])
    elif from_data:
        ob.site(ADMIN, from_data[0], 'the record is decoded from the payload block data')
    else:
        ob.violate(ADMIN, fv.qual, 'cbor2.loads(ctr.block_num(1).getfieldval(\'btsd\'))', 'the administrative record is not decoded from the payload block data', fv.func)


def c06n(tree, ob):
    ''' "in any arrival order, also with overlapping fragments": a fragment that is admitted to reassembly (to be delivered here,
    fragment flag set) always has its octets spliced in.  Whether its first octet is already covered says nothing about its
    last one: skipping it as a repeat leaves a hole that no later fragment needs to fill. '''
    fv = FuncView(tree, FRAG, Q)
    looks = [n for n in walk_local(fv.func) if isinstance(n, ast.Assign) and isinstance(n.value, ast.Call) and isinstance(n.value.func, ast.Attribute)
             and n.value.func.attr in ('get', 'setdefault', 'pop') and src(n.value.func.value) == 'self._reassembly']
    look = one(looks, 'lookup of the reassembly under way', ob)
    grows = [n for n in walk_local(fv.func) if isinstance(n, ast.AugAssign) and isinstance(n.op, ast.BitOr) and src(n.target).endswith('.valid')]
    grow = one(grows, 'coverage update', ob)
    rets = [r for r in walk_local(fv.func) if isinstance(r, ast.Return)]
    skipped = [r for r in rets if fv.node(r) in fv.cfg.reachable([fv.node(look)], avoid=[fv.node(grow)])]
    for r in skipped:
        ob.violate(FRAG, Q, 'return between the table lookup and the splice (under {})'.format(' and '.join(('' if p else 'not ') + t for (t, p) in (fv.facts(r) or ()) if 'valid' in t or 'offset' in t)[:80] or 'a test'),
                   'an admitted fragment can leave reassembly without its octets being spliced in: with overlapping fragments the part that only this fragment carries is lost and the bundle never completes', r, sure=True)
    (ok, wit) = fv.cfg.must_pass(fv.node(look), fv.cfg.exit, {fv.node(grow)}, include_exc=False)
    if ok and not skipped:
        ob.site(FRAG, grow, 'every admitted fragment is spliced in')
    elif not skipped:
        ob.violate(FRAG, Q, 'a way from the table lookup to the exit without the splice', 'an admitted fragment can leave reassembly without its octets being spliced in', fv.func, path_text(wit or []))
