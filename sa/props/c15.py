''' C15 — TCPCL enforces its TLS and peer-authentication policy (structural clauses). '''
import ast
import itertools
from ..core import AnalysisError, walk_local, calls_in, call_name, dotted, src, self_attr, enclosing, kwarg
from ..lib import (FuncView, pm, method_calls, one, at_least, stores_to_self_attr, const_str, path_text)
from ..cfg import handler_names
from .. import norm

SESS = 'tcpcl/session.py'


def check(chk, thorough=False):
    tree = chk.tree
    chk.run('C15.a', 'R-FLOW', 'TLS is attempted exactly when both contact headers offer it; the local offer follows the configuration', lambda ob: c15a(tree, ob), floor=3)
    chk.run('C15.b', 'R-ORDER', 'the require-TLS policy is checked (tri-state) before and after the handshake on every path to SESS_INIT / the end of contact negotiation; every failure closes', lambda ob: c15b(tree, ob), floor=5)
    chk.run('C15.c', 'R-TABLE', 'the authentication decision equals the policy table over all identifier outcomes and requirement settings', lambda ob: c15c(tree, ob), floor=180)
    chk.run('C15.e', 'R-TRUTH', 'the TLS policy enforced is the configured one: the configuration loader hands every setting on as read (an explicit false stays false)', lambda ob: __import__('sa.props.common', fromlist=['config_verbatim']).config_verbatim(tree, ob, 'tcpcl/config.py'), floor=2)
    chk.run('C15.f', 'R-ORDER', 'SESS_INIT leaves only from the contact-negotiation arm, after the TLS decision (start() sends the contact header only) (= C04.b)', lambda ob: __import__('sa.props.c04', fromlist=['c04b']).c04b(tree, ob), floor=3)
    chk.run('C15.g', 'R-GUARD', 'every TLS peer is asked for its certificate, whatever is required locally: a contradicting certificate identifier is seen (and terminates) also where nothing is required', lambda ob: c15g(tree, ob), floor=1)
    chk.run('C15.h', 'R-ESCAPE', 'an error raised by the receive handling (a failed TLS policy check among them) is not caught and logged around the receive entry: reading does not go on in the clear', lambda ob: c15h(tree, ob), floor=1)
    chk.run('C15.i', 'R-FLOW', 'the cleartext-after-contact-header test sees the octets that follow: while a message handler runs, the receive buffer is not an emptied attribute with the rest held elsewhere', lambda ob: c15i(tree, ob), floor=1)
    chk.run('C15.j', 'R-ORDER', 'a policy close is a close: Messenger.close() and ContactHandler.close() reach the connection-level close on every path (no deferral while octets wait), and that ends in socket close()', lambda ob: close_is_unconditional(tree, ob), floor=2)
    chk.run('C15.k', 'R-FLOW', 'every contact is judged by the configured policy: the agent hands its own configuration object to each handler it binds (accepted and connected alike)', lambda ob: handler_gets_agent_config(tree, ob), floor=2)
    chk.run('C15.l', 'R-ESCAPE', 'the node ID of a refused peer cannot raise on the way to the contact-failure SESS_TERM: every read of the peer node ID text sits in a handler for text that is not UTF-8 (= C17.a clause)', lambda ob: __import__('sa.props.c17', fromlist=['_peer_text'])._peer_text(tree, ob), floor=1)
    chk.run('C15.d', 'R-ORDER', 'authentication runs before the session is declared established; a failure terminates with the raised reason', lambda ob: c15d(tree, ob), floor=3)


def c15a(tree, ob):
    fv = FuncView(tree, SESS, 'Messenger.merge_contact_params')
    msgr = tree.klass(SESS, 'Messenger')
    sets = [(st, v) for (f, st, k, v) in stores_to_self_attr(msgr, '_tls_attempt') if f is fv.func]
    (st, v) = one(sets, 'write of the TLS-attempt decision', ob)
    val = fv.value_at(v, st)
    ok = isinstance(val, ast.BoolOp) and isinstance(val.op, ast.And) and len(val.values) == 2 and \
        sorted(src(x) for x in val.values) == ['self._conhead_peer.flags & contact.ContactV4.Flag.CAN_TLS', 'self._conhead_this.flags & contact.ContactV4.Flag.CAN_TLS']
    if ok:
        ob.site(SESS, st, 'attempt = own CAN_TLS and peer CAN_TLS')
    else:
        ob.violate(SESS, fv.qual, src(st), 'TLS attempt is not the conjunction of the CAN_TLS bits of both contact headers (got {})'.format(src(val)), st)
    others = [(f, st2) for (f, st2, k, v2) in stores_to_self_attr(msgr, '_tls_attempt') if f is not fv.func and f.name != '__init__']
    for (f, st2) in others:
        ob.violate(SESS, 'Messenger.' + f.name, src(st2), 'TLS attempt decision is overwritten outside contact negotiation', st2)
    fs = FuncView(tree, SESS, 'Messenger.send_contact_header')
    flag = [n for n in walk_local(fs.func) if isinstance(n, ast.AugAssign) and 'CAN_TLS' in src(n.value)]
    fl = one(flag, 'CAN_TLS offer', ob)
    if fs.has(fl, 'self._config.tls_enable', True) and isinstance(fl.op, ast.BitOr):
        ob.site(SESS, fl, 'CAN_TLS offered iff tls_enable')
    else:
        ob.violate(SESS, fs.qual, src(fl), 'CAN_TLS offer does not follow the tls_enable setting', fl)
    inits = [st3 for (st3, v3) in norm.local_assigns(fs.func, src(fl.target))]
    if not any(isinstance(s, ast.Assign) and isinstance(s.value, ast.Constant) and s.value.value == 0 for s in inits):
        ob.violate(SESS, fs.qual, 'flags = 0', 'contact header flags do not start from zero', fs.func)
    fr = FuncView(tree, SESS, 'Messenger.recv_message')
    secs = method_calls(fr.func, 'secure', 'self')
    sec = one(secs, 'secure() call', ob)
    if fr.has(sec, 'self._tls_attempt', True):
        ob.site(SESS, sec, 'handshake only when attempting')
    else:
        ob.violate(SESS, fr.qual, src(sec), 'TLS handshake is started without both sides having offered TLS', sec)
    # and always when attempting: the cond 'self._tls_attempt' true edge must pass secure()
    conds = [n for n in fr.cfg.nodes if n.kind == 'cond' and src(n.ast) == 'self._tls_attempt']
    c = one(conds, 'if self._tls_attempt', ob)
    tsucc = [s for (s, lab) in c.succ if lab is True][0]
    joins = [s for (s, lab) in c.succ if lab is False][0]
    if not fr.cfg.must_pass(tsucc, joins, {fr.node(sec)}, include_exc=False)[0] and tsucc is not fr.node(sec):
        ob.violate(SESS, fr.qual, 'if self._tls_attempt', 'when both sides offer TLS the handshake can be skipped', c.ast)


def c15b(tree, ob):
    fv = FuncView(tree, SESS, 'Messenger.recv_message')
    cfg = fv.cfg
    # octets that followed the contact header in the clear stay in the receive buffer; the handshake runs from inside the
    # receive loop, which would go on with them as if they had come through TLS
    for sec in method_calls(fv.func, 'secure', 'self'):
        if fv.has(sec, 'self.__rx_buf', False) or fv.has(sec, 'len(self.__rx_buf) == 0', True):
            ob.site(SESS, sec, 'TLS starts only with an empty receive buffer')
        else:
            ob.violate(SESS, fv.qual, src(sec)[:60] + ' with octets left in self.__rx_buf', 'a message sent in the clear behind the contact header (e.g. a SESS_INIT) is acted on after the handshake as if '
                       'it had arrived through TLS: the session is reported secure and established on unauthenticated input', sec)
    inits = [c for c in method_calls(fv.func, 'send_sess_init', 'self') if fv.has(c, 'isinstance(pkt, contact.Head)', True)]
    init = one(inits, 'active-side SESS_INIT after contact negotiation', ob)
    S = fv.node(init)
    pre = [n for n in cfg.nodes if n.kind == 'cond' and src(n.ast) == 'self._tls_attempt != self._config.require_tls']
    post = [n for n in cfg.nodes if n.kind == 'cond' and src(n.ast) == 'self.is_secure() != self._config.require_tls']
    attempt = [n for n in cfg.nodes if n.kind == 'cond' and src(n.ast) == 'self._tls_attempt']
    if not pre:
        ob.violate(SESS, fv.qual, 'self._tls_attempt != self._config.require_tls', 'no check of the TLS requirement before the handshake', fv.func)
    if not post:
        ob.violate(SESS, fv.qual, 'self.is_secure() != self._config.require_tls', 'no check of the TLS requirement after the handshake', fv.func)
    if not pre or not post or not attempt:
        return
    P1, P2, T = pre[0], post[0], attempt[0]
    # the branch end: the node where the contact branch rejoins = exit for this function (if/else at top level)
    ends = [S, cfg.exit]
    for (P, label) in ((P1, 'before'), (P2, 'after')):
        facts = fv.facts(P.ast) or frozenset()
        # tri-state guard: exactly "require_tls is not None"
        if ('self._config.require_tls is None', False) not in facts:
            ob.violate(SESS, fv.qual, '{} guarded by {}'.format(src(P.ast), _guard_text(fv, P)),
                       'the TLS policy check {} the handshake is not guarded by "require_tls is not None": a policy of False (TLS forbidden) is treated like no policy'.format(label), P.ast)
            continue
        guard = _guard_node(fv, P, 'self._config.require_tls is None')
        gfalse = [(s, lab) for (s, lab) in guard.succ if lab is False]   # policy is None: may bypass
        # mismatch => close and return, never reaching SESS_INIT
        tsucc = [s for (s, lab) in P.succ if lab is True][0]
        closes = {fv.node(c) for c in method_calls(fv.func, 'close', 'self')}
        okc, wit = cfg.must_pass(tsucc, cfg.exit, closes, include_exc=False) if tsucc not in closes else (True, None)
        reach = cfg.reachable([tsucc], include_exc=False) | {tsucc}
        if not okc or S in reach:
            ob.violate(SESS, fv.qual, 'if {}: ...'.format(src(P.ast)), 'a TLS policy violation detected {} the handshake does not close the connection and stop negotiation'.format(label), P.ast, path_text(wit or []))
        else:
            ob.site(SESS, P.ast, 'policy check {} the handshake: tri-state guard, mismatch closes'.format(label))
        # every path to SESS_INIT / to the normal end of contact negotiation passes the guard
        for end in ends:
            # paths through the contact branch only
            head = [n for n in cfg.nodes if n.kind == 'cond' and src(n.ast) == 'isinstance(pkt, contact.Head)'][0]
            hs = [s for (s, lab) in head.succ if lab is True][0]
            ok, wit = cfg.must_pass(hs, end, {guard} | closes | {cfg.raise_exit}, include_exc=False)
            if not ok:
                ob.violate(SESS, fv.qual, 'path to {} without the {}-handshake policy check'.format('SESS_INIT' if end is S else 'end of contact negotiation', label),
                           'contact negotiation can complete without checking the TLS requirement {} the handshake'.format(label), P.ast, path_text(wit))
    # order: pre-check, then attempt, then post-check
    if not (T in cfg.reachable([P1]) and P2 in cfg.reachable([T]) and P1 not in cfg.reachable([T]) and T not in cfg.reachable([P2])):
        ob.violate(SESS, fv.qual, 'pre-check / handshake / post-check order', 'the TLS policy checks are not placed around the handshake', fv.func)
    else:
        ob.site(SESS, T.ast, 'pre-check < handshake < post-check')
    # SSLError closes and stops
    hs = [h for h in walk_local(fv.func) if isinstance(h, ast.ExceptHandler) and any(nm and nm.endswith('SSLError') for nm in handler_names(h))]
    h = one(hs, 'SSLError handler', ob)
    hn = cfg.node_of(h)
    closes = {fv.node(c) for c in method_calls(fv.func, 'close', 'self')}
    okc, wit = cfg.must_pass(hn, cfg.exit, closes, include_exc=False)
    if not okc or S in cfg.reachable([hn], include_exc=False):
        ob.violate(SESS, fv.qual, 'except ssl.SSLError', 'a failed TLS handshake does not close the connection before SESS_INIT', h, path_text(wit or []))
    else:
        ob.site(SESS, h, 'handshake failure closes and stops')
    # is_secure really reports the TLS socket
    fs = FuncView(tree, SESS, 'Connection.is_secure')
    rets = [r for r in walk_local(fs.func) if isinstance(r, ast.Return)]
    if len(rets) != 1 or norm.atom(rets[0].value) != ('self.__s_tls is None', False):
        ob.violate(SESS, fs.qual, src(rets[0]) if rets else 'return', 'is_secure() does not report whether the TLS socket exists', fs.func)
    else:
        ob.site(SESS, rets[0], 'is_secure() == TLS socket present')


def _guard_node(fv, P, atom_text):
    ''' The cond node (dominating P) whose condition carries the atom. '''
    best = None
    for n in fv.cfg.nodes:
        if n.kind == 'cond' and any(t == atom_text for (t, p) in norm.all_atoms(n.ast)) and P in fv.cfg.reachable([n]):
            ok, _w = fv.cfg.must_pass(fv.cfg.entry, P, {n})
            if ok:
                best = n
    if best is None:
        raise AnalysisError('C15.b: guard node for {} not found'.format(atom_text))
    return best


def _guard_text(fv, P):
    facts = fv.facts(P.ast) or frozenset()
    return ', '.join(('' if p else 'not ') + t for (t, p) in sorted(facts) if 'require_tls' in t) or 'nothing'


# ---------------------------------------------------------------- C15.c  (R-TABLE)
class Absent:
    pass


MATCH = 'MATCH'     # a truthy matched identifier


class Interp:
    ''' Evaluate a boolean/identity expression over an environment of
    abstract values {None, False, MATCH, True}.  Only the constructs the
    decision uses are accepted; anything else is INCONCLUSIVE. '''

    def __init__(self, env):
        self.env = env

    def ev(self, node):
        if isinstance(node, ast.Constant):
            return node.value
        if isinstance(node, ast.Name):
            if node.id in self.env:
                return self.env[node.id]
            raise AnalysisError('C15.c: free name {} in the decision expression'.format(node.id))
        if isinstance(node, ast.Attribute):
            key = src(node)
            if key in self.env:
                return self.env[key]
            raise AnalysisError('C15.c: free attribute {} in the decision expression'.format(key))
        if isinstance(node, ast.BoolOp):
            if isinstance(node.op, ast.And):
                val = True
                for sub in node.values:
                    val = self.ev(sub)
                    if not val:
                        return val
                return val
            val = False
            for sub in node.values:
                val = self.ev(sub)
                if val:
                    return val
            return val
        if isinstance(node, ast.UnaryOp) and isinstance(node.op, ast.Not):
            return not self.ev(node.operand)
        if isinstance(node, ast.Compare) and len(node.ops) == 1:
            lft = self.ev(node.left)
            rgt = self.ev(node.comparators[0])
            op = node.ops[0]
            if isinstance(op, ast.Is):
                return lft is rgt
            if isinstance(op, ast.IsNot):
                return lft is not rgt
            if isinstance(op, ast.Eq):
                return lft == rgt
            if isinstance(op, ast.NotEq):
                return lft != rgt
        if isinstance(node, ast.Call) and dotted(node.func) == 'bool' and len(node.args) == 1:
            return bool(self.ev(node.args[0]))
        raise AnalysisError('C15.c: unrecognised construct in the decision expression: ' + src(node))


def _policy(ip, dns, node, dns_ref, req_host, req_node):
    ''' Reference policy (property statement): fail iff a presented identifier
    contradicts an existing reference, or a required identifier did not match. '''
    contradiction = (ip is False) or (dns_ref and dns is False) or (node is False)
    host_ok = (ip == MATCH) or (dns == MATCH)
    node_ok = (node == MATCH)
    return bool(contradiction or (req_host and not host_ok) or (req_node and not node_ok))


def text_field_faithful(tree, ob):
    ''' the node ID that is reported, and matched against the certificate, is the one the peer announced, octet for octet:
    the text field decodes strictly (a lenient decode turns "dtn://ser\xffver/" into the certified "dtn://server/") and does
    nothing else to the text (a Unicode normalisation reports, and compares, another string than was announced). '''
    fcls = tree.klass('tcpcl/formats.py', 'StrLenFieldUtf8')
    for m in [x for x in fcls.body if isinstance(x, ast.FunctionDef) and x.name in ('i2h', 'h2i', 'm2i', 'i2m')]:
        for c in calls_in(m):
            nm = (call_name(c) or '').split('.')[-1]
            if isinstance(c.func, ast.Attribute) and c.func.attr in ('decode', 'encode'):
                err = kwarg(c, 'errors') if any(k.arg == 'errors' for k in c.keywords) else (c.args[1] if len(c.args) > 1 else None)
                if err is None or (isinstance(err, ast.Constant) and err.value == 'strict'):
                    ob.site('tcpcl/formats.py', c, 'StrLenFieldUtf8.{}: strict text coding'.format(m.name))
                else:
                    ob.violate('tcpcl/formats.py', 'StrLenFieldUtf8.' + m.name, src(c), 'the node ID text is decoded leniently: octets that are not UTF-8 vanish (or are replaced), so an announced node ID that '
                               'differs from the certified one compares equal to it', c, sure=True)
            elif nm in ('plain_str', 'str', 'bytes'):
                continue
            else:
                ob.violate('tcpcl/formats.py', 'StrLenFieldUtf8.' + m.name, src(c)[:60], 'the text of the field is re-coded ({}): the node ID reported and compared is not the one the peer announced '
                           '(composed and decomposed spellings become equal)'.format(nm), c, sure=True)


def c15c(tree, ob):
    fv = FuncView(tree, SESS, 'Messenger.merge_session_params')
    # the IPADDR-ID reference is the address of the PEER
    refs = [n for n in walk_local(fv.func) if isinstance(n, ast.Assign) and any(src(t) == 'peer_ipaddrid' for t in n.targets)]
    for n in refs:
        v = src(fv.value_at(n.value, n, depth=4))
        if 'getpeername()' in v and 'getsockname' not in v:
            ob.site(SESS, n, 'IP reference identifier = address of the peer socket')
        else:
            ob.violate(SESS, fv.qual, src(n) + '  (= ' + v[:60] + ')', 'the IPADDR-ID reference is not the address of the peer: certificate IP names are matched against the wrong address', n)
    # the DNS-ID reference is the name the user asked to connect to: it travels from the connect request (toaddr) through
    # Connection._peer_name; taken from the socket instead it is always an address, never a name, and a certificate whose DNS
    # names contradict the requested host is accepted
    dns = [(st, v) for (st, v) in norm.local_assigns(fv.func, 'peer_dnsid') if not (isinstance(v, ast.Constant) and v.value is None)]
    if len(dns) != 1 or src(dns[0][1]) != 'self._peer_name':
        ob.violate(SESS, fv.qual, 'peer_dnsid = ' + (src(dns[0][1]) if dns else '?'), 'the DNS-ID reference is not the name the connection was requested for', dns[0][0] if dns else fv.func)
    else:
        fi = FuncView(tree, SESS, 'Messenger.__init__')
        inits = [c for c in calls_in(fi.func) if pm('Connection.__init__(self, $s, $p, $n)', c) is not None]
        ci = one(inits, 'Connection.__init__ call in Messenger.__init__', ob)
        arg = ci.args[3]
        vals = set()
        if isinstance(arg, ast.Name):
            for (dst, dval) in fi.reaching_defs(arg.id, ci):
                vals.add(src(dval) if dval is not None and isinstance(dval, ast.AST) else '?')
        elif isinstance(arg, ast.IfExp):
            vals = {src(arg.body), src(arg.orelse)}
        else:
            vals = {src(arg)}
        conn = tree.klass(SESS, 'Connection')
        stores = [(f, st, k, v) for (f, st, k, v) in stores_to_self_attr(conn, '_peer_name')]
        kept = len(stores) == 1 and stores[0][0].name == '__init__' and src(stores[0][3]) == 'peer_name'
        if vals == {'fromaddr[0]', 'toaddr[0]'} and kept:
            ob.site(SESS, ci, 'DNS-ID reference = the host the connect request named (toaddr), kept unchanged in _peer_name')
        else:
            ob.violate(SESS, fi.qual, 'peer name = ' + ' / '.join(sorted(vals)), 'the name of the peer is not taken from the connect request (toaddr): asked of the socket it is always an address, the DNS-ID '
                       'reference is then never set, and a certificate with contradicting DNS names is accepted', ci)
    text_field_faithful(tree, ob)
    # whether the policy applies is decided by whether the stream is secured, nothing else: get_secure_socket() hands out the
    # TLS socket as it is (one that answers None for a peer without a certificate makes that peer skip every check)
    fg = FuncView(tree, SESS, 'Connection.get_secure_socket')
    grets = [r for r in walk_local(fg.func) if isinstance(r, ast.Return)]
    if len(grets) == 1 and grets[0].value is not None and src(grets[0].value) == 'self.__s_tls':
        ob.site(SESS, grets[0], 'get_secure_socket() is the TLS socket, unconditionally')
    else:
        bad = [r for r in grets if r.value is None or src(r.value) != 'self.__s_tls']
        ob.violate(SESS, fg.qual, src((bad or grets or [fg.func])[0])[:60], 'the secured-stream test can answer "not secured" for a TLS connection: the certificate checks and the require_*_authn policy '
                   'are skipped for such a peer and the session is established', (bad or grets or [fg.func])[0])
    # a peer without a certificate is judged by the policy: the certificate is loaded only if there is one
    loads = [c for c in calls_in(fv.func) if (call_name(c) or '').endswith('load_der_x509_certificate')]
    ld = one(loads, 'peer certificate load', ob)
    arg = src(ld.args[0])
    if fv.has(ld, arg + ' is None', False) or fv.has(ld, arg, True):
        ob.site(SESS, ld, 'certificate loaded only when the peer presented one')
    else:
        ob.violate(SESS, fv.qual, src(ld)[:70], 'the peer certificate is loaded without looking whether there is one: a TLS client without a certificate makes the load raise out of the '
                   'receive callback instead of being answered with SESS_TERM contact-failure (or accepted where no authentication is required)', ld)
    # (the policy decision, not the conversion of a decoding error inside an except arm)
    raises = [r for r in walk_local(fv.func) if isinstance(r, ast.Raise) and r.exc is not None and 'TerminateError' in src(r.exc) and enclosing(r, (ast.ExceptHandler,)) is None]
    r = one(raises, 'TerminateError raise in merge_session_params', ob)
    if 'CONTACT_FAILURE' not in src(r.exc):
        ob.violate(SESS, fv.qual, src(r), 'authentication failure does not terminate with contact-failure', r)
    ifnode = r._parent
    ob.require(isinstance(ifnode, ast.If) and ifnode.body == [r], 'decision is not a plain "if <expr>: raise"')
    # must be under TLS only and before the session parameters are used
    if not fv.has(ifnode.test, 'sock_tls', True):
        raise AnalysisError('C15.c: decision is not under the TLS branch')
    decision = fv.value_at(ifnode.test, ifnode, keep=('authn_ipaddrid', 'authn_dnsid', 'authn_nodeid', 'peer_ipaddrid', 'peer_dnsid', 'peer_nodeid'))
    # names the expression may still contain after inlining
    rows = 0
    bad = []
    domain = [None, False, MATCH]
    for (ip, nd, dns_ref, req_host, req_node) in itertools.product(domain, domain, (True, False), (True, False), (True, False)):
        for dns in (domain if dns_ref else [None, False]):
            env = {
                'authn_ipaddrid': ip, 'authn_dnsid': dns, 'authn_nodeid': nd,
                'peer_ipaddrid': 'IP-REFERENCE', 'peer_dnsid': ('dns.example' if dns_ref else None), 'peer_nodeid': 'dtn://peer/',
                'self._config.require_host_authn': req_host, 'self._config.require_node_authn': req_node,
            }
            got = bool(Interp(env).ev(decision))
            want = _policy(ip, dns, nd, dns_ref, req_host, req_node)
            rows += 1
            ob.note('row ip={} dns={}(ref {}) node={} req_host={} req_node={} -> fail={}'.format(ip, dns, dns_ref, nd, req_host, req_node, got))
            if got != want:
                bad.append((ip, dns, dns_ref, nd, req_host, req_node, got, want))
    # the three authn_* values really come from match_id on the matching reference / SAN kind
    for (name, ref, san) in (('authn_ipaddrid', 'peer_ipaddrid', 'x509.IPAddress'), ('authn_dnsid', 'peer_dnsid', 'x509.DNSName'),
                             ('authn_nodeid', 'peer_nodeid', 'x509.UniformResourceIdentifier')):
        defs = [(s, v) for (s, v) in norm.local_assigns(fv.func, name) if not (isinstance(v, ast.Constant) and v.value is None)]
        if len(defs) != 1 or pm('match_id({}, cert, {}, $l, $n)'.format(ref, san), defs[0][1]) is None:
            ob.violate(SESS, fv.qual, '{} = {}'.format(name, src(defs[0][1]) if defs else '?'), '{} is not the result of matching {} against the {} names of the peer certificate'.format(name, ref, san), defs[0][0] if defs else fv.func)
    # group mismatching rows by cause so that one defect is one finding
    groups = {}
    for row in bad:
        (ip, dns, dns_ref, nd, req_host, req_node, got, want) = row
        if want and not got:
            if ip is False or (dns_ref and dns is False) or nd is False:
                cause = 'accepts a certificate identifier that contradicts its reference'
                key = 'accepts contradiction ip={} dns={} ref={} node={}'.format(ip is False, dns is False, dns_ref, nd is False)
            elif req_host and ip != MATCH and dns != MATCH:
                cause = 'host authentication is required but the session is accepted although neither the IP nor the DNS identifier matched'
                key = 'accepts unmatched host: ip={} dns={} dns-reference={}'.format(ip, dns, dns_ref)
            else:
                cause = 'node authentication is required but the session is accepted although the node identifier did not match'
                key = 'accepts unmatched node: node={}'.format(nd)
        else:
            cause = 'rejects a peer that satisfies the policy'
            key = 'rejects ip={} dns={} ref={} node={} req_host={} req_node={}'.format(ip, dns, dns_ref, nd, req_host, req_node)
        groups.setdefault(key, (cause, []))[1].append(row)
    for key, (cause, rws) in sorted(groups.items()):
        ob.violate(SESS, fv.qual, key, '{} ({} of {} table rows, e.g. ip={} dns={} dns-reference={} node={} require_host={} require_node={})'.format(
            cause, len(rws), rows, *rws[0][:6]), ifnode)
    match_id_exact(tree, ob)


def match_id_exact(tree, ob):
    ''' the comparison of a reference identifier with those of a certificate (shared by the TLS policy and by the BPSec key
    lookup) is the exact membership test, and its three outcomes are kept apart. '''
    # tri-state tail of match_id
    fm = FuncView(tree, SESS, 'match_id')
    rets = [x for x in walk_local(fm.func) if isinstance(x, ast.Return)]
    ret = one(rets, 'return in match_id', ob)
    ob.require(isinstance(ret.value, ast.Name), 'match_id does not return a local')
    rname = ret.value.id
    sets = norm.local_assigns(fm.func, rname)
    table = {}
    for (st, val) in sets:
        facts = fm.facts(st) or frozenset()
        has_ids = ('cert_ids', True) in facts
        no_ids = ('cert_ids', False) in facts
        inside = ('ref_id in cert_ids', True) in facts
        outside = ('ref_id in cert_ids', False) in facts
        if has_ids and inside:
            table['match'] = src(val)
        elif has_ids and outside:
            table['mismatch'] = src(val)
        elif no_ids:
            table['absent'] = src(val)
        else:
            other = [(t, p) for (t, p) in facts if norm.mentions(t, ['ref_id']) or norm.mentions(t, ['cert_ids'])]
            if other:
                # the result depends on a test of the reference against the certificate that is not the plain membership
                ob.violate(SESS, 'match_id', '{} under {}{}'.format(src(st), '' if other[0][1] else 'not ', other[0][0])[:110], 'whether a certificate identifier matches is decided by something other than '
                           '"the reference is one of the identifiers of the certificate" (folded, trimmed or partially compared): a certificate issued for another name authenticates this one -- '
                           'for a TLS peer, and for the security source of a signed bundle', st, sure=True)
                return
            raise AnalysisError('C15.c: unrecognised assignment of the match result: ' + src(st))
    # whether the certificate carries identifiers of the kind is decided from the certificate alone, never from the reference:
    # an empty / absent reference with identifiers present must come out as "mismatch" (False), not "absent" (None)
    for (st, val) in norm.local_assigns(fm.func, 'cert_ids'):
        if isinstance(val, ast.Constant) and val.value is None:
            continue
        facts = fm.facts(st) or frozenset()
        if any(norm.mentions(t, ['ref_id']) for (t, p) in facts):
            ob.violate(SESS, 'match_id', 'cert_ids collected under a condition on ref_id', 'the identifiers of the certificate are only read when a reference exists: a certificate identifier '
                       'with an empty announced node id is reported as "absent" instead of "contradicting", and the session is accepted', st)
    want = {'match': 'ref_id', 'mismatch': 'False', 'absent': 'None'}
    if table != want:
        ob.violate(SESS, 'match_id', 'result table {}'.format(table), 'match_id does not return (matched id / False when names present but none equal / None when no names): {}'.format(table), fm.func)
    else:
        ob.note('match_id tail: present&equal -> id, present&unequal -> False, absent -> None')



def funnel_order(tree, ob):
    ''' In the reject/terminate funnel of recv_message no earlier except clause may catch the class of a later one
    (resolved through the repository class hierarchy): otherwise a termination request is answered as a rejection. '''
    fv = FuncView(tree, SESS, 'Messenger.recv_message')
    for t in [t for t in walk_local(fv.func) if isinstance(t, ast.Try)]:
        names = []
        for h in t.handlers:
            for nm in handler_names(h):
                names.append((nm.split('.')[-1] if nm else None, h))
        for i, (early, he) in enumerate(names):
            for (late, hl) in names[i + 1:]:
                if early is None or late is None or not tree.has_class(SESS, late):
                    continue
                bases = [c.name for (_r, c) in tree.mro(SESS, late)]
                if early in bases[1:] or early in ('Exception', 'BaseException'):
                    ob.violate(SESS, fv.qual, 'except {} before except {}'.format(early, late), '{} is a subclass of {} and is caught by the earlier clause: a failed authentication is answered with '
                               'MSG_REJECT and the session stays up instead of SESS_TERM(contact failure)'.format(late, early), he)
                else:
                    ob.site(SESS, hl, 'except {} is not shadowed by except {}'.format(late, early))


def c15d(tree, ob):
    fv = FuncView(tree, SESS, 'Messenger.recv_message')
    merges = [c for c in method_calls(fv.func, 'merge_session_params', 'self')]
    m = one(merges, 'merge_session_params call', ob)
    ests = [c for c in method_calls(fv.func, '_update_state', 'self') if c.args and const_str(c.args[0]) == 'established']
    e = one(ests, "state 'established'", ob)
    ok, wit = fv.dominates(m, e)
    if not ok or fv.node(m) in fv.cfg.reachable([fv.node(e)]):
        ob.violate(SESS, fv.qual, src(e), 'the session is declared established before peer authentication ran', e, path_text(wit or []))
    else:
        ob.site(SESS, e, 'established only after merge_session_params')
    cbs = [c for c in calls_in(fv.func) if pm('self._in_sess_func()', c) is not None]
    for c in cbs:
        if not fv.dominates(m, c)[0]:
            ob.violate(SESS, fv.qual, src(c), 'session-start callback can run before peer authentication', c)
        else:
            ob.site(SESS, c, 'session-start callback after authentication')
    funnel_order(tree, ob)
    hs = [h for h in walk_local(fv.func) if isinstance(h, ast.ExceptHandler) and any(nm and nm.endswith('TerminateError') for nm in handler_names(h))]
    hs_term = [x for x in hs if method_calls(x, 'send_sess_term', 'self')]
    h = one(hs_term, 'TerminateError handler that terminates', ob)
    # a refused peer must not transfer: _in_sess is set before validation (SESS_TERM needs it), so either a "refused"
    # flag set where validation fails gates the transfer handler, or _in_sess is withdrawn after the SESS_TERM
    inner = [x for x in hs if x is not h and fv.node(m) in {fv.node(st) for st in walk_local(enclosing(x, (ast.Try,))) if isinstance(st, ast.stmt)} | set()]
    flags = set()
    for x in inner:
        reraises = any(isinstance(r, ast.Raise) and r.exc is None for r in walk_local(x))
        for n in walk_local(x):
            if isinstance(n, ast.Assign) and isinstance(n.value, ast.Constant) and n.value.value is True and reraises:
                for t in n.targets:
                    if isinstance(t, ast.Attribute) and dotted(t.value) == 'self':
                        flags.add('self.' + t.attr)
    withdrawn = [n for n in walk_local(h) if isinstance(n, ast.Assign) and any(src(t) == 'self._in_sess' for t in n.targets) and isinstance(n.value, ast.Constant) and n.value.value is False]
    fx = FuncView(tree, SESS, 'Messenger.recv_xfer_data')
    gated = [f for f in flags if any((f, False) in set(facts) for (_n, _l, facts) in fx.exit_facts()) and all((f, False) in set(facts) for (_n, _l, facts) in fx.exit_facts())]
    if gated:
        ob.site(SESS, inner[0], 'failed validation sets {}; recv_xfer_data rejects while it is set'.format(gated[0]))
    elif withdrawn:
        ob.site(SESS, withdrawn[0], 'failed validation withdraws _in_sess after the SESS_TERM')
    else:
        ob.violate(SESS, fv.qual, 'merge_session_params() fails -> SESS_TERM, _in_sess stays True', 'a peer that failed authentication is sent SESS_TERM (contact failure) but every transfer gate tests only '
                   '_in_sess, which was set before validation: its XFER_SEGMENTs are still acknowledged and the bundle is delivered', m)
    terms = method_calls(h, 'send_sess_term', 'self')
    if not terms or src(terms[0].args[0]) != '{}.reason'.format(h.name):
        ob.violate(SESS, fv.qual, 'except TerminateError', 'termination does not carry the raised reason', h)
    else:
        ob.site(SESS, terms[0], 'TerminateError -> SESS_TERM(reason)')


def c15g(tree, ob):
    ''' the identifier table is decided over what the peer's certificate SAYS; for that the certificate has to be asked for.
    The context asks every peer for a certificate (CERT_OPTIONAL) whatever the local requirements are: "a certificate
    identifier that contradicts the announced node ID terminates the session" holds also where nothing is required. '''
    CONF = 'tcpcl/config.py'
    fv = FuncView(tree, CONF, 'Config.get_ssl_context')
    sets = [n for n in walk_local(fv.func) if isinstance(n, ast.Assign) and len(n.targets) == 1 and isinstance(n.targets[0], ast.Attribute) and n.targets[0].attr == 'verify_mode']
    ob.require(sets, 'verify_mode is set in get_ssl_context')
    for st in sets:
        v = src(st.value)
        if v not in ('ssl.CERT_OPTIONAL', 'ssl.CERT_REQUIRED'):
            ob.violate(CONF, fv.qual, src(st), 'the TLS context does not ask the peer for a certificate on this way: a listening node never sees a certificate whose identifier contradicts the announced '
                       'node ID and establishes instead of terminating with contact-failure', st, sure=True)
        else:
            ob.site(CONF, st, 'the peer is always asked for its certificate')
    rets = [r for r in walk_local(fv.func) if isinstance(r, ast.Return) and r.value is not None and not (isinstance(r.value, ast.Constant) and r.value.value is None)]
    for r in rets:
        if not fv.cfg.must_pass(fv.cfg.entry, fv.node(r), {fv.node(s_) for s_ in sets if src(s_.value) in ('ssl.CERT_OPTIONAL', 'ssl.CERT_REQUIRED')}, include_exc=False)[0]:
            ob.violate(CONF, fv.qual, src(r), 'a TLS context is returned that was not told to ask the peer for a certificate', r)


def c15h(tree, ob):
    ''' the policy checks of the receive path speak by raising (a TLS context that cannot be built, a refused certificate,
    "unsecured data before the handshake"): the error ends the connection's reading.  A broad handler around the receive
    entry that logs and carries on turns each of them into "continue in the clear". '''
    from ..cfg import handler_names
    n = 0
    for qual in ('Connection._rx_proxy', 'Connection._avail_rx_notls', 'Connection._avail_rx_tls', 'Connection._conn_rx_proxy'):
        if not tree.has_func(SESS, qual):
            continue
        func = tree.func(SESS, qual)
        for c in [x for x in calls_in(func) if isinstance(x.func, ast.Attribute) and x.func.attr in ('recv_raw', '_rx_proxy') and src(x.func.value) == 'self']:
            n += 1
            cur = getattr(c, '_parent', None)
            prev = c
            bad = None
            while cur is not None and cur is not func:
                if isinstance(cur, ast.Try) and any(prev is st or any(prev is y for y in ast.walk(st)) for st in cur.body):
                    for h in cur.handlers:
                        names = [(nm or 'BaseException').split('.')[-1] for nm in handler_names(h)]
                        broad = any(nm in ('Exception', 'BaseException') for nm in names)
                        ends = any(isinstance(y, ast.Raise) for y in ast.walk(h)) or any(isinstance(y, ast.Call) and isinstance(y.func, ast.Attribute) and y.func.attr in ('close', '_close', 'abort') for y in ast.walk(h))
                        if broad and not ends:
                            bad = h
                prev = cur
                cur = getattr(cur, '_parent', None)
            if bad is not None:
                ob.violate(SESS, qual, 'except {}: (log) around {}'.format('/'.join(handler_names(bad)) or 'BaseException', src(c)), 'an error raised while received octets are handled is logged and reading goes on: '
                           'a failed TLS policy check (context cannot be built, handshake skipped by the peer) no longer stops the contact, the session continues in the clear', bad, sure=True)
            else:
                ob.site(SESS, c, qual + ': an error of the receive handling is not swallowed')
    ob.require(n >= 1, 'receive entry calls')


def c15i(tree, ob):
    ''' "nothing in the clear may follow the contact header" is tested by the handler of the contact header on the receive
    buffer.  The test sees something only if the buffer, while a handler runs, holds the octets that follow the message being
    handled.  A receive loop that works on a private copy and leaves the attribute empty meanwhile blinds it: a SESS_INIT in
    the clear, pipelined behind the contact header, is accepted as the first message of the secured session. '''
    fv = FuncView(tree, SESS, 'Messenger.recv_raw')
    hands = [c for c in method_calls(fv.func, 'recv_message', 'self')]
    h = one(hands, 'hand-over to recv_message in recv_raw', ob)
    stores = [n for n in fv.cfg.nodes if n.kind == 'stmt' and isinstance(n.ast, (ast.Assign, ast.AugAssign))
              and any(self_attr(t) == '__rx_buf' for t in (n.ast.targets if isinstance(n.ast, ast.Assign) else [n.ast.target]))]
    ob.require(stores, 'writes of the receive buffer in recv_raw')
    hn = fv.node(h)
    bad = []
    for s_ in stores:
        if not (isinstance(s_.ast, ast.Assign) and isinstance(s_.ast.value, ast.Constant) and s_.ast.value.value in (b'', '')):
            continue
        others = [x for x in stores if x is not s_]
        if hn in fv.cfg.reachable([s_], avoid=others):
            bad.append(s_)
    if bad:
        ob.violate(SESS, fv.qual, '{}  ... {}'.format(bad[0].text()[:40], src(h)[:40]), 'a message handler can run while the receive buffer attribute is empty although octets are still waiting (they are held in a local): '
                   'the "unsecured data before the TLS handshake" test of the contact-header handler sees nothing, a cleartext SESS_INIT pipelined behind the contact header is accepted', bad[0].ast, sure=True)
    else:
        ob.site(SESS, h, 'while a handler runs the receive buffer holds what follows the message')


def close_is_unconditional(tree, ob):
    """ when the TLS or authentication policy fails the session is closed on the spot; the close must really happen in
    that call: what the peer sent together with the offending message is still in the receive buffer and is acted on if
    the connection stays open "until the transmit buffer has drained". """
    SESS = 'tcpcl/session.py'
    for (qual, pats) in (('Messenger.close', ('super(Messenger, self).close()', 'Connection.close(self)', 'super().close()')),
                         ('ContactHandler.close', ('super(ContactHandler, self).close()', 'Messenger.close(self)', 'super().close()'))):
        if not tree.has_func(SESS, qual):
            continue
        fv = FuncView(tree, SESS, qual)
        ups = [c for c in calls_in(fv.func) if any(pm(p_, c) is not None for p_ in pats)]
        if not ups:
            ob.violate(SESS, qual, 'no call of the base close()', 'close() does not hand on to the connection-level close', fv.func)
            continue
        ok, wit = fv.cfg.must_pass(fv.cfg.entry, fv.cfg.exit, {fv.node(c) for c in ups}, include_exc=False)
        if ok:
            ob.site(SESS, ups[0], qual + ': every way through reaches the connection-level close')
        else:
            ob.violate(SESS, qual, 'return without ' + src(ups[0]), 'close() has a way out that does not close (deferred until something else happens): after a failed TLS / authentication policy '
                       'check the connection stays open, the messages the peer sent along are still handled (a SESS_INIT is answered, a bundle taken) and an endpoint whose peer stopped reading never closes', ups[0], path_text(wit) if wit else None)
    fv = FuncView(tree, SESS, 'Connection.close')
    closes = [c for c in calls_in(fv.func) if pm('sock.close()', c) is not None or (isinstance(c.func, ast.Attribute) and c.func.attr == 'close' and 'sock' in src(c.func.value))]
    ob.require(closes, 'socket close() in Connection.close')
    ob.site(SESS, closes[0], 'Connection.close closes the sockets')


def handler_gets_agent_config(tree, ob):
    AG = 'tcpcl/agent.py'
    n = 0
    for (r, qual, func) in tree.all_functions([AG]):
        fv = None
        for c in calls_in(func):
            if not (isinstance(c.func, ast.Attribute) and c.func.attr == '_bind_handler'):
                continue
            n += 1
            fv = fv or FuncView(tree, AG, qual)
            cfg = kwarg(c, 'config')
            val = fv.value_at(cfg, c, depth=3) if cfg is not None else None
            if val is not None and src(val) == 'self._config':
                ob.site(AG, c, qual + ': the handler is bound with the configuration of the agent')
            else:
                ob.violate(AG, qual, 'config=' + (src(val)[:60] if val is not None else '<none>'), 'the handler of this contact does not get the configuration of the agent but something derived from it: a '
                           'requirement of the configured policy (require_tls, require_host_authn, require_node_authn) can be switched off for these contacts', c, sure=val is not None and isinstance(val, ast.Call))
    ob.require(n >= 2, '_bind_handler calls: {}'.format(n))
