''' C20 — BTP-U messages round-trip and segmented transfers reassemble (structural clauses). '''
import ast
from ..core import AnalysisError, walk_local, calls_in, call_name, dotted, src, self_attr, kwarg, enclosing, const_int
from ..lib import (FuncView, pm, method_calls, one, at_least, stores_to_self_attr, const_str, path_text)
from .. import norm, schema
from .common import tiling, linear
from .c13 import c13f

MSGS = 'btpu/messages.py'
BAGENT = 'btpu/agent.py'
QS = 'Agent._send_transfer'
QR = 'Agent._recv_msg'


class _Mute:
    def violate(self, *a, **k):
        pass

    def site(self, *a, **k):
        pass


def check(chk, thorough=False):
    tree = chk.tree
    chk.run('C20.a', 'sibling', 'length and hint bookkeeping agree between build and dissect; message types 1-5 are bound; header sizes are 4 (message) / 2 (hint) / 8 (transfer) octets', lambda ob: c20a(tree, ob), floor=8)
    chk.run('C20.b', 'R-LINEAR', 'one bundle PDU iff there is no MTU or the data is within mtu - message header size', lambda ob: c20b(tree, ob), floor=2)
    chk.run('C20.c', 'R-GUARD+R-LINEAR', 'segments tile from 0 by step = mtu - len(head with length hint) - transfer header size; only the last is TransferEnd; indices count from 0 by 1; step > 0 guaranteed', lambda ob: c20c(tree, ob), floor=5)
    chk.run('C20.d', 'R-ORDER', 'a transfer is queued only when the received indices equal [0,end]; data is concatenated in index order; repeats are ignored; keyed by (channel, transfer number)', lambda ob: c20d(tree, ob), floor=5)
    chk.run('C20.f', 'R-FLOW', 'a queued bundle is measured at its end and sent from its start; received items get local ids; the channel key names every field of the channel once', lambda ob: c20f(tree, ob), floor=4)
    chk.run('C20.g', 'R-PAIR', 'a received bundle is queued and then announced under one id, taken from a receive counter that only increments (never reused while an earlier bundle may still be queued)', lambda ob: c13f(tree, ob, BAGENT), floor=3)
    chk.run('C20.h', 'R-FLOW', 'the send entry queues a file over exactly the octets passed in (byte-array conversion only)', lambda ob: __import__('sa.props.common', fromlist=['entry_fidelity']).entry_fidelity(tree, ob, 'btpu/agent.py', 'Agent.send_bundle_data'), floor=1)
    chk.run('C20.i', 'R-TRUTH', 'the MTU applied is the configured one: the configuration loader hands every setting on as read (no clamping)', lambda ob: __import__('sa.props.common', fromlist=['config_verbatim']).config_verbatim(tree, ob, 'btpu/config.py'), floor=2)
    chk.run('C20.j', 'R-FRESH', 'the queues and reassembly table of a BTP-U agent belong to that agent object (created per instance, no shared default objects)', lambda ob: (__import__('sa.props.common', fromlist=['per_instance_state', 'fresh_defaults']).per_instance_state(tree, ob, 'btpu/agent.py', ('Agent',)), __import__('sa.props.common', fromlist=['per_instance_state', 'fresh_defaults']).fresh_defaults(tree, ob, ['btpu/agent.py', 'btpu/messages.py', 'btpu/config.py'])), floor=3)
    chk.run('C20.k', 'R-ORDER', 'a bundle that cannot be sent costs that bundle only: the head item leaves the TX queue before it is worked on', lambda ob: __import__('sa.props.common', fromlist=['tx_queue_head_leaves_first']).tx_queue_head_leaves_first(tree, ob, 'btpu/agent.py'), floor=1)
    chk.run('C20.l', 'R-GUARD', 'the TX worker is started whenever the queue holds something (not only for the first item): a failed send does not leave the bundles behind it waiting for ever', lambda ob: __import__('sa.props.common', fromlist=['tx_trigger_whenever_nonempty']).tx_trigger_whenever_nonempty(tree, ob, 'btpu/agent.py'), floor=1)
    chk.run('C20.m', 'R-WHO', 'every transfer gets a number of its own: the number of a queued item is given by _add_tx_item from the counter (which it then advances), never pre-set by the send entry', lambda ob: c20m(tree, ob), floor=2)
    chk.run('C20.n', 'R-FLOW', 'the frame payload is the message set as built: a sender functor puts exactly the octets it is given on the link (nothing appended or re-wrapped)', lambda ob: c20n(tree, ob), floor=1)
    chk.run('C20.o', 'R-GUARD', 'whether a bundle fits is decided where the MTU is known: the send entries refuse nothing because of its size (a large bundle is segmented)', lambda ob: c20o(tree, ob), floor=2)
    chk.run('C20.e', 'R-TRUTH', 'the end index is tested with "is not None": zero is a legitimate end index', lambda ob: c20e(tree, ob), floor=1)


def _size(tree, cls):
    return sum(f.width for f in schema.fields_desc(tree, MSGS, cls) if f.width is not None and f.cond is None)


def _hints_unbounded(tree, ob):
    ''' the header length covers hints + message; the hint list is read as long as the chain flag says so.  A bound on the
    number of list items (max_count) makes scapy stop early: the rest of the hints is taken for the message, which then
    decodes to Raw and is dropped by the receiver. '''
    cls = tree.klass(MSGS, 'MessageHead')
    found = 0
    for c in [x for x in ast.walk(cls) if isinstance(x, ast.Call) and (call_name(x) or '').split('.')[-1] == 'PacketListField' and x.args and const_str(x.args[0]) == 'hints']:
        found += 1
        extra = [k.arg for k in c.keywords if k.arg in ('max_count', 'count_from', 'length_from')]
        if extra:
            ob.violate(MSGS, 'MessageHead', 'PacketListField(hints, {}=...)'.format(extra[0]), 'the hint list is cut by something other than its own chain flag ({}): a header with more hints than that '
                       'is mis-framed, its message decodes to Raw and the segment (and so the transfer) is lost'.format(extra[0]), c, sure=True)
        else:
            ob.site(MSGS, c, 'hint list is read by its chain flag only')
    ob.require(found >= 1, 'hints field of MessageHead')


def c20a(tree, ob):
    _hints_unbounded(tree, ob)
    binds = {kws.get('msg_type'): up for (lo, up, kws, node) in schema.bindings(tree, MSGS) if lo == 'MessageHead'}
    want = {1: 'DefinitePadding', 2: 'BundlePdu', 3: 'TransferSeg', 4: 'TransferEnd', 5: 'TransferCancel'}
    if binds != want:
        ob.violate(MSGS, '<module>', 'bind_layers', 'message types {} differ from {}'.format(binds, want), None)
    else:
        ob.site(MSGS, tree.module(MSGS).tree, 'message types 1-5 bound')
    sizes = {'MessageHead': _size(tree, 'MessageHead'), 'HintHead': _size(tree, 'HintHead'), '_Transfer': _size(tree, '_Transfer')}
    if sizes != {'MessageHead': 4, 'HintHead': 2, '_Transfer': 8}:
        ob.violate(MSGS, '<module>', 'header sizes {}'.format(sizes), 'fixed header sizes differ from 4 / 2 / 8 octets', None)
    else:
        ob.site(MSGS, tree.klass(MSGS, 'MessageHead'), 'header sizes: message 4, hint 2, transfer 8 octets')
    head = {f.name: f for f in schema.fields_desc(tree, MSGS, 'MessageHead', inherit=False)}
    ln = head.get('length')
    if ln is None or ln.length_of != 'hints' or src(ln.kwargs.get('adjust', ast.Constant(value=None))) != 'length_cb':
        ob.violate(MSGS, 'MessageHead', 'length field', 'declared length is not (hints + payload) via length_cb', tree.klass(MSGS, 'MessageHead'))
    else:
        ob.site(MSGS, ln.node, 'length = len(hints) adjusted by length_cb')
    fl = FuncView(tree, MSGS, 'length_cb')
    r = one([x for x in walk_local(fl.func) if isinstance(x, ast.Return)], 'return in length_cb', ob)
    if pm('orig + len(pkt.payload)', r.value) is None and pm('len(pkt.payload) + orig', r.value) is None:
        ob.violate(MSGS, 'length_cb', src(r), 'built length does not add the payload length to the hints length', r)
    else:
        ob.site(MSGS, r, 'build: length = hints + payload')
    fe = FuncView(tree, MSGS, 'MessageHead.extract_padding')
    r = one([x for x in walk_local(fe.func) if isinstance(x, ast.Return)], 'return in MessageHead.extract_padding', ob)
    # (inlined: whether the hints length gets a name of its own does not matter)
    pl = fe.value_at(ast.parse('pyld_len', mode='eval').body, r, depth=4, keep=('fld', 'fval'))
    if pm('data[:pyld_len], data[pyld_len:]', r.value) is None or src(pl) != "self.getfieldval('length') - fld.i2len(self, fval)":
        ob.violate(MSGS, fe.qual, src(r), 'dissect does not cut the payload as (declared length - hints length)', r)
    else:
        ob.site(MSGS, r, 'dissect: payload = length - hints')
    fh = FuncView(tree, MSGS, 'HintHead.extract_padding')
    hrets = [x for x in walk_local(fh.func) if isinstance(x, ast.Return)]
    ob.require(hrets, 'return in HintHead.extract_padding')
    for r in hrets:
        pl = fh.value_at(ast.parse('pyld_len', mode='eval').body, r)
        if pm('data[:pyld_len], data[pyld_len:]', r.value) is None or src(pl) != "self.getfieldval('length')":
            ob.violate(MSGS, fh.qual, src(r), 'a hint is not cut by its own length (also an empty one: the rest of the datagram is the next hint or the message, not the value of this hint)', r)
        else:
            ob.site(MSGS, r, 'hint cut by its own length')
    # hint chain flag: written by self_build, read by hint_cb
    fb = FuncView(tree, MSGS, 'MessageHead.self_build')
    hflag = [n for n in walk_local(fb.func) if isinstance(n, ast.Assign) and src(n.targets[0]) == 'self.flags']
    okw = hflag and pm('8 if self.hints else 0', hflag[0].value) is not None
    last = [n for n in walk_local(fb.func) if isinstance(n, ast.Assign) and src(n.targets[0]).endswith('.h_flag')]
    okl = last and pm('1 if ix > 0 else 0', last[0].value) is not None and 'reversed(self.hints)' in src(enclosing(last[0], (ast.For,)).iter)
    fc = FuncView(tree, MSGS, 'hint_cb')
    reads = {src(n.ast) for n in fc.cfg.nodes if n.kind == 'cond'}
    okr = 'cur.h_flag' in reads and any(const_int(tree, MSGS, ast.parse(t.split('&')[1].strip(), mode='eval').body) == 8 for t in reads if t.startswith('pkt.flags &'))
    if not (okw and okl and okr):
        ob.violate(MSGS, 'MessageHead.self_build / hint_cb', 'hint chain flags', 'the "more hints" flags written when building (0x8 on the head, h_flag on all but the last hint) are not the ones read when dissecting', fb.func)
    else:
        ob.site(MSGS, fb.func, 'hint chain: head 0x8 / h_flag on all but last, read by hint_cb')
    fm = FuncView(tree, MSGS, 'is_msg_cb')
    conds = [n for n in fm.cfg.nodes if n.kind == 'cond']
    if not conds or set(norm.all_atoms(conds[0].ast)) != {('remain', True), ('remain[0] == 0', False)}:
        ob.violate(MSGS, 'is_msg_cb', 'remain and remain[0] != 0', 'a message set does not stop at padding / end of data', fm.func)
    else:
        ob.site(MSGS, fm.func, 'message set ends at a zero octet or the end')


def c20b(tree, ob):
    fv = FuncView(tree, BAGENT, QS)
    single = [c for c in calls_in(fv.func) if call_name(c) == 'BundlePdu']
    s = one(single, 'bundle PDU construction', ob)
    cond = enclosing(s, (ast.If,))
    ob.require(cond is not None, 'unsegmented branch')
    test = norm.strip(cond.test)
    atoms = set(norm.all_atoms(test)) if isinstance(test, ast.BoolOp) and isinstance(test.op, ast.Or) else set()
    head = _size(tree, 'MessageHead')
    fits = None
    for (t, p) in atoms:
        got = pm('total_len < $b', ast.parse(t, mode='eval').body) if p else pm('total_len > $b', ast.parse(t, mode='eval').body)
        if got is not None:
            form = linear(got['b'], ())
            fits = form
    if ('mtu is None', True) not in atoms or fits is None or len(atoms) != 2:
        ob.violate(BAGENT, QS, 'if ' + src(cond.test), 'a bundle is sent as one PDU under a condition other than (no MTU or data < mtu - header)', cond)
    elif fits != {'mtu': 1, 1: -int(head)}:
        ob.violate(BAGENT, QS, 'if ' + src(cond.test), 'the fit test reserves {} octets but the message header is {} octets'.format(-fits.get(1, 0), int(head)), cond)
    else:
        ob.site(BAGENT, cond, 'single PDU iff no MTU or data < mtu - {}'.format(int(head)))
    # the message length field has 20 bits: a bundle PDU of 2**20 octets or more cannot be declared truthfully
    lim = [r for r in walk_local(fv.func) if isinstance(r, ast.Raise) and any(__import__('re').match(r'^total_len >=? (\d+|0x[0-9a-fA-F]+)$', t) for (t, p) in (fv.facts(r) or ()) if p is True)]
    if lim and fv.cfg.must_pass(fv.cfg.entry, fv.node(s), {fv.node(enclosing(lim[0], (ast.If,)))})[0]:
        ob.site(BAGENT, lim[0], 'a bundle too large for the 20-bit length field is refused')
    else:
        ob.violate(BAGENT, QS, src(s) + ' without a size limit', 'without an MTU a bundle of 2**20 octets or more is put into one message whose 20-bit length field silently wraps: the frame decodes to '
                   'different messages', s)
    tl = fv.value_at(ast.parse('total_len', mode='eval').body, s, keep=('data',))
    if src(tl) != 'len(data)' or pm('BundlePdu(data)', s) is None:
        ob.violate(BAGENT, QS, src(s), 'the PDU does not carry the whole bundle data', s)
    else:
        ob.site(BAGENT, s, 'PDU carries the bundle unchanged')


def c20c(tree, ob):
    fv = FuncView(tree, BAGENT, QS)
    loop = one([n for n in walk_local(fv.func) if isinstance(n, ast.While)], 'segment loop', ob)
    til = tiling(fv, loop, ob, BAGENT, 'BTP-U segment tiling')
    ob.site(BAGENT, loop, 'tiling loop over {} by {}'.format(src(til.data), src(til.step)))
    tot = fv.value_at(til.total, loop.test, keep=('data',))
    if src(tot) != 'len({})'.format(src(til.data)):
        ob.violate(BAGENT, QS, 'while ' + src(loop.test), 'loop bound is not the length of the data being cut', loop)
    step = src(til.step)
    facts = fv.facts(til.slice) or frozenset()
    if (step + ' > 0', True) in facts or ('0 < ' + step, True) in facts or (step + ' >= 1', True) in facts:
        ob.site(BAGENT, til.slice, 'step > 0 guaranteed')
    else:
        ob.violate(BAGENT, QS, 'no guard {} > 0'.format(step), 'with an MTU not larger than the headers the step is zero or negative: the loop never terminates', til.slice)
    # budget
    defs = norm.local_assigns(fv.func, step) if isinstance(til.step, ast.Name) else []
    d = one(defs, 'step definition', ob)
    form = linear(d[1], ())
    xfer = int(_size(tree, '_Transfer'))
    terms = {k: v for k, v in form.items() if k != 1}
    mh = fv.value_at(ast.parse('msg_head', mode='eval').body, d[0], depth=1)
    okh = isinstance(mh, ast.Call) and call_name(mh) == 'MessageHead' and 'HintHead(hint_type=0)' in src(mh) and "total_len.to_bytes(4, 'big')" in src(mh)
    if terms != {'mtu': 1, 'len(msg_head)': -1} or form.get(1, 0) != -xfer or not okh:
        ob.violate(BAGENT, QS, src(d[0]), 'segment budget is not mtu - len(message head with the length hint) - {} (transfer header)'.format(xfer), d[0])
    else:
        ob.site(BAGENT, d[0], 'budget = mtu - len(head with length hint) - {}'.format(xfer))
    # END only on the last, SEG otherwise
    segs = [c for c in calls_in(loop) if call_name(c) == 'TransferSeg']
    ends = [c for c in calls_in(loop) if call_name(c) == 'TransferEnd']
    sg = one(segs, 'TransferSeg construction', ob)
    en = one(ends, 'TransferEnd construction', ob)
    more = '{} < {}'.format(til.off, src(til.total))
    okm = fv.has(sg, more, True) and fv.has(en, more, False)
    after = fv.node(sg) in fv.cfg.reachable([fv.node(til.advance)], avoid=[fv.node(loop.test)]) and fv.node(en) in fv.cfg.reachable([fv.node(til.advance)], avoid=[fv.node(loop.test)])
    if not okm or not after:
        ob.violate(BAGENT, QS, 'TransferSeg / TransferEnd choice', 'the last segment (and only it) is not a TransferEnd: the choice is not "data remains after this piece" evaluated after the advance '
                   '(e.g. a final piece that is exactly full is sent as a plain segment and no end ever follows)', sg)
    else:
        ob.site(BAGENT, en, 'TransferEnd iff nothing remains after this piece')
    # indices 0,1,2...
    idx = [n for n in walk_local(loop) if isinstance(n, ast.AugAssign) and src(n.target) == 'seg_idx']
    init = [st for (st, v) in norm.local_assigns(fv.func, 'seg_idx') if isinstance(st, ast.Assign)]
    fields = [n for n in walk_local(loop) if isinstance(n, ast.Assign) and src(n.targets[0]) == 'fields']
    okx = len(idx) == 1 and isinstance(idx[0].op, ast.Add) and isinstance(idx[0].value, ast.Constant) and idx[0].value.value == 1 and len(init) == 1 and \
        isinstance(init[0].value, ast.Constant) and init[0].value.value == 0 and fields and pm('dict(xfer_num=item.transfer_id, seg_idx=seg_idx)', fields[0].value) is not None and \
        fv.node(idx[0]) in fv.cfg.reachable([fv.node(fields[0])], avoid=[fv.node(loop.test)])
    if not okx:
        ob.violate(BAGENT, QS, 'seg_idx', 'segment indices do not count 0,1,2,... with the transfer number of the item', loop)
    else:
        ob.site(BAGENT, idx[0], 'indices from 0 by 1, transfer number = item id')
    for c in (sg, en):
        st = c._parent
        while not isinstance(st, ast.Assign):
            st = st._parent
        if 'Raw({})'.format(src(fv.value_at(ast.parse('seg_data', mode='eval').body, st, depth=0))) not in src(st.value) or not src(st.value).startswith('msg_head /'):
            ob.violate(BAGENT, QS, src(st), 'segment message is not head / transfer header / the piece', st)
    sd = fv.value_at(ast.parse('seg_data', mode='eval').body, sg, depth=1)
    if src(sd) != src(til.slice):
        ob.violate(BAGENT, QS, 'seg_data = ' + src(sd), 'the piece sent is not the piece cut', sg)


def c20_timer(tree, ob):
    ''' One reassembly timeout per transfer: stored on the transfer, the previous one removed when a new segment arrives,
    and the cancel callback tolerant of a transfer that is already gone. '''
    fv = FuncView(tree, BAGENT, QR)
    adds = [c for c in calls_in(fv.func) if (call_name(c) or '').endswith('timeout_add') and any('_rx_progress_cancel' in src(a) for a in c.args)]
    ob.require(adds, 'reassembly timeout not found')
    for c in adds:
        par = getattr(c, '_parent', None)
        stored = isinstance(par, ast.Assign) and any(src(t) == 'xfer.timeout_id' for t in par.targets)
        removes = [r for r in calls_in(fv.func) if (call_name(r) or '').endswith('source_remove') and src(r.args[0]) == 'xfer.timeout_id'] if stored else []
        if stored and removes and all(fv.dominates(r, c)[0] or fv.node(r) in fv.cfg.reachable([fv.cfg.entry]) for r in removes) and \
                fv.cfg.must_pass(fv.cfg.entry, fv.node(c), {n for n in fv.cfg.nodes if n.kind == 'cond' and 'xfer.timeout_id' in src(n.ast)})[0]:
            ob.site(BAGENT, c, 'one timeout per transfer, restarted by each new segment')
        else:
            ob.violate(BAGENT, QR, src(c)[:70], 'every segment adds another timeout and none is cancelled: the timer of the first segment deletes a transfer that is still receiving, the stale '
                       'ones delete the partial transfers that follow, and after completion each leftover raises KeyError', c)
    fc = FuncView(tree, BAGENT, 'Agent._rx_progress_cancel')
    hard = [d for d in walk_local(fc.func) if isinstance(d, ast.Delete) and any('_rx_progres' in src(t) for t in d.targets)] + \
           [c for c in calls_in(fc.func) if pm('self._rx_progres.pop(key)', c) is not None]
    if hard:
        ob.violate(BAGENT, fc.qual, src(hard[0]), 'cancelling a transfer that is already gone raises KeyError out of the timer callback', hard[0])
    else:
        ob.site(BAGENT, fc.func, 'cancel tolerates a transfer that is already gone')
    # the timer dies with its transfer: the function that takes a transfer out of the table (completion calls it too) removes
    # the source, else the timer of a completed transfer fires later and cancels whichever transfer then has that number
    pops = [n for n in walk_local(fc.func) if isinstance(n, ast.Assign) and pm('self._rx_progres.pop($k, $d)', n.value) is not None and isinstance(n.targets[0], ast.Name)]
    if pops:
        var = pops[0].targets[0].id
        rem = [c for c in calls_in(fc.func) if (call_name(c) or '').endswith('source_remove') and c.args and src(c.args[0]) == var + '.timeout_id']
        if rem and fc.has(rem[0], var + '.timeout_id is None', False) and fc.has(rem[0], var + ' is None', False):
            ob.site(BAGENT, rem[0], 'the timeout source is removed together with the transfer')
        else:
            ob.violate(BAGENT, fc.qual, 'glib.source_remove({}.timeout_id)'.format(var), 'the reassembly timer of a transfer that leaves the table (completed or cancelled) stays armed: when it fires it cancels a '
                       'later transfer that reuses the number, which is then never queued', pops[0])


def c20d(tree, ob):
    c20_timer(tree, ob)
    fv = FuncView(tree, BAGENT, QR)
    adds = [c for c in method_calls(fv.func, '_add_rx_item', 'self') if fv.has(c, 'isinstance(msg.payload, (TransferSeg, TransferEnd))', True)]
    a = one(adds, '_add_rx_item in the segment branch', ob)
    if not fv.has(a, 'xfer.got_idx == full_idx', True):
        ob.violate(BAGENT, QR, src(a)[:60], 'a transfer is queued without the received indices being exactly [0, end]', a)
    else:
        ob.site(BAGENT, a, 'queued only when got_idx == [0,end]')
    full = fv.value_at(ast.parse('full_idx', mode='eval').body, a, depth=1)
    if pm('apiIntInterval.closed(0, xfer.got_end)', full) is None:
        ob.violate(BAGENT, QR, 'full_idx = ' + src(full), 'the expected index set is not [0, end index]', a)
    else:
        ob.site(BAGENT, a, 'expected indices = closed(0, got_end)')
    cov = [n for n in walk_local(fv.func) if isinstance(n, ast.AugAssign) and src(n.target) == 'xfer.got_idx']
    c = one(cov, 'index set update', ob)
    if not isinstance(c.op, ast.BitOr) or pm('apiIntInterval.singleton(msg.payload.seg_idx)', c.value) is None:
        ob.violate(BAGENT, QR, src(c), 'the received index set does not grow by exactly the received index', c)
    else:
        ob.site(BAGENT, c, 'got_idx |= {seg_idx}')
    st = [n for n in walk_local(fv.func) if isinstance(n, ast.Assign) and pm('xfer.data[msg.payload.seg_idx]', n.targets[0]) is not None]
    if len(st) == 1 and src(st[0].value) == 'msg.payload.payload.load':
        ob.violate(BAGENT, QR, src(st[0]), 'the data of a segment is read through its payload layer, which a segment with an empty data field does not have: AttributeError in the frame handler, '
                   'the rest of the frame is lost and the io callback dies', st[0])
    elif len(st) != 1 or src(st[0].value) != 'bytes(msg.payload.payload)':
        ob.violate(BAGENT, QR, 'xfer.data[seg_idx] = ...', 'segment data is not stored under its index', fv.func)
    if not fv.has(c, 'msg.payload.seg_idx in xfer.got_idx', False) or (st and not fv.dominates(c, st[0])[0]):
        ob.violate(BAGENT, QR, src(c)[:60], 'a repeated segment index is processed again', c)
    # concatenation by index order
    item = one([x for x in calls_in(a) if call_name(x) == 'BundleItem'], 'queued item', ob)
    fk = kwarg(item, 'file')
    got = pm('BytesIO($d)', fk) if fk is not None else None
    ob.require(got is not None and isinstance(got['d'], ast.Name), 'queued data is not BytesIO(<local>)')
    dname = got['d'].id
    defs = norm.local_assigns(fv.func, dname)
    cats = [d[0] for d in defs if isinstance(d[0], ast.AugAssign) and isinstance(d[0].op, ast.Add)]
    okcat = False
    for cat in cats:
        lp = enclosing(cat, (ast.For,))
        if lp is not None and pm('portion.iterate(full_idx, step=1)', lp.iter) is not None and \
                src(cat.value) in ('xfer.data.pop({})'.format(src(lp.target)), 'xfer.data[{}]'.format(src(lp.target))):
            okcat = True
            ob.site(BAGENT, lp, 'data concatenated by index 0..end')
    others = [d[0] for d in defs if d[0] not in cats and not (isinstance(d[0], ast.Assign) and src(d[0].value) in ('bytes()', "b''", 'bytearray()'))]
    if not okcat or others:
        bad = (others or cats or [a])[0]
        ob.violate(BAGENT, QR, src(bad)[:80], 'segment data is not concatenated in index order over [0, end] (e.g. joined in arrival order)', bad)
    keys = [st2 for (st2, v) in norm.local_assigns(fv.func, 'key')]
    k = one(keys, 'table key', ob)
    if pm('(conv.key, msg.payload.xfer_num)', k.value) is None:
        ob.violate(BAGENT, QR, src(k), 'transfers are not keyed by (channel, transfer number)', k)
    else:
        ob.site(BAGENT, k, 'key = (channel, transfer number)')
    ends = [n for n in walk_local(fv.func) if isinstance(n, ast.Assign) and src(n.targets[0]) == 'xfer.got_end']
    e = one(ends, 'end index record', ob)
    if src(e.value) != 'msg.payload.seg_idx' or not fv.has(e, 'isinstance(msg.payload, TransferEnd)', True):
        ob.violate(BAGENT, QR, src(e), 'the end index is not the index of the TransferEnd segment', e)


def channel_key(tree, ob, rel, clsname):
    ''' The key of a channel / conversation dataclass must distinguish every field: astuple(self) or a tuple naming
    each declared field exactly once. '''
    cls = tree.klass(rel, clsname)
    flds = [n.target.id for n in cls.body if isinstance(n, ast.AnnAssign) and isinstance(n.target, ast.Name) and 'ClassVar' not in src(n.annotation)]
    key = next((m for m in cls.body if isinstance(m, ast.FunctionDef) and m.name == 'key'), None)
    ob.require(key is not None and flds, 'key property of ' + clsname)
    rets = [r for r in walk_local(key) if isinstance(r, ast.Return)]
    r = one(rets, 'return in {}.key'.format(clsname), ob)
    if pm('astuple(self)', r.value) is not None:
        ob.site(rel, r, '{}.key = astuple(self) ({} fields)'.format(clsname, len(flds)))
        return
    val = r.value.args[0] if isinstance(r.value, ast.Call) and dotted(r.value.func) == 'tuple' and r.value.args else r.value
    named = [e.attr for e in getattr(val, 'elts', []) if isinstance(e, ast.Attribute) and dotted(e.value) == 'self']
    if sorted(named) != sorted(flds) or not isinstance(val, ast.Tuple):
        missing = sorted(set(flds) - set(named))
        dup = sorted({x for x in named if named.count(x) > 1})
        ob.violate(rel, clsname + '.key', src(r.value)[:100], 'the key does not distinguish channels by every field (missing {}, repeated {}): '
                   'transfers of different peers share one reassembly entry'.format(missing, dup), r)
    else:
        ob.site(rel, r, '{}.key names every field once'.format(clsname))


def c20f(tree, ob):
    from .c13 import c13g
    c13g(tree, ob, BAGENT)
    channel_key(tree, ob, BAGENT, 'EthernetChannel')
    _frame_as_arrived(tree, ob)


def _frame_as_arrived(tree, ob):
    ''' what is decoded is the frame payload as it arrived: the message set carries its own lengths, so nothing needs to be
    trimmed first -- and a trim (zero fill stripped from the end) also takes the zero octets a bundle or segment ends with '''
    fs = FuncView(tree, BAGENT, 'Agent._sock_recvfrom')
    c = one(method_calls(fs.func, '_recv_msg', 'self'), '_recv_msg call in _sock_recvfrom', ob)
    ob.require(len(c.args) >= 2, '_recv_msg(sock, data, conv)')
    val = fs.value_at(c.args[1], c, depth=4, keep=('frame',))
    if src(val) not in ('frame.payload.load', 'bytes(frame.payload)'):
        ob.violate(BAGENT, fs.qual, src(c)[:70] + '  with data = ' + src(val)[:50], 'the message data handed on is not the payload of the received frame as it arrived: octets that belong to a '
                   'bundle or segment (e.g. trailing zero octets) are lost', c)
    else:
        fr = fs.value_at(ast.parse('frame', mode='eval').body, c, depth=3)
        recv = pm('Ether($d)', fr)
        if recv is None or pm('sock.recvfrom($n)', fs.value_at(recv['d'], c, depth=3)) is None and src(fs.value_at(recv['d'], c, depth=3)) != 'data':
            ob.violate(BAGENT, fs.qual, 'frame = ' + src(fr)[:60], 'the frame is not decoded from the octets received', c)
        else:
            ob.site(BAGENT, c, 'the frame payload is decoded as it arrived')
    fr = FuncView(tree, BAGENT, QR)
    dparam = fr.func.args.args[2].arg
    rebinds = [n for n in walk_local(fr.func) if isinstance(n, ast.Name) and n.id == dparam and isinstance(n.ctx, ast.Store)]
    decs = [x for x in calls_in(fr.func) if call_name(x) == 'MessageSet']
    d = one(decs, 'MessageSet(data) in _recv_msg', ob)
    if rebinds or [src(a) for a in d.args] != [dparam]:
        ob.violate(BAGENT, fr.qual, src(d), 'the message set is not decoded from the data as it arrived', d)
    else:
        ob.site(BAGENT, d, 'message set decoded from the data as it arrived')


def c20e(tree, ob):
    fv = FuncView(tree, BAGENT, QR)
    n = 0
    for node in fv.cfg.nodes:
        if node.kind != 'cond':
            continue
        for (text, pol) in norm.all_atoms(node.ast):
            if text == 'xfer.got_end':
                n += 1
                ob.site(BAGENT, node.ast, 'test of the end index')
                ob.violate(BAGENT, QR, 'if xfer.got_end:', 'the end index is tested by truthiness: a transfer whose only (or last) segment is TransferEnd with index 0 is never queued', node.ast)
            elif text == 'xfer.got_end is None':
                n += 1
                ob.site(BAGENT, node.ast, 'end index tested with "is None"')
    ob.require(n >= 1, 'no test of the end index found')


def c20m(tree, ob):
    AG = 'btpu/agent.py'
    fa = FuncView(tree, AG, 'Agent._add_tx_item')
    sets = [n for n in walk_local(fa.func) if isinstance(n, ast.Assign) and any(src(t) == 'item.transfer_id' for t in n.targets)]
    st = one(sets, 'item.transfer_id = ... in _add_tx_item', ob)
    val = fa.value_at(st.value, st, depth=2)
    incs = [n for n in walk_local(fa.func) if isinstance(n, ast.AugAssign) and isinstance(n.op, ast.Add) and src(n.target) == 'self._tx_id' and src(n.value) == '1']
    if src(val) in ('copy.copy(self._tx_id)', 'self._tx_id') and incs and fa.dominates(st, incs[0])[0]:
        ob.site(AG, st, '_add_tx_item numbers the item from the counter and advances it')
    else:
        ob.violate(AG, fa.qual, src(st)[:70], 'the transfer number is not taken from the counter and the counter advanced behind it', st)
    n = 0
    for (r, qual, func) in tree.all_functions([AG]):
        if qual == fa.qual:
            continue
        for c in calls_in(func):
            if (call_name(c) or '').split('.')[-1] == 'BundleItem':
                n += 1
                pre = kwarg(c, 'transfer_id')
                if pre is not None and not (isinstance(pre, ast.Constant) and pre.value is None) and any('tx' in src(x).lower() for x in ast.walk(pre) if isinstance(x, ast.Attribute)):
                    ob.violate(AG, qual, 'BundleItem(transfer_id={})'.format(src(pre)[:40]), 'the send entry pre-sets the transfer number from the TX counter: _add_tx_item then neither assigns nor advances it, every '
                               'transfer goes out under the same number and the receiver merges the segments of overlapping transfers (or drops the later one as a repeat)', c, sure=True)
                else:
                    ob.site(AG, c, qual + ': item built without a transfer number')
        for stx in walk_local(func):
            if isinstance(stx, ast.Assign) and any(isinstance(t, ast.Attribute) and t.attr == 'transfer_id' for t in stx.targets) and 'self._tx_id' in src(stx.value):
                ob.violate(AG, qual, src(stx)[:70], 'a transfer number is taken from the TX counter outside _add_tx_item (the counter is not advanced behind it)', stx, sure=True)
    ob.require(n >= 1, 'BundleItem constructions in btpu/agent.py: {}'.format(n))


def c20n(tree, ob):
    AG = 'btpu/agent.py'
    n = 0
    for node in tree.module(AG).tree.body:
        if not (isinstance(node, ast.ClassDef) and node.name.endswith('Sender')):
            continue
        for m in node.body:
            if not (isinstance(m, ast.FunctionDef) and m.name == '__call__' and len(m.args.args) >= 2):
                continue
            n += 1
            dp = m.args.args[1].arg
            qual = node.name + '.__call__'
            stores = [x for x in walk_local(m) if isinstance(x, ast.Name) and x.id == dp and isinstance(x.ctx, ast.Store)]
            # a plain conversion of the parameter (bytes(data)) is the same octets
            stores = [x for x in stores if not (isinstance(enclosing(x, (ast.Assign,)), ast.Assign) and src(enclosing(x, (ast.Assign,)).value) in ('bytes({})'.format(dp), 'bytearray({})'.format(dp), 'memoryview({})'.format(dp)))]
            if stores:
                st = enclosing(stores[0], (ast.Assign, ast.AugAssign)) or stores[0]
                ob.violate(AG, qual, src(st)[:70], 'the sender changes the octets it was given before they go on the link (padding appended, re-wrapped): the message set that arrives is not the one '
                           'that was built, and where building the addition fails the frame -- the end of a transfer -- is never sent', st, sure=True)
            else:
                ob.site(AG, m, qual + ' sends the octets it is given')
    ob.require(n >= 1, 'sender functors in btpu/agent.py: {}'.format(n))


def c20o(tree, ob):
    AG = 'btpu/agent.py'
    for qual in ('Agent.send_bundle_data', 'Agent.send_bundle_fileobj'):
        fv = FuncView(tree, AG, qual)
        bad = None
        for r in walk_local(fv.func):
            if isinstance(r, ast.Raise):
                fs = fv.facts(r) or ()
                if any('len(' in t or 'total_length' in t or 'tell()' in t for (t, pol) in fs):
                    bad = r
        if bad is not None:
            ob.violate(AG, qual, src(bad)[:70], 'the send entry refuses a bundle because of its size: it does not know the MTU the transfer will be cut by, so a bundle that would be sent in '
                       'segments (any size with an MTU configured) is refused as too large for one message', bad, sure=True)
        else:
            ob.site(AG, fv.func, qual + ' refuses nothing by size')
