''' C09 — TCPCL termination is graceful, complete and always finishes (structural clauses). '''
import ast
from ..core import AnalysisError, walk_local, calls_in, call_name, dotted, src, self_attr, enclosing
from ..lib import (FuncView, pm, method_calls, one, at_least, stores_to_self_attr, const_str, path_text)
from ..callgraph import CallGraph, mutates_self_attr, iterates_directly
from .. import norm
from .c04 import c04c, c04a

SESS = 'tcpcl/session.py'
AGENT = 'tcpcl/agent.py'


def check(chk, thorough=False):
    tree = chk.tree
    chk.run('C09.a', 'R-PAIR', 'every handler that can drain the last in-flight item runs the close check afterwards; the close check closes iff terminating and idle', lambda ob: c09a(tree, ob), floor=5)
    chk.run('C09.b', 'R-FLOW', 'a received SESS_TERM is answered once, marked as reply with the peer reason, unless already terminating', lambda ob: c09b(tree, ob), floor=2)
    chk.run('C09.c', 'R-PAIR', 'on SESS_TERM every not-started bundle leaves the queue and is reported not sent', lambda ob: c09c(tree, ob), floor=1)
    chk.run('C09.d', 'R-NOPATH', 'no transfer is taken from the queue while terminating (= C04.c)', lambda ob: c04c(tree, ob), floor=1)
    chk.run('C09.e', 'R-ESCAPE', 'every SESS_TERM send reachable from an event-loop callback has its preconditions established', lambda ob: c09e(tree, ob), floor=3)
    chk.run('C09.f', 'R-FLOW', 'closing a connection notifies the agent, which announces it and stops when the last one is gone during shutdown', lambda ob: c09f(tree, ob), floor=4)
    chk.run('C09.h', 'R-GUARD', 'a transfer already in progress keeps sending its segments while terminating', lambda ob: c09h(tree, ob), floor=1)
    chk.run('C09.k', 'R-FLOW', 'the idle time that ends a silent terminating session is the configured one, not derived from the negotiated keepalive (= C14.a)', lambda ob: __import__('sa.props.c14', fromlist=['c14a']).c14a(tree, ob), floor=3)
    chk.run('C09.l', 'R-GUARD', 'transfers under way finish while terminating: no handler of XFER_SEGMENT / XFER_ACK / XFER_REFUSE refuses its message because SESS_TERM was sent or received', lambda ob: c09l(tree, ob), floor=4)
    chk.run('C09.m', 'R-ITER', 'closing completes and reports every transfer: no loop of the session code changes the size of the container it iterates (= C14.f)', lambda ob: __import__('sa.props.common', fromlist=['iter_mutation']).iter_mutation(tree, ob, ['tcpcl/session.py', 'tcpcl/agent.py']), floor=1)
    chk.run('C09.n', 'R-WHO', 'every end of the connection runs the whole close: close() is called on self (so that the session and bus layers do their part), an explicit <Class>.close(self) only chains upwards from a close() of a subclass', lambda ob: c09n(tree, ob), floor=3)
    chk.run('C09.o', 'R-NOPATH', 'an endpoint that is terminating and hears nothing more closes when the idle time is up, whatever is still queued or unacknowledged', lambda ob: c09o(tree, ob), floor=1)
    chk.run('C09.p', 'R-ESCAPE', 'a SESS_TERM with any reason code is recorded: the handlers do not look peer values up in an enumeration unguarded (= C17.a, enumeration clause)', lambda ob: __import__('sa.props.c17', fromlist=['peer_enum_lookups']).peer_enum_lookups(tree, ob), floor=1)
    chk.run('C09.i', 'R-GUARD', 'the idle indication that gates the close covers transfers, queues and every octet buffer down to the socket (= C18.d)', lambda ob: _c18d(tree, ob), floor=6)
    chk.run('C09.j', 'R-PAIR', 'timers of a terminating endpoint: own transmissions do not defer the idle close, the SESS_TERM arms it (= C14.d)', lambda ob: _c14d(tree, ob), floor=4)
    chk.run('C09.q', 'R-GUARD', 'termination lets transfers in progress finish: the segment / acknowledgement handlers never refuse because of the termination flags (= C01.q)', lambda ob: __import__('sa.props.common', fromlist=['transfers_outlive_sess_term']).transfers_outlive_sess_term(tree, ob), floor=1)
    chk.run('C09.r', 'R-FLOW', 'every octet of a SESS_TERM (and of what precedes it) reaches the socket: the transmit buffers drop exactly what send() accepted (= C01.b)', lambda ob: __import__('sa.props.c01', fromlist=['c01b']).c01b(tree, ob), floor=7)
    chk.run('C09.g', 'R-ITER', 'agent stop/shutdown loops are not invalidated by the handlers they close and do not skip handlers', lambda ob: c09g(tree, ob), floor=2)


def _c14d(tree, ob):
    from .c14 import c14d
    return c14d(tree, ob)


def _c18d(tree, ob):
    from .c18 import c18d
    return c18d(tree, ob)


DRAIN_CALLS = {
    'ContactHandler.recv_sess_term': None,
    'ContactHandler.recv_xfer_data': ('_rx_teardown',),
    'ContactHandler.recv_xfer_ack': ('remove', 'pop'),
    'ContactHandler.recv_xfer_refuse': ('remove', 'pop'),
}


def c09a(tree, ob):
    # The idle predicate includes "receive buffer empty", which becomes true only when the message loop ends - after the
    # last handler returned.  A close check behind the loop therefore covers every receive-driven release of in-flight
    # state; checks inside the handlers alone do not (they run while following octets are still buffered).
    fr = FuncView(tree, SESS, 'Messenger.recv_raw')
    loops = [n for n in walk_local(fr.func) if isinstance(n, ast.While)]
    loop = one(loops, 'message loop in recv_raw', ob)
    cond = fr.node(loop)
    done = [s for (s, lab) in cond.succ if lab is False]
    lchecks = {fr.node(c) for c in method_calls(fr.func, '_check_sess_term', 'self') if fr.node(c) not in fr.cfg.reachable([fr.node(loop.body[0])], avoid=[cond])}
    loop_ok = bool(done) and bool(lchecks) and all(d in lchecks or fr.cfg.must_pass(d, fr.cfg.exit, lchecks, include_exc=False)[0] for d in done)
    # the hook called there must be the session handler's check (overriding a base no-op is fine)
    if loop_ok:
        ob.site(SESS, loop, 'recv_raw: the close check runs again once the receive buffer has drained')
    else:
        ob.violate(SESS, fr.qual, 'while self.__rx_buf: ...  (no close check behind the loop)', 'the close check runs only inside message handlers, while the octets of a following message are still buffered: '
                   'a SESS_TERM (or final ACK) followed in the same read by any other message leaves the terminating session open for ever', loop)
    for qual, kinds in DRAIN_CALLS.items():
        fv = FuncView(tree, SESS, qual)
        checks = {fv.node(c) for c in method_calls(fv.func, '_check_sess_term', 'self')}
        if kinds is None:
            ok, wit = fv.cfg.must_pass(fv.cfg.entry, fv.cfg.exit, checks, include_exc=False) if checks else (False, None)
            if ok:
                ob.site(SESS, fv.func, qual + ': every normal path runs the close check')
            elif loop_ok:
                ob.site(SESS, fv.func, qual + ': close check left to the one behind the receive loop')
            else:
                ob.violate(SESS, qual, 'return without _check_sess_term', 'a received SESS_TERM can be handled without the close check', fv.func, path_text(wit or []))
            continue
        drains = []
        for call in calls_in(fv.func):
            if isinstance(call.func, ast.Attribute) and call.func.attr in kinds:
                recv = dotted(call.func.value) or ''
                if recv in ('self', 'self._tx_pend_ack', 'self._tx_map', 'self._tx_pend_start'):
                    drains.append(call)
        ob.require(drains, 'no drain site in ' + qual)
        for call in drains:
            ok, wit = fv.cfg.must_pass(fv.node(call), fv.cfg.exit, checks, include_exc=False) if checks else (False, None)
            if ok:
                ob.site(SESS, call, '{}: {} is followed by the close check'.format(qual, src(call)[:50]))
            elif loop_ok:
                ob.site(SESS, call, '{}: {} - close check left to the one behind the receive loop'.format(qual, src(call)[:50]))
            else:
                ob.violate(SESS, qual, src(call), 'in-flight state is released without running the post-termination close check afterwards', call, path_text(wit or []))
    close_check(tree, ob)


def close_check(tree, ob):
    ''' _check_sess_term closes iff terminating and the *full* idle predicate holds. '''
    fv = FuncView(tree, SESS, 'ContactHandler._check_sess_term')
    closes = at_least(method_calls(fv.func, 'close', 'self'), 1, 'close call in _check_sess_term', ob)
    for call in closes:
        facts = fv.facts(call) or frozenset()
        if ('self._in_term', True) in facts and ('self.is_sess_idle()', True) in facts:
            ob.site(SESS, call, 'close iff terminating and the full idle predicate holds')
        else:
            ob.violate(SESS, fv.qual, src(call), 'connection is closed without (terminating and self.is_sess_idle())', call)
    ok, wit = fv.cfg.must_pass(fv.cfg.entry, fv.cfg.exit, {fv.node(c) for c in closes}, include_exc=False)
    # there must be a path that closes when both hold: the close is reachable
    ob.require(any(fv.node(c) in fv.cfg.reachable([fv.cfg.entry]) for c in closes), 'close unreachable')
    # "terminating" for the purpose of closing means SESS_TERM sent AND received: an endpoint that only sent its own and
    # is idle for a moment must not close under a transfer the peer started before it saw the request
    recv_flags = set()
    for (rel, qual, func) in tree.all_functions([SESS]):
        if qual.endswith('.recv_sess_term'):
            for n in walk_local(func):
                if isinstance(n, ast.Assign) and isinstance(n.value, ast.Constant) and n.value.value is True:
                    for t in n.targets:
                        if isinstance(t, ast.Attribute) and dotted(t.value) == 'self':
                            recv_flags.add('self.' + t.attr)
    for call in closes:
        facts = fv.facts(call) or frozenset()
        got = [t for (t, p) in facts if p is True and t in recv_flags]
        if got:
            # the flag is set to True only where the SESS_TERM of the peer is handled
            wrong = []
            for (rel, qual, func) in tree.all_functions([SESS]):
                for n in walk_local(func):
                    if isinstance(n, ast.Assign) and isinstance(n.value, ast.Constant) and n.value.value is True and \
                            any('self.' + getattr(t, 'attr', '') == got[0] and dotted(getattr(t, 'value', None)) == 'self' for t in n.targets) and not qual.endswith('.recv_sess_term'):
                        wrong.append((qual, n))
            if wrong:
                ob.violate(SESS, wrong[0][0], src(wrong[0][1]), 'the "SESS_TERM received" flag is set without a SESS_TERM having been received', wrong[0][1])
            else:
                ob.site(SESS, call, 'close requires {} (set only in recv_sess_term)'.format(got[0]))
        else:
            ob.violate(SESS, fv.qual, src(call) + ' without "SESS_TERM of the peer received"', 'the endpoint closes as soon as its own SESS_TERM is out and it is idle for a moment, without waiting for the SESS_TERM of '
                       'the peer: a transfer the peer started before it saw the request is cut off and never reported', call)
    # the TX conjuncts of the idle predicate become true in the connection layer, outside every handler: the close check
    # must be re-run from there (else a close deferred by unsent octets never happens, and a responder never closes by itself)
    fp = FuncView(tree, SESS, 'Connection._tx_proxy')
    hooks = [c for c in calls_in(fp.func) if isinstance(c.func, ast.Attribute) and dotted(c.func.value) == 'self' and
             any(m and method_calls(m[2], '_check_sess_term', 'self') for m in [tree.find_method(SESS, 'ContactHandler', c.func.attr)])]
    if hooks:
        ob.site(SESS, hooks[0], '_tx_proxy: {}() re-runs the close check when the last octets were written'.format(hooks[0].func.attr))
    else:
        ob.violate(SESS, fp.qual, 'no close check when the TX buffers drain', 'nothing re-evaluates the close condition when the last queued octets have been written: a close that was put off because of '
                   'them never happens', fp.func)


def c09b(tree, ob):
    fv = FuncView(tree, SESS, 'Messenger.recv_message')
    sends = [c for c in method_calls(fv.func, 'send_sess_term', 'self')
             if fv.has(c, 'msgcls == messages.SessionTerm', True)]
    call = one(sends, 'SESS_TERM reply in recv_message', ob)
    if not fv.has(call, 'self._in_term', False):
        ob.violate(SESS, fv.qual, src(call), 'SESS_TERM reply is sent even when this side already sent its own', call)
    elif not (len(call.args) == 2 and isinstance(call.args[1], ast.Constant) and call.args[1].value is True):
        ob.violate(SESS, fv.qual, src(call), 'answer to a received SESS_TERM is not marked as reply', call)
    elif src(call.args[0]) != 'pkt.payload.reason':
        ob.violate(SESS, fv.qual, src(call), 'reply does not carry the peer reason', call)
    else:
        ob.site(SESS, call, 'reply(reason of peer, is_reply=True) under not _in_term')
    hands = [c for c in method_calls(fv.func, 'recv_sess_term', 'self') if fv.has(c, 'msgcls == messages.SessionTerm', True)]
    hand = one(hands, 'recv_sess_term dispatch', ob)
    # every path through the SESS_TERM arm reaches the handler
    arm = [n for n in fv.cfg.nodes if n.kind == 'cond' and src(n.ast) == 'msgcls == messages.SessionTerm']
    armn = one(arm, 'SESS_TERM arm', ob)
    true_succ = [s for (s, lab) in armn.succ if lab is True]
    ok, wit = fv.cfg.must_pass(true_succ[0], fv.cfg.exit, {fv.node(hand)}, include_exc=False) if true_succ[0] is not fv.node(hand) else (True, None)
    if not ok:
        ob.violate(SESS, fv.qual, src(hand), 'a received SESS_TERM can bypass the session handler', hand, path_text(wit))
    else:
        ob.site(SESS, hand, 'SESS_TERM always reaches recv_sess_term')


def c09c(tree, ob):
    _flush_rule(tree, ob, 'ContactHandler.recv_sess_term')
    # nothing joins the queue once terminating: it could not start (C04.c), the flush has already run, and it would keep
    # the idle predicate false for ever
    cls = tree.klass(SESS, 'ContactHandler')
    for item in cls.body:
        if not isinstance(item, ast.FunctionDef):
            continue
        for call in calls_in(item):
            if pm('self._tx_pend_start.append($x)', call) is not None or pm('self._tx_pend_start.insert($i, $x)', call) is not None:
                fa = FuncView(tree, SESS, 'ContactHandler.' + item.name)
                if fa.has(call, 'self._in_term', False):
                    ob.site(SESS, call, item.name + ': enqueue only while not terminating')
                else:
                    ob.violate(SESS, fa.qual, src(call) + ' while terminating', 'a bundle can be queued after SESS_TERM was sent or received: it is never started, never reported as not sent, and keeps '
                               'the session from becoming idle, so neither endpoint ever closes', call)
    # every other way a session ends goes through close(): the same flush, before the object leaves the bus
    fv = FuncView(tree, SESS, 'ContactHandler.close')
    loops = [n for n in walk_local(fv.func) if isinstance(n, (ast.While, ast.For)) and '_tx_pend_start' in src(n.test if isinstance(n, ast.While) else n.iter)]
    if not loops:
        ob.violate(SESS, fv.qual, 'close() without a flush of self._tx_pend_start', 'bundles still queued when the connection closes other than by a received SESS_TERM (peer disconnect, idle close, '
                   'close(), agent stop) are silently lost: no finished signal is ever emitted for them', fv.func)
        return
    _flush_rule(tree, ob, 'ContactHandler.close')
    gone = [fv.node(c) for c in method_calls(fv.func, 'remove_from_connection', 'self')]
    late = [f for f in method_calls(fv.func, 'send_bundle_finished', 'self') if gone and fv.node(f) in fv.cfg.reachable(gone)]
    if late:
        ob.violate(SESS, fv.qual, src(late[0])[:60], 'the not-sent signal is emitted after the object was removed from the bus (nobody can receive it)', late[0])


def _flush_rule(tree, ob, qual):
    fv = FuncView(tree, SESS, qual)
    loops = [n for n in walk_local(fv.func) if isinstance(n, (ast.While, ast.For))]
    if len(loops) > 1:
        # several loops (close() also reports the transfers in progress): the flush is the one over the not-started queue
        loops = [n for n in loops if '_tx_pend_start' in src(n.test if isinstance(n, ast.While) else n.iter)]
    loop = one(loops, 'flush loop in ' + qual, ob)
    if isinstance(loop, ast.While):
        if src(loop.test) not in ('self._tx_pend_start', 'len(self._tx_pend_start) > 0', 'len(self._tx_pend_start)'):
            raise AnalysisError('C09.c: unrecognised flush loop condition ' + src(loop.test))
        pops = [c for c in calls_in(loop) if pm('self._tx_pend_start.pop(0)', c) is not None or pm('self._tx_pend_start.popleft()', c) is not None]
        if not pops:
            ob.violate(SESS, fv.qual, 'while self._tx_pend_start', 'flush loop does not consume the queue head', loop)
            return
        # the pop happens on every iteration
        bnodes = [fv.node(s) for s in loop.body]
        cond = fv.node(loop.test)
        ok, wit = fv.cfg.must_pass(bnodes[0], cond, {fv.node(p) for p in pops}, include_exc=False) if fv.node(pops[0]) is not bnodes[0] else (True, None)
        if not ok:
            ob.violate(SESS, fv.qual, 'while self._tx_pend_start', 'an iteration of the flush loop can leave the queue unchanged', loop, path_text(wit))
        itemdef = pops[0]._parent
    else:
        it = iterates_directly(loop)
        if it is not None and src(it) == 'self._tx_pend_start':
            muts = mutates_self_attr(ast.Module(body=loop.body, type_ignores=[]), '_tx_pend_start') if False else \
                [c for c in calls_in(loop) if isinstance(c.func, ast.Attribute) and self_attr(c.func.value) == '_tx_pend_start' and c.func.attr in ('remove', 'pop', 'clear', 'insert', 'append')]
            if muts:
                ob.violate(SESS, fv.qual, 'for ... in self._tx_pend_start: {}'.format(src(muts[0])), 'the queue is mutated while being iterated: every second queued bundle is skipped', loop)
                return
        # for item in list(queue): ... must empty the queue afterwards
        clears = [c for c in calls_in(fv.func) if pm('self._tx_pend_start.clear()', c) is not None] + \
                 [c for c in calls_in(loop) if pm('self._tx_pend_start.remove($x)', c) is not None]
        # the queue swapped for a fresh empty list (possibly in a tuple assignment) is emptied too
        for n in walk_local(fv.func):
            if isinstance(n, ast.Assign):
                for tgt in n.targets:
                    pairs = list(zip(tgt.elts, n.value.elts)) if isinstance(tgt, ast.Tuple) and isinstance(n.value, ast.Tuple) and len(tgt.elts) == len(n.value.elts) else [(tgt, n.value)]
                    for (t, v) in pairs:
                        if src(t) == 'self._tx_pend_start' and (pm('[]', v) is not None or pm('list()', v) is not None):
                            clears.append(n)
        # what is iterated must then be the old queue content
        if clears and isinstance(loop.iter, ast.Name):
            itv = fv.reaching_defs(loop.iter.id, loop)
            if not any(isinstance(v, norm._Unpack) or (v is not None and 'self._tx_pend_start' in src(v)) for (_s, v) in itv):
                clears = []
        if not clears:
            ob.violate(SESS, fv.qual, src(loop.iter), 'flushed bundles stay in the pending queue', loop)
            return
    fins = method_calls(loop, 'send_bundle_finished', 'self')
    if not fins:
        ob.violate(SESS, fv.qual, 'flush loop', 'not-started bundles are dropped without a finished signal', loop)
        return
    for fin in fins:
        res = const_str(fin.args[2]) if len(fin.args) > 2 else None
        if res is None or res == 'success':
            ob.violate(SESS, fv.qual, src(fin), 'a bundle that was never sent is not reported as not sent', fin)
        else:
            ob.site(SESS, fin, "each flushed bundle reported '{}'".format(res))


def c09e(tree, ob, user_entry=True):
    ''' Preconditions of send_sess_term (in session, not already terminating) at its call sites.
    user_entry: also judge the user-facing terminate() request (C09 only; C14/C17 are about timers and peer messages). '''
    cg = CallGraph(tree, [SESS])
    sites = []
    for (rel, qual, func) in tree.all_functions([SESS]):
        for call in method_calls(func, 'send_sess_term', 'self'):
            sites.append((qual, func, call))
    ob.require(len(sites) >= 4, 'expected the idle-timeout, reply, TerminateError-arm and terminate() call sites')
    # where is the idle timer armed with a non-zero time?
    for (qual, func, call) in sites:
        fv = FuncView(tree, SESS, qual)
        facts = fv.facts(call) or frozenset()
        in_try = _covered_by_handler(call, ('RuntimeError', 'Exception'))
        if qual == 'ContactHandler.terminate':
            # the user's (and Agent.shutdown's) request can come at any moment: before the session exists and while
            # termination is already under way.  An exception here aborts the shutdown loop over all connections.
            miss = [t for (t, p) in (('self._in_term', False), ('self._in_sess', True)) if (t, p) not in facts and not in_try]
            if not user_entry:
                ob.site(SESS, call, 'terminate(): user request (judged under C09.e)')
            elif miss:
                ob.violate(SESS, qual, 'terminate(): send_sess_term with {} unestablished'.format(' / '.join(miss)),
                           'a termination request before the session is established, or while already terminating, raises RuntimeError instead of closing / doing nothing; '
                           'Agent.shutdown() aborts at the first such connection and the remaining sessions are never terminated', call)
            else:
                ob.site(SESS, call, 'terminate(): preconditions established (no session -> close, already terminating -> nothing)')
            continue
        need_term = ('self._in_term', False) in facts or in_try
        need_sess = ('self._in_sess', True) in facts or in_try or _in_sess_structural(tree, fv, call)
        where = 'idle timeout' if qual.endswith('_idle_timeout') else ('SESS_TERM arm' if ('msgcls == messages.SessionTerm', True) in facts else
                                                                         'TerminateError arm' if _in_handler(call, 'TerminateError') else qual)
        if need_term and need_sess:
            ob.site(SESS, call, where + ': preconditions established')
            continue
        if not need_term and where == 'TerminateError arm':
            # Only reachable through a second SESS_INIT on a TLS session whose first one already failed
            # authentication; not demonstrated against the real code (no TLS in the sandbox), so not armed.
            ob.undetermined.append('TerminateError arm: _in_term unestablished at send_sess_term (undemonstrated, unarmed)')
            ob.site(SESS, call, where + ': _in_sess established structurally; _in_term recorded as undetermined')
            continue
        if not need_term:
            ob.violate(SESS, qual, '{}: send_sess_term with _in_term unestablished'.format(where),
                       'an endpoint that is already terminating raises RuntimeError("Already in terminating state") here instead of closing', call)
        if not need_sess:
            ob.violate(SESS, qual, '{}: send_sess_term with _in_sess unestablished'.format(where),
                       'before the session is established this raises RuntimeError out of the event-loop callback instead of rejecting', call)


def _in_handler(node, excname):
    for anc in _ancestors(node):
        if isinstance(anc, ast.ExceptHandler):
            return any(nm and nm.endswith(excname) for nm in handler_names_of(anc))
    return False


def handler_names_of(handler):
    from ..cfg import handler_names
    return handler_names(handler)


def _ancestors(node):
    cur = getattr(node, '_parent', None)
    while cur is not None:
        yield cur
        cur = getattr(cur, '_parent', None)


def _covered_by_handler(node, names):
    prev = node
    for anc in _ancestors(node):
        if isinstance(anc, ast.Try) and prev in anc.body:
            for handler in anc.handlers:
                for nm in handler_names_of(handler):
                    if nm is None or nm.split('.')[-1] in names:
                        return True
        if isinstance(anc, (ast.FunctionDef, ast.AsyncFunctionDef)):
            break
        prev = anc
    return False


def _in_sess_structural(tree, fv, call):
    ''' Structural justification that _in_sess holds:
    (1) idle timeout: the idle time is written non-constant only in
        merge_session_params, whose callers set _in_sess = True first;
    (2) TerminateError arm: TerminateError is raised only in functions whose
        call inside this try is dominated by _in_sess = True. '''
    msgr = tree.klass(SESS, 'Messenger')
    if fv.qual.endswith('_idle_timeout'):
        writers = [(f, st, val) for (f, st, _k, val) in stores_to_self_attr(msgr, '_idle_time')
                   if not (isinstance(val, ast.Constant) and not val.value)]
        if not writers or any(f.name != 'merge_session_params' for (f, _s, _v) in writers):
            return False
        return _callers_set_in_sess(tree, 'merge_session_params')
    if _in_handler(call, 'TerminateError'):
        raisers = set()
        for (rel, qual, func) in tree.all_functions([SESS]):
            for node in walk_local(func):
                if isinstance(node, ast.Raise) and node.exc is not None and 'TerminateError' in src(node.exc):
                    raisers.add(func.name)
        if not raisers:
            return False
        return all(_callers_set_in_sess(tree, name) for name in raisers)
    return False


def _callers_set_in_sess(tree, meth):
    ok = True
    found = False
    for (rel, qual, func) in tree.all_functions([SESS]):
        for call in method_calls(func, meth, 'self'):
            found = True
            fv = FuncView(tree, SESS, qual)
            if not fv.has(call, 'self._in_sess', True):
                ok = False
    return ok and found


def c09f(tree, ob):
    fv = FuncView(tree, SESS, 'Connection.close')
    cbs = [c for c in calls_in(fv.func) if pm('self._on_close()', c) is not None]
    cb = one(cbs, 'close callback invocation', ob)
    # reached on every path that actually closes a socket
    if not fv.has(cb, 'self._on_close', True):
        ob.violate(SESS, fv.qual, src(cb), 'close callback invoked without being set-checked', cb)
    clears = [fv.node(st) for (f, st, _k, val) in stores_to_self_attr(tree.klass(SESS, 'Connection'), '__s_notls')
              if f is fv.func and isinstance(val, ast.Constant) and val.value is None]
    ob.require(clears, 'socket not cleared in close')
    ok, wit = fv.cfg.must_pass(clears[0], fv.cfg.exit, {fv.node(cb), *[n for n in fv.cfg.nodes if n.kind == 'cond' and src(n.ast) == 'self._on_close']}, include_exc=False)
    if not ok:
        ob.violate(SESS, fv.qual, src(cb), 'a closed connection can skip the close notification', cb, path_text(wit))
    else:
        ob.site(SESS, cb, 'Connection.close notifies through _on_close')
    for qual in ('Messenger.close', 'ContactHandler.close'):
        fx = FuncView(tree, SESS, qual)
        ups = [c for c in calls_in(fx.func) if isinstance(c.func, ast.Attribute) and c.func.attr == 'close' and (
            (dotted(c.func.value) in ('Messenger', 'Connection') and c.args and src(c.args[0]) == 'self') or
            (isinstance(c.func.value, ast.Call) and dotted(c.func.value.func) == 'super'))]
        if not ups:
            ob.violate(SESS, qual, 'close', 'override does not chain to the base close', fx.func)
        else:
            ok, wit = fx.cfg.must_pass(fx.cfg.entry, fx.cfg.exit, {fx.node(u) for u in ups}, include_exc=False)
            if ok:
                ob.site(SESS, ups[0], qual + ' always chains to the base close')
            else:
                ob.violate(SESS, qual, src(ups[0]), 'a path through close() skips the base close', ups[0], path_text(wit))
    fb = FuncView(tree, AGENT, 'Agent._bind_handler')
    sets = method_calls(fb.func, 'set_on_close')
    st = one(sets, 'set_on_close in _bind_handler', ob)
    arg = st.args[0]
    body = src(arg.body) if isinstance(arg, ast.Lambda) else src(arg)
    if '_unbind_handler' not in body:
        ob.violate(AGENT, fb.qual, src(st), 'close callback is not bound to the agent unbind handler', st)
    else:
        ob.site(AGENT, st, 'handler close -> Agent._unbind_handler')
    fu = FuncView(tree, AGENT, 'Agent._unbind_handler')
    sigs = method_calls(fu.func, 'connection_closed', 'self')
    if not sigs or not fu.cfg.must_pass(fu.cfg.entry, fu.cfg.exit, {fu.node(s) for s in sigs}, include_exc=False)[0]:
        ob.violate(AGENT, fu.qual, 'connection_closed', 'a closed connection is not always announced', fu.func)
    else:
        ob.site(AGENT, sigs[0], 'connection_closed emitted on every unbind')
    stops = method_calls(fu.func, 'stop', 'self')
    stop = one(stops, 'stop() in _unbind_handler', ob)
    facts = fu.facts(stop) or frozenset()
    if ('self._handlers', False) not in facts:
        ob.violate(AGENT, fu.qual, src(stop), 'agent can stop while handlers remain', stop)
    conds = [n for n in fu.cfg.nodes if n.kind == 'cond' and '_in_shutdown' in src(n.ast)]
    if not conds:
        ob.violate(AGENT, fu.qual, src(stop), 'stop after the last close does not depend on the shutdown request', stop)
    else:
        ob.site(AGENT, stop, 'stop when last handler gone and shutdown requested')
    rem = [c for c in calls_in(fu.func) if pm('self._handlers.remove(hdl)', c) is not None]
    one(rem, 'handler removal', ob)
    if fu.node(rem[0]) in fu.cfg.reachable([fu.node(stop)]):
        ob.violate(AGENT, fu.qual, src(rem[0]), 'handler is removed only after the emptiness test', rem[0])


def c09g(tree, ob):
    cg = CallGraph(tree, [SESS, AGENT])
    for qual in ('Agent.stop', 'Agent.shutdown'):
        fv = FuncView(tree, AGENT, qual)
        loops = [n for n in walk_local(fv.func) if isinstance(n, ast.For) and '_handlers' in src(n.iter)]
        ob.require(loops, 'no handler loop in ' + qual)
        for loop in loops:
            it = iterates_directly(loop)
            # what can the body reach?
            reach = {}
            for call in calls_in(loop):
                for tgt in cg.resolve(fv.func, call):
                    for key, chain in cg.reachable_from(tgt).items():
                        reach.setdefault(key, chain)
            mutators = []
            for key, chain in reach.items():
                fn = chain[-1]
                if mutates_self_attr(fn, '_handlers'):
                    mutators.append(chain)
            if it is not None and self_attr(it) == '_handlers' and mutators:
                chain = mutators[0]
                ob.violate(AGENT, qual, 'for hdl in self._handlers: {}'.format(src(loop.body[-1])[:40]),
                           'the handler list is mutated while being iterated ({} removes from it), so every second connection is skipped'.format(cg.chain_text(chain)),
                           loop, [cg.chain_text(c) for c in mutators[:3]])
            else:
                ob.site(AGENT, loop, qual + ': handler loop is safe against removal during iteration')
            if qual == 'Agent.shutdown' and isinstance(loop.target, ast.Name):
                # graceful means graceful for every contact: ContactHandler.terminate() itself decides what a contact without a
                # session needs (it closes it).  A shutdown that sorts contacts by their state and closes some of them cuts off
                # the ones that are already ending with a transfer still in progress.
                t = loop.target.id
                terms = [c for c in calls_in(loop) if isinstance(c.func, ast.Attribute) and c.func.attr == 'terminate' and src(c.func.value) == t]
                closes = [c for c in calls_in(loop) if isinstance(c.func, ast.Attribute) and c.func.attr in ('close', 'stop') and src(c.func.value) == t]
                direct = [c for c in terms if getattr(getattr(c, '_parent', None), '_parent', None) is loop]
                if closes:
                    ob.violate(AGENT, qual, src(closes[0]), 'shutdown closes some contacts itself instead of terminating them: a session that is already ending with a transfer in progress is cut off', closes[0], sure=True)
                elif not direct:
                    ob.violate(AGENT, qual, 'for {} in ...: {}.terminate() not unconditional'.format(t, t), 'shutdown does not terminate every contact (the call is missing or conditional)', loop)
                else:
                    ob.site(AGENT, direct[0], 'shutdown terminates every contact, whatever its state')


def c09h(tree, ob):
    fv = FuncView(tree, SESS, 'ContactHandler._process_queue')
    cls = tree.klass(SESS, 'ContactHandler')
    takes = [fv.node(st) for (f, st, _k, val) in stores_to_self_attr(cls, '_tx_tmp')
             if f is fv.func and not (isinstance(val, ast.Constant) and val.value is None)]
    send = one(method_calls(fv.func, 'send_xfer_data', 'self'), 'send_xfer_data call', ob)
    facts = fv.facts(send, avoid=takes)
    if facts is None:
        ob.violate(SESS, fv.qual, src(send)[:60], 'the next segment of an active transfer can only be sent right after a dequeue', send)
        return
    blocked = [f for f in facts if f[0] == 'self._in_term' and f[1] is False]
    if blocked:
        ob.violate(SESS, fv.qual, 'send_xfer_data under not self._in_term',
                   'once SESS_TERM was sent or answered the remaining segments of the transfer in progress are never sent, so it never completes and the session stays half-open', send)
    else:
        ob.site(SESS, send, 'continuing an active transfer does not depend on _in_term')
    # the pump that pulls the next segment must keep running while terminating
    for item in cls.body:
        if not isinstance(item, ast.FunctionDef) or item.name == '_process_queue_trigger':
            continue
        for call in method_calls(item, '_process_queue_trigger', 'self'):
            fx = FuncView(tree, SESS, 'ContactHandler.' + item.name)
            # a trigger that only announces a freshly queued bundle serves the start of new transfers, which must not
            # happen while terminating anyway: it may sit behind the refusal of the enqueue
            appends = [fx.node(c) for c in calls_in(item) if pm('self._tx_pend_start.append($x)', c) is not None]
            if appends and fx.cfg.must_pass(fx.cfg.entry, fx.node(call), set(appends))[0]:
                ob.site(SESS, call, item.name + ': trigger after an enqueue (new transfers only)')
                continue
            if fx.has(call, 'self._in_term', False):
                ob.violate(SESS, fx.qual, '{} under not self._in_term'.format(src(call)), 'the queue pump is not re-armed while terminating: the next segment of a transfer in progress is never '
                           'pulled, so the transfer stalls and the session stays half-open', call)
            else:
                ob.site(SESS, call, item.name + ' re-arms the pump regardless of termination')



def c09l(tree, ob):
    from ..core import ancestors
    n = 0
    for cname in ('Messenger', 'ContactHandler'):
        for mname in ('recv_xfer_data', 'recv_xfer_ack', 'recv_xfer_refuse'):
            got = [m for m in tree.klass(SESS, cname).body if isinstance(m, ast.FunctionDef) and m.name == mname]
            if not got:
                continue
            func = got[0]
            for r in [x for x in walk_local(func) if isinstance(x, ast.Raise)]:
                n += 1
                tests = [a.test for a in ancestors(r) if isinstance(a, (ast.If, ast.While)) and a is not func]
                bad = [t for t in tests if '_in_term' in src(t) or '_term_recv' in src(t)]
                if bad:
                    ob.violate(SESS, '{}.{}'.format(cname, mname), 'if {}: raise'.format(src(bad[0])[:70]), 'a transfer message is refused because the session is terminating: the segments (or acknowledgements) of a '
                               'transfer that was under way when SESS_TERM crossed are rejected, the bundle is never completed and both ends wait', r)
                else:
                    ob.site(SESS, r, '{}.{}: refusal does not depend on termination'.format(cname, mname))
    ob.require(n >= 4, 'refusals in the transfer handlers: {}'.format(n))



def c09n(tree, ob):
    ''' Connection.close() only releases the sockets.  Reporting cut-off transfers, stopping timers and leaving the bus are
    done by the overrides in Messenger and ContactHandler, which chain upwards explicitly.  Any other explicit
    Connection.close(self) / Messenger.close(self) bypasses them: e.g. on peer EOF the held bundles are never reported and the
    object stays on the bus. '''
    order = ['Connection', 'Messenger', 'ContactHandler']
    n = 0
    for cname in order:
        cls = tree.klass(SESS, cname)
        for m in [x for x in cls.body if isinstance(x, ast.FunctionDef)]:
            for c in calls_in(m):
                if not (isinstance(c.func, ast.Attribute) and c.func.attr == 'close'):
                    continue
                recv = src(c.func.value)
                if recv in order and c.args and src(c.args[0]) == 'self':
                    n += 1
                    if m.name == 'close' and order.index(recv) < order.index(cname):
                        ob.site(SESS, c, '{}.close chains up to {}.close'.format(cname, recv))
                    else:
                        ob.violate(SESS, '{}.{}'.format(cname, m.name), src(c), 'the connection is closed through {}.close directly: the close() of the session and bus layers is skipped, so transfers '
                                   'that were cut off are not reported, timers stay armed and the contact object stays registered'.format(recv), c, sure=True)
                elif recv == 'self':
                    n += 1
                    ob.site(SESS, c, '{}.{}: self.close()'.format(cname, m.name))
    ob.require(n >= 3, 'close() call sites: {}'.format(n))


def c09o(tree, ob):
    fv = FuncView(tree, SESS, 'Messenger._idle_timeout')
    conds = [n for n in fv.cfg.nodes if n.kind == 'cond' and src(n.ast) == 'self._in_term']
    c = one(conds, 'if self._in_term in _idle_timeout', ob)
    tsucc = [s_ for (s_, lab) in c.succ if lab is True][0]
    closes = method_calls(fv.func, 'close', 'self')
    ok = closes and (fv.cfg.must_pass(tsucc, fv.cfg.exit, {fv.node(x) for x in closes}, include_exc=False)[0] or tsucc in {fv.node(x) for x in closes})
    if ok:
        ob.site(SESS, closes[0], 'idle time up while terminating => close, unconditionally')
    else:
        ob.violate(SESS, fv.qual, 'if self._in_term: ... self.close()', 'a terminating endpoint whose idle time is up can decide not to close (e.g. because something is still queued or unacknowledged): '
                   'with a silent peer it never closes and never reports what was not sent', c.ast)
