''' C17 — TCPCL answers out-of-place peer messages without corrupting state (structural clauses). '''
import ast
from ..core import AnalysisError, walk_local, calls_in, call_name, dotted, src, self_attr, enclosing, is_logging_call
from ..lib import (FuncView, pm, method_calls, one, at_least, stores_to_self_attr, const_str, path_text)
from ..callgraph import CallGraph
from ..cfg import exc_is_a, handler_names, raised_name
from .. import norm, schema
from .c01 import c01d
from .c09 import c09e

SESS = 'tcpcl/session.py'
MSGS = 'tcpcl/messages.py'
CONTACT = 'tcpcl/contact.py'
EXTEND = 'tcpcl/extend.py'

FUNNEL = {'RejectError', 'TerminateError'}


def check(chk, thorough=False):
    tree = chk.tree
    chk.run('C17.a', 'R-ESCAPE', 'no exception escapes an event-loop callback on peer-chosen input (explicit raises, unguarded lookups by peer ids, re-raised decode errors)', lambda ob: c17a(tree, ob), floor=6)
    chk.run('C17.a2', 'R-ESCAPE', 'SESS_TERM sends reachable from callbacks have their preconditions established (= C09.e)', lambda ob: c09e(tree, ob, user_entry=False), floor=3)
    chk.run('C17.b', 'R-SCHEMA', 'every bound message type has a dispatch arm, unknown types are rejected, base handlers reject outside a session and overrides call them first', lambda ob: c17b(tree, ob), floor=12)
    chk.run('C17.c', 'R-SCHEMA', 'every keyword used to build a message and every field read from a dispatched message is a field of that message class', lambda ob: c17c(tree, ob), floor=15)
    chk.run('C17.d', 'R-ORDER', 'no delivery from mismatched transfers (= C01.d) and each START begins with fresh receive state', lambda ob: (c01d(tree, ob), c17d(tree, ob)), floor=9)
    chk.run('C17.g', 'R-FLOW', 'a stale peer message cannot hit a later transfer: transfer IDs come from a counter that only grows and are never reused (= C04.g)', lambda ob: __import__('sa.props.c04', fromlist=['c04g']).c04g(tree, ob), floor=2)
    chk.run('C17.f', 'R-GUARD', 'a message of unknown type is not classified as partial: it reaches the dispatcher, whose default arm rejects it', lambda ob: c17f(tree, ob), floor=2)
    chk.run('C17.e2', 'R-PAIR', 'transfers that are finished or abandoned leave the TX map (with the right key), so later peer messages about them are rejected as unknown (= C18.c)', lambda ob: _c18c(tree, ob), floor=8)
    chk.run('C17.h', 'R-GUARD', 'a transfer awaits its acknowledgement only once its END segment is out: a premature final XFER_ACK finds nothing to finish (= C18.d)', lambda ob: __import__('sa.props.c18', fromlist=['c18d']).c18d(tree, ob), floor=7)
    chk.run('C17.i', 'R-FLOW', 'what this side sends is its messages one after the other: the transmit buffer is only appended to (a reply is never put in front of octets already queued) (= C01.b)', lambda ob: __import__('sa.props.c01', fromlist=['c01b']).c01b(tree, ob), floor=7)
    chk.run('C17.j', 'R-FRESH', 'a peer message about a transfer ID touches this session only: the transfer maps and queues are created per contact object, never shared through the class (= C01.g)', lambda ob: __import__('sa.props.c01', fromlist=['c01g']).c01g(tree, ob), floor=6)
    chk.run('C17.k', 'R-SCHEMA', 'a header of an unsupported version is refused, not tripped over: every length-prefixed field of every header / message class is measured as octets (= C07.c)', lambda ob: __import__('sa.props.c07', fromlist=['c07c']).c07c(tree, ob), floor=6)
    chk.run('C17.e', 'R-FLOW', 'peer-driven handlers change TX state only for the transfer they looked up by the peer id', lambda ob: c17e(tree, ob), floor=3)


def _c18c(tree, ob):
    from .c18 import c18c
    return c18c(tree, ob)


# ---------------------------------------------------------------- C17.a
def _roots(tree):
    ''' Functions registered with the event loop in session.py. '''
    roots = {}
    for (rel, qual, func) in tree.all_functions([SESS]):
        for call in calls_in(func):
            name = call_name(call) or ''
            if name in ('glib.io_add_watch', 'glib.idle_add', 'glib.timeout_add'):
                idx = 2 if name.endswith('io_add_watch') else (0 if name.endswith('idle_add') else 1)
                if len(call.args) > idx and isinstance(call.args[idx], ast.Attribute) and dotted(call.args[idx].value) == 'self':
                    roots.setdefault(call.args[idx].attr, call)
    return roots


def _caught(node, excname, upto):
    ''' Is an exception of class excname raised at `node` caught inside function `upto`? '''
    prev = node
    cur = getattr(node, '_parent', None)
    while cur is not None and cur is not upto:
        if isinstance(cur, ast.Try) and prev in cur.body:
            for handler in cur.handlers:
                for nm in handler_names(handler):
                    if exc_is_a(excname, nm):
                        # a handler that re-raises does not stop it
                        if any(isinstance(s, ast.Raise) and s.exc is None for s in walk_local(handler)):
                            continue
                        return True
        prev = cur
        cur = getattr(cur, '_parent', None)
    return False


class Escapes:
    ''' may-escape sets over tcpcl/session.py. '''

    def __init__(self, tree):
        self.tree = tree
        self.cg = CallGraph(tree, [SESS])
        self.memo = {}
        self.active = set()

    def of(self, func):
        key = id(func)
        if key in self.memo:
            return self.memo[key]
        if key in self.active:
            return {}
        self.active.add(key)
        out = {}   # excname -> (description, node, chain)
        qual = self.cg.qual(func)[1]
        cls = enclosing(func, (ast.ClassDef,))
        fv = FuncView(self.tree, SESS, qual) if isinstance(func, ast.FunctionDef) and self.tree.has_func(SESS, qual) else None
        prefix = _precondition_prefix(func)
        for node in walk_local(func):
            if isinstance(node, ast.Raise):
                if node in prefix:
                    continue
                name = raised_name(node)
                if name is None:
                    # bare re-raise inside a handler: whatever the handler caught
                    handler = enclosing(node, (ast.ExceptHandler,))
                    hn = handler_names(handler)[0] if handler is not None else 'Exception'
                    name = hn or 'Exception'
                    desc = 're-raise of {} caught around {}'.format(name, _try_subject(handler))
                else:
                    desc = 'raise ' + src(node.exc)[:70]
                if not _caught(node, name, func):
                    out.setdefault(name.split('.')[-1] + ':' + qual + ':' + desc, (desc, node, [qual]))
            elif isinstance(node, (ast.Subscript, ast.Call)) and fv is not None:
                imp = _implicit_raise(fv, node)
                if imp and not _caught(node, imp[0], func):
                    out.setdefault(imp[0] + ':' + qual + ':' + imp[2], (imp[1], node, [qual]))
        # callees
        for (call, tgt) in self.cg.callees(func):
            sub = self.of(tgt)
            for name, (desc, node, chain) in sub.items():
                base = name.split(':')[0]
                if not _caught(call, base, func):
                    out.setdefault(name, (desc, node, [qual] + chain))
            # precondition raises of the callee, judged at this call site
            if fv is not None:
                for (rnode, cond, excname) in _preconditions(tgt):
                    if excname in FUNNEL:
                        # a funnel exception used as a guard: escapes like any other raise unless caught
                        if not _caught(call, excname, func):
                            out.setdefault(excname, ('raise {} unless {}'.format(excname, cond), rnode, [qual, self.cg.qual(tgt)[1]]))
                        continue
                    facts = fv.facts(call) or frozenset()
                    need = norm.cond_facts(cond, False)
                    if not all(t.startswith('self.') and ' ' not in t for (t, _p) in need):
                        continue  # argument validation, not a state precondition
                    if all(f in facts for f in need) or _caught(call, excname, func):
                        continue
                    if tgt.name == 'send_sess_term':
                        continue  # judged by C17.a2 / C09.e with its structural justifications
                    if _justified(self.tree, qual, tgt.name, need):
                        continue
                    out.setdefault(excname + ':pre:' + qual + ':' + tgt.name + ':' + src(cond), ('{} requires {} (not established at {})'.format(
                        tgt.name, ' and '.join(('' if p else 'not ') + t for (t, p) in need), qual), call, [qual, self.cg.qual(tgt)[1]]))
        self.active.discard(key)
        self.memo[key] = out
        return out


JUSTIFIED = {
    # (caller, callee, fact) : structural reason, re-verified below
    ('ContactHandler._process_queue', 'send_xfer_data', ('self._in_sess', True)):
        'an active transfer exists only after a dequeue that tested _in_sess; _in_sess is reset only in __init__/start()',
}


def _justified(tree, caller, callee, need):
    for fact in need:
        if (caller, callee, fact) not in JUSTIFIED:
            return False
    # re-verify: _in_sess is set False only in __init__ / start, and the dequeue is under _in_sess
    msgr = tree.klass(SESS, 'Messenger')
    for (f, st, _k, val) in stores_to_self_attr(msgr, '_in_sess'):
        if isinstance(val, ast.Constant) and val.value is False and f.name not in ('__init__', 'start'):
            return False
    fv = FuncView(tree, SESS, 'ContactHandler._process_queue')
    takes = [st for (f, st, _k, val) in stores_to_self_attr(tree.klass(SESS, 'ContactHandler'), '_tx_tmp')
             if f is fv.func and not (isinstance(val, ast.Constant) and val.value is None)]
    return bool(takes) and all(fv.has(st, 'self._in_sess', True) for st in takes)


def _try_subject(handler):
    try_node = getattr(handler, '_parent', None)
    if isinstance(try_node, ast.Try) and try_node.body:
        return src(try_node.body[0])[:60]
    return '?'


def _precondition_prefix(func):
    ''' Raise statements belonging to the leading ``if COND: raise`` guards. '''
    res = set()
    if not isinstance(func, ast.FunctionDef):
        return res
    for st in func.body:
        if isinstance(st, ast.Expr) and isinstance(st.value, ast.Constant):
            continue
        if isinstance(st, ast.Expr) and isinstance(st.value, ast.Call) and is_logging_call(st.value):
            continue
        if isinstance(st, ast.If) and not st.orelse and len(st.body) == 1 and isinstance(st.body[0], ast.Raise):
            res.add(st.body[0])
            continue
        break
    return res


def _preconditions(func):
    res = []
    for r in _precondition_prefix(func):
        name = (raised_name(r) or 'Exception').split('.')[-1]
        res.append((r, r._parent.test, name))
    return res


def _param_derived(fv, expr):
    ''' Is the expression a parameter of the handler (peer-supplied)? '''
    return isinstance(expr, ast.Name) and norm.is_param(fv.func, expr.id) and fv.reaching_defs(expr.id, expr) == [(None, None)]


def _implicit_raise(fv, node):
    ''' KeyError / ValueError idioms on self containers keyed by a handler parameter. '''
    if isinstance(node, ast.Subscript) and isinstance(node.ctx, ast.Load):
        attr = self_attr(node.value)
        if attr and _param_derived(fv, node.slice):
            key = node.slice.id
            if not fv.has(node, '{} in self.{}'.format(key, attr), True):
                return ('KeyError', 'self.{}[{}] with a peer-supplied key and no membership guard'.format(attr, key), 'self.{}[{}]'.format(attr, key))
    if isinstance(node, ast.Call) and isinstance(node.func, ast.Attribute):
        attr = self_attr(node.func.value)
        if attr and node.func.attr == 'pop' and len(node.args) == 1 and _param_derived(fv, node.args[0]):
            key = node.args[0].id
            if not fv.has(node, '{} in self.{}'.format(key, attr), True):
                return ('KeyError', 'self.{}.pop({}) with a peer-supplied key, no default and no membership guard'.format(attr, key), 'self.{}.pop({})'.format(attr, key))
        if attr and node.func.attr == 'remove' and len(node.args) == 1 and isinstance(node.args[0], ast.Name):
            item = node.args[0].id
            if not fv.has(node, '{} in self.{}'.format(item, attr), True):
                rd = fv.reaching_defs(item, node)
                peer = any(val is not None and isinstance(val, ast.expr) and any(_param_derived(fv, sub) for sub in ast.walk(val) if isinstance(sub, ast.Name))
                           for (_st, val) in rd)
                if peer:
                    return ('KeyError', 'self.{}.remove({}) for an item looked up by a peer-supplied id, without a membership guard'.format(attr, item), 'self.{}.remove({})'.format(attr, item))
    return None


def _peer_text(tree, ob):
    ''' The node ID of the peer arrives as octets; turning it into text (str() of the field goes through i2h = decode)
    fails for octets that are not UTF-8.  On the receive path that must be a negotiation failure, not an exception. '''
    from ..cfg import handler_names
    fm = FuncView(tree, SESS, 'Messenger.merge_session_params')
    n = 0
    for c in calls_in(fm.func):
        if pm('str(self._sessinit_peer.nodeid_data)', c) is None:
            continue
        n += 1
        ok = False
        prev = c
        cur = getattr(c, '_parent', None)
        while cur is not None and cur is not fm.func:
            if isinstance(cur, ast.Try) and any(prev is st or prev in ast.walk(st) for st in cur.body):
                for h in cur.handlers:
                    if any((nm or 'BaseException').split('.')[-1] in ('UnicodeError', 'UnicodeDecodeError', 'ValueError', 'Exception', 'BaseException') for nm in handler_names(h)) and \
                            any(isinstance(r, ast.Raise) and r.exc is not None and ('TerminateError' in src(r.exc) or 'RejectError' in src(r.exc)) for r in walk_local(h)):
                        ok = True
            prev = cur
            cur = getattr(cur, '_parent', None)
        if ok:
            ob.site(SESS, c, 'a peer node ID that is not UTF-8 is a negotiation failure')
        else:
            ob.violate(SESS, fm.qual, src(c) + ' unguarded', 'a SESS_INIT whose node ID is not valid UTF-8 raises UnicodeDecodeError out of the receive callback: the session stays half negotiated and the '
                       'connection is never read again nor closed', c)
    ob.require(n >= 1, 'conversion of the peer node id not found')
    # every other read of the field decodes as well (scapy hands out i2h(), i.e. .decode('utf-8'), on attribute access)
    for (r, qual, func) in tree.all_functions([SESS]):
        for a in walk_local(func):
            if not (isinstance(a, ast.Attribute) and isinstance(a.ctx, ast.Load) and src(a) == 'self._sessinit_peer.nodeid_data'):
                continue
            par = getattr(a, '_parent', None)
            if qual == fm.qual and isinstance(par, ast.Call) and pm('str(self._sessinit_peer.nodeid_data)', par) is not None:
                continue
            ok = False
            prev = a
            cur = getattr(a, '_parent', None)
            while cur is not None and cur is not func:
                if isinstance(cur, ast.Try) and any(prev is st or prev in ast.walk(st) for st in cur.body):
                    for h in cur.handlers:
                        if any((nm or 'BaseException').split('.')[-1] in ('UnicodeError', 'UnicodeDecodeError', 'ValueError', 'Exception', 'BaseException') for nm in handler_names(h)):
                            ok = True
                prev = cur
                cur = getattr(cur, '_parent', None)
            if ok:
                ob.site(SESS, a, qual + ': peer node ID read under a handler for undecodable text')
            else:
                ob.violate(SESS, qual, src(a) + ' read unguarded', 'reading the node ID field of the peer SESS_INIT decodes it as UTF-8: for a peer whose node ID is not UTF-8 (which is refused with a '
                           'contact failure) this read raises UnicodeDecodeError, here outside any handler: the refusal is not sent, the exception leaves the receive callback', a, sure=True)


def peer_enum_lookups(tree, ob):
    ''' a code point chosen by the peer (a reason, a type) need not be one this implementation knows.  Looking it up in an
    IntEnum -- Reason(reason) -- raises ValueError for every other value, out of the message handler and so out of the
    receive callback: the message is not acted on (a SESS_TERM with an unassigned reason is never recorded, neither end
    closes).  Inside the handlers such lookups are wrapped (try / except ValueError) or not made. '''
    n = 0
    for cname in ('Messenger', 'ContactHandler'):
        cls = tree.klass(SESS, cname)
        work = [(x, {a.arg for a in x.args.args[1:]}) for x in cls.body if isinstance(x, ast.FunctionDef) and x.name.startswith('recv_')]
        # ... and where a handler hands such a value on to another method of the session (the reply echoes the peer's
        # reason: send_sess_term(reason, True)), the parameter that receives it is a peer value there as well (two steps)
        meths = {}
        for cn2 in ('Messenger', 'ContactHandler'):
            for x in tree.klass(SESS, cn2).body:
                if isinstance(x, ast.FunctionDef):
                    meths.setdefault(x.name, x)
        seen_m = {x.name for (x, _p) in work}
        for _depth in (1, 2):
            for (x, tainted) in list(work):
                for c2 in calls_in(x):
                    if not (isinstance(c2.func, ast.Attribute) and isinstance(c2.func.value, ast.Name) and c2.func.value.id == 'self' and c2.func.attr in meths):
                        continue
                    callee = meths[c2.func.attr]
                    if callee.name in seen_m:
                        continue
                    cparams = [a.arg for a in callee.args.args[1:]]
                    t2 = set()
                    for (ix, a) in enumerate(c2.args):
                        if ix < len(cparams) and {y.id for y in ast.walk(a) if isinstance(y, ast.Name)} & tainted:
                            t2.add(cparams[ix])
                    for kw in c2.keywords:
                        if kw.arg in cparams and {y.id for y in ast.walk(kw.value) if isinstance(y, ast.Name)} & tainted:
                            t2.add(kw.arg)
                    if t2:
                        seen_m.add(callee.name)
                        work.append((callee, t2))
        for (m, params) in work:
            for c in calls_in(m):
                name = dotted(c.func) or ''
                parts = name.split('.')
                if len(parts) < 2 or not c.args or len(c.args) != 1:
                    continue
                # messages.<Class>.<Enum> or <Class>.<Enum>
                qual = '.'.join(parts[1:]) if parts[0] in ('messages',) else name
                if not tree.has_class(MSGS, qual):
                    continue
                bases = [dotted(b) or '' for b in tree.klass(MSGS, qual).bases]
                if not any(b.split('.')[-1] == 'IntEnum' or b.split('.')[-1] == 'Enum' for b in bases):
                    continue
                used = {x.id for x in ast.walk(c.args[0]) if isinstance(x, ast.Name)}
                if not (used & params):
                    continue
                n += 1
                prev = c
                cur = getattr(c, '_parent', None)
                guarded = False
                while cur is not None and cur is not m:
                    if isinstance(cur, ast.Try) and any(prev is st or prev in ast.walk(st) for st in cur.body):
                        from ..cfg import handler_names
                        for h in cur.handlers:
                            if any((nm or 'BaseException').split('.')[-1] in ('ValueError', 'Exception', 'BaseException') for nm in handler_names(h)):
                                guarded = True
                    prev = cur
                    cur = getattr(cur, '_parent', None)
                if guarded:
                    ob.site(SESS, c, '{}.{}: enumeration lookup of a peer value is guarded'.format(cname, m.name))
                else:
                    ob.violate(SESS, '{}.{}'.format(cname, m.name), src(c), 'a value chosen by the peer is looked up in an enumeration: for a code point this implementation does not know the lookup '
                               'raises ValueError out of the message handler, the message (e.g. a SESS_TERM with an unassigned reason) is never acted on', c, sure=True)
    ob.site(SESS, tree.klass(SESS, 'Messenger'), 'message handlers make no unguarded enumeration lookup of a peer value ({} guarded)'.format(n))


def _close_survives_socket_errors(tree, ob):
    ''' closing is the answer to every fatal peer mistake, and it runs inside the callback that found the mistake.  The
    peer may already have gone (reset): shutdown() of such a socket fails with an OSError that is no ConnectionError
    (ENOTCONN).  The handler around it covers OSError as a whole, else the close itself escapes the callback with the
    socket still open and the agent never told. '''
    from ..cfg import handler_names
    WIDE = ('error', 'OSError', 'IOError', 'EnvironmentError', 'Exception', 'BaseException')
    fv = FuncView(tree, SESS, 'Connection.close')
    n = 0
    for c in calls_in(fv.func):
        if not (isinstance(c.func, ast.Attribute) and c.func.attr == 'shutdown'):
            continue
        n += 1
        found = None
        prev = c
        cur = getattr(c, '_parent', None)
        while cur is not None and cur is not fv.func:
            if isinstance(cur, ast.Try) and any(prev is st or prev in ast.walk(st) for st in cur.body):
                found = found or cur
                if any((nm or 'BaseException').split('.')[-1] in WIDE for h in cur.handlers for nm in handler_names(h)):
                    found = True
                    break
            prev = cur
            cur = getattr(cur, '_parent', None)
        if found is True:
            ob.site(SESS, c, 'Connection.close: a failing shutdown() is survived (handler covers OSError)')
        elif found is not None:
            ob.violate(SESS, fv.qual, 'except ' + ', '.join(str(nm) for h in found.handlers for nm in handler_names(h)), 'the handler around shutdown() names some socket errors only: for a peer that reset the connection '
                       'shutdown() fails with ENOTCONN (an OSError outside that list), the error leaves close() and the receive callback, the socket stays open and the agent is never told', found.handlers[0], sure=True)
        else:
            ob.violate(SESS, fv.qual, src(c), 'shutdown() of the socket is not guarded: for a peer that has already gone it raises out of close()', c)
    ob.require(n >= 1, 'shutdown() in Connection.close')


def _arith_state_initialised(tree, ob):
    ''' state that a peer-driven handler does arithmetic on starts as None in the constructor (the controller of the
    segment size: last acknowledged length).  A handler can run as soon as the session is established -- an XFER_ACK right
    behind SESS_INIT, before any transfer has started -- so the number is put in place where the session is established
    (merge_session_params), not where the first transfer starts: `length - None` is a TypeError out of the receive callback. '''
    n = 0
    inits = {}
    for cname in ('Messenger', 'ContactHandler'):
        cls = tree.klass(SESS, cname)
        for m in cls.body:
            if isinstance(m, ast.FunctionDef) and m.name == '__init__':
                for st in walk_local(m):
                    if isinstance(st, ast.Assign) and isinstance(st.value, ast.Constant) and st.value.value is None:
                        for t in st.targets:
                            a = self_attr(t)
                            if a:
                                inits[a] = st
    fm = tree.func(SESS, 'Messenger.merge_session_params')
    estab = {self_attr(t) for st in walk_local(fm) if isinstance(st, ast.Assign) and not (isinstance(st.value, ast.Constant) and st.value.value is None) for t in st.targets if self_attr(t)}
    for qual in ('ContactHandler.recv_xfer_ack', 'ContactHandler.recv_xfer_data', 'ContactHandler.recv_xfer_refuse'):
        if not tree.has_func(SESS, qual):
            continue
        fv = FuncView(tree, SESS, qual)
        for b in walk_local(fv.func):
            if not (isinstance(b, ast.BinOp) and isinstance(b.op, (ast.Sub, ast.Add, ast.Mult, ast.Div, ast.FloorDiv))):
                continue
            for side in (b.left, b.right):
                a = self_attr(side)
                if not a or a not in inits:
                    continue
                n += 1
                guarded = fv.has(b, 'self.{} is not None'.format(a), True) or fv.has(b, 'self.{} is None'.format(a), False)
                local = [st for st in walk_local(fv.func) if isinstance(st, ast.Assign) and any(self_attr(t) == a for t in st.targets) and fv.dominates(st, b)[0]]
                if a in estab or guarded or local:
                    ob.site(SESS, b, '{}: {} is a number once the session is established'.format(qual, a))
                else:
                    ob.violate(SESS, qual, src(b)[:60], 'the handler computes with self.{0}, which the constructor leaves None and which is no longer given a number when the session is established: an '
                               'acknowledgement that arrives before the first transfer has started (the peer chooses when to send it) raises TypeError out of the receive callback; what was read behind it is never answered'.format(a), b)
    ob.require(n >= 1, 'arithmetic on constructor-None state in the transfer handlers')


def c17a(tree, ob):
    _stop_after_close(tree, ob)
    _arith_state_initialised(tree, ob)
    _peer_text(tree, ob)
    _close_survives_socket_errors(tree, ob)
    peer_enum_lookups(tree, ob)
    roots = _roots(tree)
    ob.require(len(roots) >= 6, 'expected at least six event-loop callbacks in session.py, found {}'.format(sorted(roots)))
    esc = Escapes(tree)
    seen_keys = set()
    for name in sorted(roots):
        funcs = [f for f in esc.cg.by_name.get(name, [])]
        ob.require(funcs, 'callback {} not found'.format(name))
        for func in funcs:
            qual = esc.cg.qual(func)[1]
            out = esc.of(func)
            ob.site(SESS, func, 'root {}: {} escaping exception source(s)'.format(qual, len(out)))
            for key, (desc, node, chain) in sorted(out.items()):
                base = key.split(':')[0]
                fn = enclosing(node, (ast.FunctionDef,))
                fq = esc.cg.qual(fn)[1] if fn is not None else qual
                construct = '{}: {}'.format(base, desc)
                if (fq, construct) in seen_keys:
                    continue
                seen_keys.add((fq, construct))
                if desc.startswith('re-raise of Exception caught around pkt = msgcls('):
                    # decode errors other than "partial": the one demonstrated source is a short read of the fixed part of
                    # a probe class (struct.error).  When every probe class reports a short or payload-less header as
                    # partial (the C07.b conditions) the re-raise has no known feeder: recorded, not reported.
                    from ..report import Obligation
                    from .c07 import c07b
                    dummy = Obligation('C07.b', 'R-SCHEMA', '')
                    c07b(tree, dummy)
                    if not dummy.findings:
                        ob.undetermined.append('{}: {} - no feeder known: every probe class reports short input as partial (C07.b); payload decode errors are turned into Raw by scapy'.format(fq, construct))
                        ob.site(SESS, node, 'decode re-raise: probe classes report short input as partial (C07.b)')
                        continue
                ob.violate(SESS, fq, construct, '{} can propagate out of the event-loop callback {} (the endpoint stops processing instead of answering with MSG_REJECT / SESS_TERM / close)'.format(base, qual),
                           node, [' -> '.join(chain)])


def _stop_after_close(tree, ob):
    ''' A handler may close the connection (bad contact header, TLS policy, failed handshake).  The receive loop must not go
    on dispatching the rest of the read on the closed connection (merge_session_params then dereferences a socket that
    is gone: AttributeError out of the callback). '''
    fr = FuncView(tree, SESS, 'Messenger.recv_raw')
    loop = one([n for n in walk_local(fr.func) if isinstance(n, ast.While)], 'message loop in recv_raw', ob)
    act = one(method_calls(fr.func, 'recv_message', 'self'), 'dispatch in recv_raw', ob)
    head = fr.node(loop)
    gates = [n for n in fr.cfg.nodes if n.kind == 'cond' and any('get_app_socket()' in t or 'is_closed' in t for (t, p) in norm.all_atoms(n.ast))]
    ok = bool(gates) and fr.cfg.must_pass(fr.node(act), head, set(gates), include_exc=False)[0]
    if ok:
        # on the "closed" edge the loop head is not reached again
        for g in gates:
            for (succ, lab) in g.succ:
                closed_edge = (lab is True) == any(p is True for (t, p) in norm.cond_facts(g.ast, True) if 'get_app_socket() is None' in t)
                if closed_edge and head in fr.cfg.reachable([succ]) and succ is not head:
                    ok = False
    if ok:
        ob.site(SESS, act, 'recv_raw stops dispatching once a handler closed the connection')
    else:
        ob.violate(SESS, fr.qual, 'self.recv_message(pkt) ... next iteration without a closed-connection test', 'after a handler closed the connection (bad magic / version, TLS policy, failed handshake) the '
                   'rest of the read is still decoded and dispatched; merge_session_params then raises AttributeError out of the receive callback', act)


# ---------------------------------------------------------------- C17.f
def c17f(tree, ob):
    ''' scapy gives a Raw payload both to a known message that failed to decode (truncated: wait) and to a message type
    with no bound class (unknown: must be rejected now, it can never become decodable).  The completeness check may say
    "partial" only for the former. '''
    fv = FuncView(tree, MSGS, 'MessageHead.post_dissection')
    raises = [r for r in walk_local(fv.func) if isinstance(r, ast.Raise) and r.exc is not None and 'VerifyError' in src(r.exc)]
    ob.require(raises, 'no completeness check in MessageHead.post_dissection')

    def is_guess(expr, at):
        return pm('self.guess_payload_class($_)', fv.value_at(expr, at)) is not None

    def is_default(expr, at):
        val = fv.value_at(expr, at)
        return pm('self.default_payload_class($_)', val) is not None or src(val) in ('packet.Raw', 'conf.raw_layer', 'Raw')

    for r in raises:
        known = False
        other = False
        for (text, pol) in fv.facts(r) or ():
            try:
                node = ast.parse(text, mode='eval').body
            except SyntaxError:
                continue
            if isinstance(node, ast.Compare) and len(node.ops) == 1 and isinstance(node.ops[0], (ast.Is, ast.Eq, ast.IsNot, ast.NotEq)):
                (a, b) = (node.left, node.comparators[0])
                same = isinstance(node.ops[0], (ast.Is, ast.Eq))
                if (is_guess(a, r) and is_default(b, r)) or (is_guess(b, r) and is_default(a, r)):
                    if pol is (not same):
                        known = True
                    continue
            if 'msg_id' in text or 'guess_payload_class' in text or 'payload_guess' in text:
                other = True
            elif any(isinstance(n, ast.Name) and is_guess(n, r) for n in ast.walk(node)) and not text.endswith('.fields_desc'):
                other = True
        if known:
            ob.site(MSGS, r, 'partial only for a known message type: ' + src(r.exc)[:50])
        elif other:
            raise AnalysisError('C17.f: unrecognised guard on the message type at the completeness check ({})'.format(sorted(t for (t, p) in fv.facts(r))[:3]))
        else:
            ob.violate(MSGS, fv.qual, src(r.exc)[:70], 'a message of unknown type is reported as partial: it is never passed to the dispatcher, no MSG_REJECT is sent and every later '
                       'message is stuck behind its octets', r)
    # an unknown type is passed on as its header octet alone: scapy hands it everything else in the buffer as a Raw
    # payload, and those octets (the next messages, if TCP delivered them together) would be consumed with it
    strips = {fv.node(c) for c in method_calls(fv.func, 'remove_payload', 'self')}
    found = False
    for n in fv.cfg.nodes:
        if n.kind != 'cond' or not isinstance(n.ast, ast.Compare) or len(n.ast.ops) != 1 or not isinstance(n.ast.ops[0], (ast.Is, ast.Eq, ast.IsNot, ast.NotEq)):
            continue
        (a, b) = (n.ast.left, n.ast.comparators[0])
        if not ((is_guess(a, n.ast) and is_default(b, n.ast)) or (is_guess(b, n.ast) and is_default(a, n.ast))):
            continue
        found = True
        same = isinstance(n.ast.ops[0], (ast.Is, ast.Eq))
        for (succ, lab) in n.succ:
            if lab is same:   # the "unknown type" edge
                ok = succ in strips or (strips and fv.cfg.must_pass(succ, fv.cfg.exit, strips, include_exc=False)[0])
                if ok:
                    ob.site(MSGS, n.ast, 'an unknown type keeps no payload: only its header octet is consumed')
                else:
                    ob.violate(MSGS, fv.qual, 'unknown type passed on with its Raw payload', 'whatever was read together with a message of unknown type is consumed with it: whether a following message is acted '
                               'on depends on how TCP split the stream', n.ast)
    # and the dispatcher classifies by the bound class, so that an unknown type falls into its default arm
    fd = FuncView(tree, SESS, 'Messenger.recv_message')
    defs = norm.local_assigns(fd.func, 'msgcls')
    if len(defs) != 1 or (pm('pkt.guess_payload_class($_)', defs[0][1]) is None and pm('type(pkt.payload)', defs[0][1]) is None):
        ob.violate(SESS, fd.qual, 'msgcls = ...', 'the dispatcher does not classify a message by the class bound to its type', fd.func)
    else:
        ob.site(SESS, defs[0][0], 'dispatch on ' + src(defs[0][1]))


# ---------------------------------------------------------------- C17.b
def c17b(tree, ob):
    fv = FuncView(tree, SESS, 'Messenger.recv_message')
    bound = [up for (lo, up, kws, node) in schema.bindings(tree, MSGS) if lo == 'MessageHead']
    ob.require(len(bound) >= 7, 'message bindings')
    arms = set()
    for node in fv.cfg.nodes:
        if node.kind == 'cond':
            for (text, pol) in norm.all_atoms(node.ast):
                if text.startswith('msgcls == messages.'):
                    arms.add(text.split('messages.')[1])
                elif text.startswith('msgcls in '):
                    for part in text[len('msgcls in '):].strip('()[] ').split(','):
                        part = part.strip()
                        if part.startswith('messages.'):
                            arms.add(part[len('messages.'):])
    for cls in bound:
        if cls in arms:
            ob.site(SESS, fv.func, 'dispatch arm for ' + cls)
        else:
            ob.violate(SESS, fv.qual, 'msgcls == messages.' + cls, 'message type {} has no dispatch arm (it would be answered as unknown)'.format(cls), fv.func)
    # a contact header is acted on for exactly the version this entity speaks
    peers = [n for n in walk_local(fv.func) if isinstance(n, ast.Assign) and any(src(t) == 'self._conhead_peer' for t in n.targets) and src(n.value) == 'pkt.payload']
    for n in peers:
        if fv.has(n, 'pkt.version == 4', True) and fv.has(n, 'pkt.magic == contact.MAGIC_HEAD', True):
            ob.site(SESS, n, 'contact header accepted only with the right magic and version 4')
        else:
            ob.violate(SESS, fv.qual, 'contact header accepted without (magic == dtn! and version == 4)', 'a contact header of another version is acted on: its payload is not a ContactV4, reading its flags raises '
                       'AttributeError out of the receive callback', n)
    # the SESS_INIT arm needs a state guard like every other arm: one SESS_INIT per session
    inits = [n for n in walk_local(fv.func) if isinstance(n, ast.Assign) and any(src(t) == 'self._sessinit_peer' for t in n.targets) and src(n.value) == 'pkt.payload']
    for n in inits:
        if fv.has(n, 'self._sessinit_peer is None', True) or fv.has(n, 'self._in_sess', False):
            ob.site(SESS, n, 'SESS_INIT accepted once per session')
        else:
            ob.violate(SESS, fv.qual, 'msgcls == messages.SessionInit (no state guard)', 'a second SESS_INIT is accepted in any state: it is answered with another SESS_INIT, replaces the negotiated '
                       'parameters (segment MRU 0 stalls the running transfer) and moves a terminating session back to established', n)
    # default arm: reached when every arm test is false
    raises = [n for n in walk_local(fv.func) if isinstance(n, ast.Raise) and n.exc is not None and 'RejectError' in src(n.exc)]
    default = [r for r in raises if all(((('msgcls == messages.' + c), False) in (fv.facts(r) or ())) or c in ('Keepalive', 'RejectMsg') for c in bound)]
    if not default:
        ob.violate(SESS, fv.qual, 'else: raise RejectError', 'an unknown message type is not answered with MSG_REJECT', fv.func)
    else:
        ob.site(SESS, default[0], 'unknown type -> RejectError')
    # funnel handlers
    trys = [n for n in walk_local(fv.func) if isinstance(n, ast.Try)]
    ok = False
    for t in trys:
        names = [nm.split('.')[-1] for h in t.handlers for nm in handler_names(h) if nm]
        if 'RejectError' in names and 'TerminateError' in names:
            ok = True
            for h in t.handlers:
                nm = handler_names(h)[0]
                if nm and nm.endswith('RejectError'):
                    if not method_calls(h, 'send_reject', 'self'):
                        ob.violate(SESS, fv.qual, 'except RejectError', 'a rejected message is not answered with MSG_REJECT', h)
                    else:
                        ob.site(SESS, h, 'RejectError -> send_reject')
                if nm and nm.endswith('TerminateError'):
                    if not method_calls(h, 'send_sess_term', 'self'):
                        ob.violate(SESS, fv.qual, 'except TerminateError', 'a terminate request is not answered with SESS_TERM', h)
                    else:
                        ob.site(SESS, h, 'TerminateError -> send_sess_term')
            # every delegated handler call sits inside this try
            for hname in ('recv_xfer_data', 'recv_xfer_ack', 'recv_xfer_refuse', 'recv_sess_term'):
                for call in method_calls(fv.func, hname, 'self'):
                    if not _caught(call, 'RejectError', fv.func):
                        ob.violate(SESS, fv.qual, src(call)[:60], 'handler is called outside the reject/terminate funnel', call)
    if not ok:
        ob.violate(SESS, fv.qual, 'try/except RejectError, TerminateError', 'reject/terminate funnel missing', fv.func)
    from .c15 import funnel_order
    funnel_order(tree, ob)
    # base handlers reject outside a session; overrides call the base first
    for hname in ('recv_sess_term', 'recv_xfer_data', 'recv_xfer_ack', 'recv_xfer_refuse'):
        fb = FuncView(tree, SESS, 'Messenger.' + hname)
        facts_exit = fb.cfg.facts(fb._kill_fn(), fb._gen_fn())[0][fb.cfg.exit]
        rej = [n for n in walk_local(fb.func) if isinstance(n, ast.Raise) and n.exc is not None and 'RejectError' in src(n.exc)]
        if ('self._in_sess', True) not in facts_exit or not rej:
            ob.violate(SESS, fb.qual, 'if not self._in_sess: raise RejectError', 'message is accepted before the session is established', fb.func)
        else:
            ob.site(SESS, rej[0], fb.qual + ' rejects unless in session')
            if 'UNEXPECTED' not in src(rej[0].exc):
                ob.violate(SESS, fb.qual, src(rej[0]), 'out-of-session message is not rejected as UNEXPECTED', rej[0])
        fo = FuncView(tree, SESS, 'ContactHandler.' + hname)
        bases = [c for c in calls_in(fo.func) if pm('Messenger.{}(self, $$)'.format(hname).replace('$$', '*$_'), c) is not None or
                 (isinstance(c.func, ast.Attribute) and c.func.attr == hname and (dotted(c.func.value) == 'Messenger' or
                  (isinstance(c.func.value, ast.Call) and dotted(c.func.value.func) == 'super')))]
        if not bases:
            ob.violate(SESS, fo.qual, 'Messenger.{}(self, ...)'.format(hname), 'override does not run the base in-session check', fo.func)
            continue
        base = bases[0]
        late = []
        for c in calls_in(fo.func):
            if c is base or is_logging_call(c) or c in list(ast.walk(base)):
                continue
            if not fo.dominates(base, c)[0]:
                late.append(c)
        for st in walk_local(fo.func):
            if isinstance(st, (ast.Assign, ast.AugAssign)) and any(n.startswith('self.') for n in norm.written_names(st)):
                if not fo.dominates(base, st)[0]:
                    late.append(st)
        ok_all, wit = fo.cfg.must_pass(fo.cfg.entry, fo.cfg.exit, {fo.node(base)}, include_exc=False)
        if not ok_all:
            ob.violate(SESS, fo.qual, 'return before Messenger.{}(self, ...)'.format(hname), 'the handler can return before the base check ran: such a message is silently accepted outside a session '
                       '/ for a non-matching transfer instead of being answered with MSG_REJECT', base, path_text(wit or []))
        if late:
            ob.violate(SESS, fo.qual, src(late[0])[:60], 'state is touched before the base in-session check ran', late[0])
        else:
            ob.site(SESS, base, fo.qual + ' runs the base check first')


# ---------------------------------------------------------------- C17.c
def _fields_of(tree, dotted_cls):
    ''' Field names of a packet class given as 'messages.X' / 'contact.X' / 'extend.X'. '''
    mod, _, cls = dotted_cls.rpartition('.')
    rel = {'messages': MSGS, 'contact': CONTACT, 'extend': EXTEND}.get(mod)
    if rel is None or not tree.has_class(rel, cls):
        return None
    return [f.name for f in schema.fields_desc(tree, rel, cls)]


PACKET_API = {'payload', 'getfieldval', 'setfieldval', 'getfield_and_val', 'fields', 'show', 'build', 'copy', 'guess_payload_class',
              'add_payload', 'remove_payload', 'underlayer', 'haslayer', 'getlayer', 'name', 'original', 'time'}


def c17c(tree, ob):
    # constructor keywords
    for (rel, qual, func) in tree.all_functions([SESS]):
        for call in calls_in(func):
            name = call_name(call) or ''
            if not any(name.startswith(p) for p in ('messages.', 'contact.', 'extend.')):
                continue
            flds = _fields_of(tree, name)
            if flds is None:
                continue
            kws = []
            for kw in call.keywords:
                if kw.arg is not None:
                    kws.append((kw.arg, kw))
                else:
                    # **options with options = dict(k=...) local
                    fv = FuncView(tree, SESS, qual)
                    if isinstance(kw.value, ast.Name):
                        rd = fv.reaching_defs(kw.value.id, call)
                        if len(rd) == 1 and isinstance(rd[0][1], ast.Call) and dotted(rd[0][1].func) == 'dict':
                            kws += [(k.arg, k) for k in rd[0][1].keywords if k.arg]
                        else:
                            raise AnalysisError('C17.c: unrecognised **kwargs source in ' + qual)
            for (kname, kw) in kws:
                if kname in flds:
                    ob.site(SESS, call, '{}({}=...) in {}'.format(name, kname, qual))
                else:
                    ob.violate(SESS, qual, '{}({}=...)'.format(name, kname),
                               '{} has no field {!r} (fields: {}): building this message raises AttributeError'.format(name, kname, flds), call)
    # attribute reads on the dispatched packet
    fv = FuncView(tree, SESS, 'Messenger.recv_message')
    head = _fields_of(tree, 'messages.MessageHead')
    chead = _fields_of(tree, 'contact.Head')
    for node in walk_local(fv.func):
        if not isinstance(node, ast.Attribute) or not isinstance(node.ctx, ast.Load):
            continue
        base = node.value
        on_payload = isinstance(base, ast.Attribute) and src(base) == 'pkt.payload'
        on_pkt = isinstance(base, ast.Name) and base.id == 'pkt'
        if not (on_payload or on_pkt) or node.attr in PACKET_API:
            continue
        facts = fv.facts(node) or frozenset()
        clsname = None
        for (text, pol) in facts:
            if pol and text.startswith('msgcls == messages.'):
                clsname = text.split('== ')[1]
        if ('isinstance(pkt, contact.Head)', True) in facts:
            # payload is ContactV4 / ContactV3 depending on version; both define flags
            allowed = set(chead) | set(_fields_of(tree, 'contact.ContactV4') or [])
            label = 'contact.Head/ContactV4'
        elif clsname:
            allowed = set(_fields_of(tree, clsname) or [])
            if on_pkt:
                allowed |= set(head)
            label = clsname
        else:
            continue
        if node.attr in allowed:
            ob.site(SESS, node, 'read {} of {}'.format(src(node), label))
        else:
            ob.violate(SESS, fv.qual, '{} in the {} arm'.format(src(node), label),
                       '{} has no field {!r}: handling this message raises AttributeError'.format(label, node.attr), node)
    # getfieldval('x') on dispatched packets
    for call in calls_in(fv.func):
        if isinstance(call.func, ast.Attribute) and call.func.attr == 'getfieldval' and call.args and isinstance(call.args[0], ast.Constant):
            recv = src(call.func.value)
            if recv not in ('pkt', 'pkt.payload'):
                continue
            facts = fv.facts(call) or frozenset()
            clsname = next((t.split('== ')[1] for (t, p) in facts if p and t.startswith('msgcls == messages.')), None)
            if not clsname:
                continue
            allowed = set(_fields_of(tree, clsname) or []) | (set(head) if recv == 'pkt' else set())
            if call.args[0].value in allowed:
                ob.site(SESS, call, 'getfieldval({!r}) of {}'.format(call.args[0].value, clsname))
            else:
                ob.violate(SESS, fv.qual, src(call), '{} has no field {!r}'.format(clsname, call.args[0].value), call)


# ---------------------------------------------------------------- C17.d
def c17d(tree, ob):
    c17d_start(tree, ob)
    c17d_setup(tree, ob)


def c17d_start(tree, ob):
    # a START must not replace a transfer being received, nor one waiting to be popped under the same id
    fh = FuncView(tree, SESS, 'ContactHandler.recv_xfer_data')
    for call in method_calls(fh.func, '_rx_setup', 'self'):
        miss = [t for (t, p) in (('transfer_id in self._rx_map', False),) if not fh.has(call, t, p)]
        # a reception in progress is either impossible here (_rx_tmp is None) or is ended with a finished signal that is
        # not 'success' before the fresh setup: look for a path entry -> setup on which neither is established
        emits = [fh.node(f) for f in method_calls(fh.func, 'recv_bundle_finished', 'self') if len(f.args) > 2 and const_str(f.args[2]) not in (None, 'success')]
        cuts = set()
        for n in fh.cfg.nodes:
            if n.kind == 'cond':
                for (succ, lab) in n.succ:
                    if lab in (True, False) and ('self._rx_tmp is None', True) in set(norm.cond_facts(n.ast, lab)):
                        cuts.add((n.idx, succ.idx, lab))
        if fh.node(call) in fh.cfg.reachable([fh.cfg.entry], avoid=emits, avoid_edges=cuts, include_exc=False):
            miss.append('self._rx_tmp is None (or an abandon signal)')
        if miss:
            ob.violate(SESS, fh.qual, src(call) + ' without ' + ' / '.join(miss), 'a START segment replaces the transfer in progress (announced as started, it never gets a finished signal) or overwrites the '
                       'map entry of a finished transfer with the same id (two announcements, one poppable bundle)', call)
        else:
            ob.site(SESS, call, 'START accepted only with no transfer in progress and an unused id')


def c17d_setup(tree, ob):
    fv = FuncView(tree, SESS, 'ContactHandler._rx_setup')
    cls = tree.klass(SESS, 'ContactHandler')
    # when every caller has already cleared the previous reception, "allocate only if none is active" is the same as
    # "always allocate"
    callers_clear = True
    ncall = 0
    for item in cls.body:
        if isinstance(item, ast.FunctionDef):
            for c in method_calls(item, '_rx_setup', 'self'):
                ncall += 1
                if not FuncView(tree, SESS, 'ContactHandler.' + item.name).has(c, 'self._rx_tmp is None', True):
                    callers_clear = False
    callers_clear = callers_clear and ncall > 0

    def always(node):
        if fv.cfg.must_pass(fv.cfg.entry, fv.cfg.exit, {fv.node(node)}, include_exc=False)[0]:
            return True
        if not callers_clear:
            return False
        # every path that skips it knows "a reception is active", which no caller allows
        cuts = set()
        for n in fv.cfg.nodes:
            if n.kind == 'cond':
                for (succ, lab) in n.succ:
                    if lab in (True, False) and ('self._rx_tmp is None', False) in set(norm.cond_facts(n.ast, lab)):
                        cuts.add((n.idx, succ.idx, lab))
        return fv.cfg.exit not in fv.cfg.reachable([fv.cfg.entry], avoid=[fv.node(node)], avoid_edges=cuts, include_exc=False)

    news = [st for (f, st, _k, val) in stores_to_self_attr(cls, '_rx_tmp') if f is fv.func]
    new = one(news, 'assignment of the active RX item in _rx_setup', ob)
    if pm('BundleItem()', new.value) is None:
        ob.violate(SESS, fv.qual, src(new), 'a START segment does not begin with a fresh receive item', new)
    elif not always(new):
        ob.violate(SESS, fv.qual, src(new), 'a START segment can reuse the previous receive item', new)
    else:
        ob.site(SESS, new, 'fresh BundleItem on every START')
    files = [n for n in walk_local(fv.func) if isinstance(n, ast.Assign) and src(n.targets[0]) == 'self._rx_tmp.file']
    fl = one(files, 'receive buffer assignment in _rx_setup', ob)
    if pm('BytesIO()', fl.value) is None or not always(fl):
        ob.violate(SESS, fv.qual, src(fl), 'a START segment does not begin with an empty receive buffer (octets of an abandoned transfer can be delivered)', fl)
    else:
        ob.site(SESS, fl, 'fresh empty buffer on every START')
    ids = [n for n in walk_local(fv.func) if isinstance(n, ast.Assign) and src(n.targets[0]) == 'self._rx_tmp.transfer_id']
    st = one(ids, 'transfer id assignment in _rx_setup', ob)
    if src(st.value) != 'transfer_id':
        ob.violate(SESS, fv.qual, src(st), 'receive item is not labelled with the id of the START segment', st)


# ---------------------------------------------------------------- C17.e
def c17e(tree, ob):
    for hname in ('recv_xfer_ack', 'recv_xfer_refuse'):
        fv = FuncView(tree, SESS, 'ContactHandler.' + hname)
        for call in calls_in(fv.func):
            if not isinstance(call.func, ast.Attribute):
                continue
            attr = self_attr(call.func.value)
            if attr not in ('_tx_map', '_tx_pend_ack', '_tx_pend_start') or call.func.attr not in ('pop', 'remove', 'discard', 'clear', '__delitem__'):
                continue
            if call.func.attr == 'clear' or not call.args:
                ob.violate(SESS, fv.qual, src(call), 'peer message wipes TX state of other transfers', call)
                continue
            arg = call.args[0]
            val = fv.value_at(arg, call)
            ok = src(val) == 'transfer_id' or pm('self._tx_map[transfer_id]', val) is not None or pm('self._tx_map.pop(transfer_id)', val) is not None \
                or pm('self._tx_map.get(transfer_id)', val) is not None or pm('self._tx_map.pop(transfer_id, $d)', val) is not None
            if not ok and isinstance(val, ast.Attribute) and val.attr == 'transfer_id':
                # the id read back from the item that was looked up by the peer's id
                base = fv.value_at(val.value, call, depth=4)
                ok = any(pm(pt, base) is not None for pt in ('self._tx_map[transfer_id]', 'self._tx_map.get(transfer_id)', 'self._tx_map.pop(transfer_id)', 'self._tx_map.pop(transfer_id, $d)'))
            if ok:
                ob.site(SESS, call, '{}: {} acts on the looked-up transfer'.format(hname, src(call)))
            else:
                ob.violate(SESS, fv.qual, src(call), 'TX state is changed for something other than the transfer named by the peer', call)
        # the transfer that is being sent is interrupted only if it is the one the peer named
        for call in method_calls(fv.func, '_tx_teardown', 'self'):
            named = fv.has(call, 'self._tx_tmp.transfer_id == transfer_id', True) or fv.has(call, 'transfer_id == self._tx_tmp.transfer_id', True) \
                or fv.has(call, 'self._tx_tmp is item', True) or fv.has(call, 'item is self._tx_tmp', True) or fv.has(call, 'self._tx_tmp == item', True)
            if named:
                ob.site(SESS, call, '{}: interrupts the active transfer only when it is the one named'.format(hname))
            else:
                # a test of self._tx_tmp that does not name the transfer is positive evidence: the guard is there and is too wide
                wide = fv.has(call, 'self._tx_tmp is None', False) or fv.has(call, 'self._tx_tmp is not None', True) or fv.has(call, 'self._tx_tmp', True)
                ob.violate(SESS, fv.qual, src(call) + '  (not under self._tx_tmp.transfer_id == transfer_id)', 'a peer message about one transfer tears down whichever transfer is being sent: that one stops mid-way, '
                           'never gets its END segment and stays in the transmit map', call, sure=bool(wide))
