''' C01 — TCPCL delivers every queued bundle exactly once, intact, in order.

Structural clauses decided: FIFO discipline of the pending queue, conservation
of the three byte buffers, segmenter shape, receiver shape, success only after
the final ACK, "started => something is sent".
'''
import ast
from ..core import AnalysisError, walk_local, calls_in, call_name, dotted, src, self_attr, enclosing, ancestors
from ..lib import (FuncView, pm, pm_stmt, method_calls, one, at_least, stores_to_self_attr, uses_of_self_attr,
                   const_str, path_text, qualname)
from .. import norm

SESS = 'tcpcl/session.py'
START = 'flags & messages.TransferSegment.Flag.START'
END = 'flags & messages.TransferSegment.Flag.END'
START = 'flags & messages.TransferSegment.Flag.START'


def check(chk, thorough=False):
    tree = chk.tree
    chk.run('C01.a', 'R-WHO', 'pending-start queue is appended at the tail and consumed only from the head', lambda ob: c01a(tree, ob), floor=2)
    chk.run('C01.b', 'R-FLOW', 'the three byte buffers are only appended to and prefix-dropped by exactly what was handed on', lambda ob: c01b(tree, ob), floor=7)
    chk.run('C01.c', 'R-GUARD+R-FLOW', 'segmenter: one read of the active item, START iff nothing sent before, END iff all sent after, one active transfer', lambda ob: c01c(tree, ob), floor=7)
    chk.run('C01.d', 'R-ORDER+R-GUARD', 'receiver: setup only on START, mismatch rejected before any write, delivery only under END and of the written item', lambda ob: (c01d(tree, ob), _start_guard(tree, ob)), floor=7)
    chk.run('C01.e', 'R-GUARD+R-WHO', "'success' is signalled for a sent bundle only in the ACK handler under END", lambda ob: c01e(tree, ob), floor=1)
    chk.run('C01.f', 'R-ORDER', 'every path from send_bundle_started to a return sends a segment or re-arms the queue', lambda ob: c01f(tree, ob), floor=1)
    chk.run('C01.j', 'R-FLOW', 'the send entry queues a file over exactly the octets passed in (byte-array conversion only)', lambda ob: __import__('sa.props.common', fromlist=['entry_fidelity']).entry_fidelity(tree, ob, 'tcpcl/session.py', 'ContactHandler.send_bundle_data'), floor=1)
    chk.run('C01.l', 'R-PAIR', 'octets that follow a message in the same read are the next message: every probe class strips the padding layer (= C07.g)', lambda ob: __import__('sa.props.c07', fromlist=['c07g']).c07g(tree, ob), floor=3)
    chk.run('C01.k', 'R-NOPATH', 'a readable socket is read: the receive callback has no path back to the event loop that skips recv() and asks to be called again (the watch is level-triggered; not reading means spinning, and with both ends waiting to write first, deadlock)', lambda ob: c01k(tree, ob), floor=1)
    chk.run('C01.m', 'R-FLOW', 'a peer message about one transfer never interrupts another: the transfer being sent is torn down only when it is the one named (= C17.e)', lambda ob: __import__('sa.props.c17', fromlist=['c17e']).c17e(tree, ob), floor=4)
    chk.run('C01.n', 'R-NOPATH', 'a message that is still arriving is waited for: the partial arm of the receive loop leaves buffer, state and connection alone (= C07.a)', lambda ob: __import__('sa.props.c07', fromlist=['c07a']).c07a(tree, ob), floor=4)
    chk.run('C01.i', 'R-GUARD', 'back-pressure is not taken for a dead connection: a send that would block keeps the octets and the connection', lambda ob: c01i(tree, ob), floor=2)
    chk.run('C01.g', 'R-WHO', 'the active-transfer state of each direction is written only by its own setup / teardown / pump functions', lambda ob: c01g(tree, ob), floor=6)
    chk.run('C01.o', 'R-ESCAPE', 'no exception escapes the handlers of the receive callback: a KeyError / ValueError out of the acknowledgement handler ends reception, later bundles are never received (= C17.a)', lambda ob: __import__('sa.props.c17', fromlist=['c17a']).c17a(tree, ob), floor=6)
    chk.run('C01.p', 'R-GUARD', 'the TX step is scheduled whenever a bundle is queued, whatever the session state (the step itself waits for the session): a bundle queued while negotiating is sent once the session is up', lambda ob: __import__('sa.props.common', fromlist=['tx_trigger_whenever_nonempty']).tx_trigger_whenever_nonempty(tree, ob, 'tcpcl/session.py', 'ContactHandler._process_queue_trigger', 'self._tx_pend_start', 'self._process_queue', allowed=(('self._process_queue_pend is None', True), ('self._process_queue_pend is not None', False), ('self._process_queue_pend', False))), floor=1)
    chk.run('C01.q', 'R-GUARD', 'a transfer in progress is finished although SESS_TERM went by: the segment / acknowledgement handlers never refuse because of the termination flags', lambda ob: __import__('sa.props.common', fromlist=['transfers_outlive_sess_term']).transfers_outlive_sess_term(tree, ob), floor=1)
    chk.run('C01.r', 'R-WHO', 'bundles are queued for the application in the order they completed: an entry of the receive queue is made only when a transfer completes', lambda ob: __import__('sa.props.common', fromlist=['rx_map_inserted_on_completion_only']).rx_map_inserted_on_completion_only(tree, ob), floor=1)
    chk.run('C01.s', 'R-CLAMP', 'the size a segment is read with is a whole number within the peer MRU on every write of it (a float size stalls the transfer in mid-bundle) (= C04.e)', lambda ob: __import__('sa.props.c04', fromlist=['c04e']).c04e(tree, ob), floor=2)
    chk.run('C01.h', 'R-SCHEMA', 'segment data and extension lengths are verified against what was read, also when empty (= C07.c)', lambda ob: _c07c(tree, ob), floor=6)


def _c07c(tree, ob):
    from .c07 import c07c
    return c07c(tree, ob)


WRITERS = {
    # attribute -> functions of ContactHandler allowed to write it
    '_tx_tmp': {'__init__', '_process_queue', '_tx_teardown'},
    '_tx_length': {'__init__', '_process_queue', '_tx_teardown'},
    '_rx_tmp': {'__init__', '_rx_setup', '_rx_teardown'},
    '_tx_next_id': {'__init__', 'next_id'},
}


def _start_guard(tree, ob):
    from .c17 import c17d_start
    return c17d_start(tree, ob)


def c01g(tree, ob):
    from .common import per_instance_state
    per_instance_state(tree, ob, SESS, ('Connection', 'Messenger', 'ContactHandler'))
    cls = tree.klass(SESS, 'ContactHandler')
    for attr, allowed in WRITERS.items():
        stores = stores_to_self_attr(cls, attr)
        ob.require(stores, 'no writes to ' + attr)
        for (func, stmt, kind, val) in stores:
            if func.name in allowed:
                ob.site(SESS, stmt, '{} written in {}'.format(attr, func.name))
            elif func.name == 'close' and isinstance(val, ast.Constant) and val.value is None:
                # the end of the connection is the end of both directions: clearing (never setting) the state there is teardown
                ob.site(SESS, stmt, '{} cleared in close()'.format(attr))
            else:
                ob.violate(SESS, 'ContactHandler.' + func.name, src(stmt), '{} state ({}) is written from {}, which belongs to the other direction / another phase: '
                           'an unrelated event can wreck the transfer in progress'.format('TX' if attr.startswith('_tx') else 'RX', attr, func.name), stmt)


# ---------------------------------------------------------------- C01.a
def c01a(tree, ob):
    cls = tree.klass(SESS, 'ContactHandler')
    # what the queue queries hand out is the map in its own (insertion = arrival) order
    for qn in ('recv_bundle_get_queue', 'send_bundle_get_queue'):
        got = tree.find_method(SESS, 'ContactHandler', qn)
        if not got:
            continue
        for r in [x for x in walk_local(got[2]) if isinstance(x, ast.Return) and x.value is not None]:
            reord = [c for c in calls_in(r) if (call_name(c) or '').split('.')[-1] in ('sorted', 'reversed', 'set', 'frozenset', 'sort')]
            if reord:
                ob.violate(SESS, 'ContactHandler.' + qn, src(r)[:80], 'the queue is handed out re-ordered ({}): bundles are taken in another order than they arrived (as text, "10" sorts before "2")'.format(
                    call_name(reord[0])), r)
            else:
                ob.site(SESS, r, qn + ' lists the map in arrival order')
    nappend = npop = 0
    for item in cls.body:
        if not isinstance(item, ast.FunctionDef):
            continue
        for use in uses_of_self_attr(item, '_tx_pend_start'):
            par = use._parent
            qual = 'ContactHandler.' + item.name
            if isinstance(par, ast.Attribute) and isinstance(par._parent, ast.Call) and par._parent.func is par:
                call = par._parent
                meth = par.attr
                if meth == 'append':
                    nappend += 1
                    ob.site(SESS, call, 'append in ' + qual)
                elif meth in ('pop',):
                    if len(call.args) == 1 and isinstance(call.args[0], ast.Constant) and call.args[0].value == 0:
                        npop += 1
                        ob.site(SESS, call, 'pop(0) in ' + qual)
                    else:
                        ob.violate(SESS, qual, src(call), 'queue consumed from somewhere other than the head', call)
                elif meth == 'popleft':
                    npop += 1
                    ob.site(SESS, call, 'popleft in ' + qual)
                elif meth == 'remove':
                    # removing one element keeps the order of the rest; inside a loop over the same queue it skips elements
                    loop = enclosing(call, (ast.For,))
                    if loop is not None and '_tx_pend_start' in src(loop.iter) and not (isinstance(loop.iter, ast.Call) and dotted(loop.iter.func) in ('list', 'tuple')):
                        ob.violate(SESS, qual, src(call), 'queue is mutated by remove() while being iterated: elements are skipped', call)
                    else:
                        ob.site(SESS, call, 'remove(item) in ' + qual)
                elif meth in ('insert', 'sort', 'reverse', 'appendleft'):
                    ob.violate(SESS, qual, src(call), 'queue order disturbed by {}()'.format(meth), call)
                elif meth in ('extend', 'copy', 'index', 'count', '__len__'):
                    ob.site(SESS, call, meth + ' in ' + qual)
                else:
                    raise AnalysisError('C01.a: unrecognised queue operation {} in {}'.format(src(call), qual))
            elif isinstance(par, (ast.Assign, ast.AnnAssign)) and (use in getattr(par, 'targets', []) or use is getattr(par, 'target', None)):
                if item.name == '__init__' and pm('[]', par.value) is not None:
                    ob.site(SESS, par, 'initialised empty in __init__')
                else:
                    ob.violate(SESS, qual, src(par), 'queue replaced outside initialisation', par)
            elif isinstance(par, (ast.Subscript,)) and isinstance(par.ctx, (ast.Store, ast.Del)):
                ob.violate(SESS, qual, src(par._parent), 'queue element overwritten/deleted by index', par)
            elif isinstance(par, ast.AugAssign):
                raise AnalysisError('C01.a: unrecognised augmented write to the queue in ' + qual)
            else:
                # reads: truthiness, len(), iteration, indexing for read
                ob.site(SESS, use, 'read in ' + qual)
    ob.require(nappend >= 1, 'no append site found')
    ob.require(npop >= 1, 'no head-consume site found')
    # the active item comes from the head of the queue
    fv = FuncView(tree, SESS, 'ContactHandler._process_queue')
    takes = [st for (_f, st, _k, val) in stores_to_self_attr(cls, '_tx_tmp')
             if _f.name == '_process_queue' and not (isinstance(val, ast.Constant) and val.value is None)]
    take = one(takes, 'assignment of the active TX item in _process_queue', ob)
    if pm('self._tx_pend_start.pop(0)', take.value) is None and pm('self._tx_pend_start.popleft()', take.value) is None:
        ob.violate(SESS, fv.qual, src(take), 'active TX item is not taken from the head of the pending queue', take)


# ---------------------------------------------------------------- C01.b
def _buffer_sites(tree, clsname, attr):
    cls = tree.klass(SESS, clsname)
    return cls, stores_to_self_attr(cls, attr)


def c01b(tree, ob):
    for (clsname, attr) in (('Connection', '__tx_buf'), ('Messenger', '__tx_buf'), ('Messenger', '__rx_buf')):
        cls, stores = _buffer_sites(tree, clsname, attr)
        label = '{}.{}'.format(clsname, attr)
        ob.require(stores, 'no writes to ' + label)
        buf = 'self.' + attr
        for (func, stmt, kind, val) in stores:
            qual = clsname + '.' + func.name
            if kind == 'aug':
                if not isinstance(stmt.op, ast.Add):
                    ob.violate(SESS, qual, src(stmt), 'buffer modified by an operator other than append', stmt)
                    continue
                _check_append(tree, ob, clsname, attr, func, stmt, val)
            elif kind == 'assign':
                if isinstance(val, ast.Constant) and val.value == b'':
                    if func.name == '__init__':
                        ob.site(SESS, stmt, 'init ' + label)
                    elif FuncView(tree, SESS, qual).has(stmt, 'self.get_app_socket() is None', True):
                        # the connection was closed (by the handler just run): what else was read is void
                        ob.site(SESS, stmt, 'reset of {} only once the connection is closed'.format(label))
                    else:
                        ob.violate(SESS, qual, src(stmt), 'buffer reset outside initialisation discards queued octets', stmt)
                    continue
                got = pm(buf + '[$n:]', val)
                if got is None:
                    if pm(buf + ' + $x', val) is not None:
                        _check_append(tree, ob, clsname, attr, func, stmt, val.right)
                        continue
                    if pm('$x + ' + buf, val) is not None:
                        ob.violate(SESS, qual, src(stmt), 'octets are inserted at the head of a FIFO byte buffer: they can land in the middle of a message that was '
                                   'already partly handed to the socket, and they overtake queued messages', stmt)
                        continue
                    raise AnalysisError('C01.b: unrecognised write to {}: {}'.format(label, src(stmt)))
                _check_drop(tree, ob, clsname, attr, func, stmt, got['n'])
            else:
                ob.violate(SESS, qual, src(stmt), 'buffer deleted', stmt)
    # send_raw hands on exactly the prefix it drops
    fv = FuncView(tree, SESS, 'Messenger.send_raw')
    rets = [r for r in walk_local(fv.func) if isinstance(r, ast.Return)]
    ret = one(rets, 'return in Messenger.send_raw', ob)
    val = norm.inline(fv.func, ret.value)
    if pm('self.__tx_buf[:$k]', val) is None:
        ob.violate(SESS, fv.qual, src(ret), 'send_raw does not return the prefix of the message buffer', ret)
    else:
        ob.site(SESS, ret, 'send_raw returns the dropped prefix')


def _check_append(tree, ob, clsname, attr, func, stmt, val):
    qual = clsname + '.' + func.name
    fv = FuncView(tree, SESS, qual)
    inl = fv.value_at(val, stmt)
    if clsname == 'Connection':
        ok = pm('self.send_raw($n)', inl) is not None
        want = 'the return of send_raw()'
    elif attr == '__rx_buf':
        ok = isinstance(inl, ast.Name) and norm.is_param(func, inl.id) and fv.reaching_defs(inl.id, stmt) == [(None, None)] and func.name == 'recv_raw'
        want = "recv_raw's own data parameter"
    else:
        got = pm('bytes($p)', inl)
        ok = got is not None and isinstance(got['p'], ast.Name) and norm.is_param(func, got['p'].id) and fv.reaching_defs(got['p'].id, stmt) == [(None, None)]
        want = "the encoding of send_message's packet parameter"
    if ok:
        ob.site(SESS, stmt, 'append {} to {}.{}'.format(want, clsname, attr))
    else:
        ob.violate(SESS, qual, src(stmt), 'appended value is not ' + want, stmt)


def _check_drop(tree, ob, clsname, attr, func, stmt, n):
    qual = clsname + '.' + func.name
    buf = 'self.' + attr
    fv = FuncView(tree, SESS, qual)
    if isinstance(n, ast.BinOp):
        ob.violate(SESS, qual, src(stmt), 'dropped length carries an arithmetic adjustment', stmt)
        return
    # (i)/(iii) len(V)
    got = pm('len($v)', n)
    if got is not None and isinstance(got['v'], ast.Name):
        rd = fv.reaching_defs(got['v'].id, stmt)
        if len(rd) == 1 and rd[0][1] is not None:
            (vstmt, vdef) = rd[0]
            if isinstance(vdef, ast.expr):
                vdef = fv.value_at(vdef, vstmt)     # see through plain temporaries
            if pm(buf + '[:$k]', vdef) is not None:
                vname = got['v'].id
                partial = [c for c in calls_in(func) if isinstance(c.func, ast.Attribute) and c.func.attr in ('send', 'write', 'sendall', 'sendto')
                           and any(isinstance(a, ast.Name) and a.id == vname for a in c.args)]
                returned = [r for r in walk_local(func) if isinstance(r, ast.Return) and isinstance(r.value, ast.Name) and r.value.id == vname]
                if partial:
                    ob.violate(SESS, qual, src(stmt), 'the prefix is handed to {}() which may accept fewer octets, but its whole length is dropped'.format(partial[0].func.attr), stmt)
                elif not returned:
                    ob.violate(SESS, qual, src(stmt), 'the dropped prefix is not handed on (returned) by this function', stmt)
                elif not _rewritten_between(fv, vstmt, stmt, attr):
                    ob.site(SESS, stmt, 'drop len(V), V = prefix of the same buffer')
                else:
                    ob.violate(SESS, qual, src(stmt), 'buffer is rewritten between taking the prefix and dropping its length', stmt)
                return
            got2 = pm('bytes($p)', vdef)
            if got2 is not None:
                decoded = pm('$cls(' + buf + ')', got2['p']) is not None
                if not decoded and isinstance(got2['p'], ast.Name):
                    prd = fv.reaching_defs(got2['p'].id, vstmt)
                    decoded = len(prd) == 1 and prd[0][1] is not None and pm('$cls(' + buf + ')', prd[0][1]) is not None
                if decoded:
                    # re-encoded length of a packet decoded from this very buffer; no drop on the partial path
                    for handler in [n_ for n_ in walk_local(func) if isinstance(n_, ast.ExceptHandler)]:
                        names = [dotted(handler.type) or ''] if handler.type is not None else ['']
                        if any('VerifyError' in nm for nm in names):
                            hn = fv.cfg.node_of(handler)
                            if fv.node(stmt) in fv.cfg.reachable([hn]):
                                ob.violate(SESS, qual, src(stmt), 'buffer consumed on the partial-message (VerifyError) path', stmt)
                                return
                    ob.site(SESS, stmt, 'drop len(bytes(pkt)), pkt decoded from the same buffer')
                    return
        ob.violate(SESS, qual, src(stmt), 'dropped length len({}) is not the length of what was taken from this buffer'.format(got['v'].id), stmt)
        return
    # (ii) n = sock.send(V) with V = B[:k], under n truthy
    if isinstance(n, ast.Name):
        rd = fv.reaching_defs(n.id, stmt)
        live = [d for d in rd if not (d[1] is not None and isinstance(d[1], ast.Constant) and d[1].value is None)]
        sends = [d for d in live if d[1] is not None and pm('$s.send($v)', d[1]) is not None]
        if live and len(sends) == len(live):
            for (sstmt, sval) in sends:
                varg = pm('$s.send($v)', sval)['v']
                vval = fv.value_at(varg, sstmt)
                if pm(buf + '[:$k]', vval) is None:
                    ob.violate(SESS, qual, src(stmt), 'the octets handed to send() are not a prefix of this buffer', stmt)
                    return
            if len(live) != len(rd) and not fv.has(stmt, n.id, True):
                ob.violate(SESS, qual, src(stmt), 'drop by send() result is not guarded by the result being a positive count', stmt)
                return
            ob.site(SESS, stmt, 'drop n = sock.send(prefix)' + (' under n truthy' if len(live) != len(rd) else ''))
            return
        ob.violate(SESS, qual, src(stmt), 'dropped count is not the result of sending a prefix of this buffer', stmt)
        return
    raise AnalysisError('C01.b: unrecognised drop length {} in {}'.format(src(n), qual))


def _rewritten_between(fv, a_stmt, b_stmt, attr):
    ''' Is the buffer written on some path strictly between a and b? '''
    a = fv.node(a_stmt)
    b = fv.node(b_stmt)
    after_a = fv.cfg.reachable([a])
    for node in after_a:
        if node is b or node.kind != 'stmt':
            continue
        if b in fv.cfg.reachable([node]) or node is b:
            if any(nm == 'self.' + attr for nm in norm.written_names(node.ast)):
                return True
    return False


# ---------------------------------------------------------------- C01.c
def c01c(tree, ob):
    fv = FuncView(tree, SESS, 'ContactHandler._process_queue')
    func = fv.func
    reads = [c for c in calls_in(func) if pm('self._tx_tmp.file.read($n)', c) is not None]
    allreads = [c for c in calls_in(func) if isinstance(c.func, ast.Attribute) and c.func.attr == 'read']
    if len(allreads) != 1 or len(reads) != 1:
        ob.violate(SESS, fv.qual, '; '.join(src(c) for c in allreads), 'segment data is not exactly one read of the active item', allreads[0] if allreads else func)
        return
    read = reads[0]
    if pm('self._tx_tmp.file.read(self._send_segment_size)', read) is None:
        ob.violate(SESS, fv.qual, src(read), 'segment read is not sized by the negotiated send segment size', read)
    else:
        ob.site(SESS, read, 'one read(self._send_segment_size) of the active item')
    rstmt = read._parent
    ob.require(isinstance(rstmt, ast.Assign) and len(rstmt.targets) == 1 and isinstance(rstmt.targets[0], ast.Name), 'read result is not bound to a local')
    dname = rstmt.targets[0].id
    ob.require(len(norm.local_assigns(func, dname)) == 1, 'segment data local is assigned more than once')

    # cumulative length advanced by len(data)
    advs = [st for (_f, st, kind, val) in stores_to_self_attr(tree.klass(SESS, 'ContactHandler'), '_tx_length') if _f is func and kind == 'aug']
    adv = one(advs, 'advance of the cumulative TX length', ob)
    if not isinstance(adv.op, ast.Add) or pm('len({})'.format(dname), adv.value) is None:
        ob.violate(SESS, fv.qual, src(adv), 'cumulative length is not advanced by the length of the segment just read', adv)
    else:
        ob.site(SESS, adv, 'cumulative += len(data)')
    if not fv.dominates(rstmt, adv)[0]:
        ob.violate(SESS, fv.qual, src(adv), 'advance is not preceded by the read on every path', adv)

    # flag word
    flag_sets = [n for n in walk_local(func) if isinstance(n, ast.AugAssign) and isinstance(n.op, ast.BitOr) and isinstance(n.target, ast.Name)]
    start_sets = [n for n in flag_sets if src(n.value).endswith('Flag.START')]
    end_sets = [n for n in flag_sets if src(n.value).endswith('Flag.END')]
    sst = one(start_sets, 'START flag set', ob)
    est = one(end_sets, 'END flag set', ob)
    fname = sst.target.id
    ob.require(est.target.id == fname, 'START and END set on different variables')
    other = [st for (st, _v) in norm.local_assigns(func, fname) if st is not sst and st is not est]
    for st in other:
        if not (isinstance(st, ast.Assign) and isinstance(st.value, ast.Constant) and st.value.value == 0):
            ob.violate(SESS, fv.qual, src(st), 'flag word has a writer other than 0 / START / END', st)
    # START iff cumulative length was 0 before the read
    if not fv.has(sst, 'self._tx_length == 0', True):
        ob.violate(SESS, fv.qual, src(sst), 'START is not conditional on "nothing sent yet" (self._tx_length == 0)', sst)
    elif fv.node(sst) in fv.cfg.reachable([fv.node(adv)]):
        ob.violate(SESS, fv.qual, src(sst), 'START is decided after the cumulative length was advanced', sst)
    else:
        ob.site(SESS, sst, 'START under _tx_length == 0, before the advance')
    # the START set is the only thing controlled: START must be set on every path where length==0 (if-form)
    scond = fv.node(sst)
    # END iff cumulative == total after the advance
    short_read = fv.has(est, 'len({}) < self._send_segment_size'.format(dname), True)
    if short_read:
        # alternative idiom: END on a short read.  Correct only if a transfer whose octets are all sent but which has
        # not sent END yet always gets another (empty) segment: no path for an active transfer may return without sending.
        conds = [n for n in fv.cfg.nodes if n.kind == 'cond' and norm.atom(n.ast) == ('self._tx_tmp is None', True)]
        cuts = {(c.idx, s.idx, lab) for c in conds for (s, lab) in c.succ if lab is True}
        sends = {fv.node(c) for c in method_calls(func, 'send_xfer_data', 'self')}
        stuck = fv.cfg.exit in fv.cfg.reachable([fv.cfg.entry], avoid=sends, avoid_edges=cuts, include_exc=False)
        if stuck or not conds:
            ob.violate(SESS, fv.qual, src(est), 'END is decided by a short read, but an active transfer can return without sending: a bundle whose length is an exact '
                       'multiple of the segment size never gets its END segment', est)
        else:
            ob.site(SESS, est, 'END on a short read; an active transfer always sends (a full final segment is followed by an empty END segment)')
    elif not fv.has(est, 'self._tx_length == self._tx_tmp.total_length', True):
        ob.violate(SESS, fv.qual, src(est), 'END is not conditional on cumulative == total length', est)
    elif not fv.dominates(adv, est)[0]:
        ob.violate(SESS, fv.qual, src(est), 'END is decided before the cumulative length was advanced', est)
    else:
        ob.site(SESS, est, 'END under cumulative == total, after the advance')

    # the send
    sends = method_calls(func, 'send_xfer_data', 'self')
    send = one(sends, 'send_xfer_data call', ob)
    want = ['self._tx_tmp.transfer_id', dname, fname]
    got = [src(a) for a in send.args[:3]]
    if got != want:
        ob.violate(SESS, fv.qual, src(send), 'segment is sent with {} instead of (active id, the data read, the flag word)'.format(got), send)
    else:
        ob.site(SESS, send, 'send_xfer_data(active id, data, flags)')
    for st in (sst, est, adv, rstmt):
        if not fv.dominates(st, send)[0] and st not in (sst, est):
            ob.violate(SESS, fv.qual, src(send), 'send is not preceded by {}'.format(src(st)), send)
    # both flag decisions precede the send
    for st in (sst, est):
        if fv.node(st) in fv.cfg.reachable([fv.node(send)]):
            ob.violate(SESS, fv.qual, src(st), 'flag is set after the segment was sent', st)

    # one transfer at a time
    takes = [(st, val) for (_f, st, _k, val) in stores_to_self_attr(tree.klass(SESS, 'ContactHandler'), '_tx_tmp')
             if _f is func and not (isinstance(val, ast.Constant) and val.value is None)]
    for (st, _val) in takes:
        if fv.has(st, 'self._tx_tmp is None', True):
            ob.site(SESS, st, 'active item taken only when none is active')
        else:
            ob.violate(SESS, fv.qual, src(st), 'a new transfer can be started while another is active', st)
    # teardown only under END
    for call in method_calls(func, '_tx_teardown', 'self'):
        if fv.holds_any(call, [('{} & messages.TransferSegment.Flag.END'.format(fname), True)]):
            ob.site(SESS, call, 'teardown only after the END segment')
        else:
            ob.violate(SESS, fv.qual, src(call), 'active transfer torn down without END having been sent', call)
    tx_measure(tree, ob, fv, rstmt)


def _measure_idiom(ob, fv, rel, prefix, tail=None):
    ''' seek(0, END); <prefix>.total_length = <prefix>.file.tell(); seek(0) -- in this order, the rewind on every path
    from the measurement to `tail` (or to the end of the function) '''
    func = fv.func
    tl = [st for st in walk_local(func) if isinstance(st, ast.Assign) and src(st.targets[0]) == prefix + '.total_length']
    st = one(tl, 'total_length assignment', ob)
    if pm(prefix + '.file.tell()', st.value) is None:
        ob.violate(rel, fv.qual, src(st), 'total length is not taken from the file position at end', st)
        return
    stale = [(t, p) for (t, p) in (fv.facts(st) or ()) if 'total_length' in t]
    if stale:
        ob.violate(rel, fv.qual, '{} only when {}{}'.format(src(st)[:50], '' if stale[0][1] else 'not ', stale[0][0]), 'the file is measured only if no length is on record: a length remembered from the time the bundle '
                   'was queued is announced for a file that has changed since (START carries the wrong total length, END never comes)', st, sure=True)
        return
    seeks = [c for c in calls_in(func) if pm(prefix + '.file.seek(0, os.SEEK_END)', c) is not None or pm(prefix + '.file.seek(0, 2)', c) is not None]
    rewinds = [c for c in calls_in(func) if pm(prefix + '.file.seek(0)', c) is not None or pm(prefix + '.file.seek(0, 0)', c) is not None or pm(prefix + '.file.seek(0, os.SEEK_SET)', c) is not None]
    goal = fv.node(tail) if tail is not None else fv.cfg.exit
    if not seeks or not fv.dominates(seeks[0], st)[0]:
        ob.violate(rel, fv.qual, src(st), 'total length is measured without seeking to the end first', st)
    elif not rewinds or not fv.cfg.must_pass(fv.node(st), goal, {fv.node(r) for r in rewinds}, include_exc=False)[0]:
        ob.violate(rel, fv.qual, src(st), 'the file is not rewound to its start between measuring and reading: a file handed over at a non-zero position is announced with its '
                   'full length and read from the middle (or from its end: the transfer never reaches its announced length and never ends)', st)
    else:
        ob.site(rel, st, 'total = size of the file, rewound to 0 before reading')


def tx_measure(tree, ob, fv=None, rstmt=None):
    ''' total length is the file size; the measurement may live in _process_queue or in a BundleItem method it calls '''
    if fv is None:
        fv = FuncView(tree, SESS, 'ContactHandler._process_queue')
        reads = [n for n in walk_local(fv.func) if isinstance(n, ast.Assign) and pm('self._tx_tmp.file.read($n)', n.value) is not None]
        rstmt = one(reads, 'segment read in _process_queue', ob)
    func = fv.func
    direct = [st for st in walk_local(func) if isinstance(st, ast.Assign) and src(st.targets[0]) == 'self._tx_tmp.total_length']
    if direct:
        _measure_idiom(ob, fv, SESS, 'self._tx_tmp', rstmt)
        return
    item_cls = tree.klass(SESS, 'BundleItem')
    helpers = {m.name for m in item_cls.body if isinstance(m, ast.FunctionDef)}
    calls = [c for c in calls_in(func) if isinstance(c.func, ast.Attribute) and src(c.func.value) == 'self._tx_tmp' and c.func.attr in helpers]
    measuring = []
    for c in calls:
        hv = FuncView(tree, SESS, 'BundleItem.' + c.func.attr)
        if any(isinstance(x, ast.Assign) and src(x.targets[0]) == 'self.total_length' for x in walk_local(hv.func)):
            measuring.append((c, hv))
    (c, hv) = one(measuring, 'measurement of the file to send (direct or through a BundleItem method)', ob)
    _measure_idiom(ob, hv, SESS, 'self')

# ---------------------------------------------------------------- C01.d
def c01d(tree, ob):
    fv = FuncView(tree, SESS, 'ContactHandler.recv_xfer_data')
    func = fv.func
    params = [a.arg for a in func.args.args]
    ob.require(params[:5] == ['self', 'transfer_id', 'flags', 'data', 'ext_items'], 'handler signature changed: {}'.format(params))
    for nm in ('transfer_id', 'flags', 'data'):
        ob.require(not norm.local_assigns(func, nm), 'parameter {} is reassigned'.format(nm))

    setups = method_calls(func, '_rx_setup', 'self')
    setup = one(setups, '_rx_setup call', ob)
    if not fv.has(setup, START, True):
        ob.violate(SESS, fv.qual, src(setup), 'a new RX transfer is set up without the START flag', setup)
    elif src(setup.args[0]) != 'transfer_id':
        ob.violate(SESS, fv.qual, src(setup), 'RX transfer is set up under an id other than the segment id', setup)
    else:
        ob.site(SESS, setup, '_rx_setup(transfer_id) only under START')

    writes = [c for c in calls_in(func) if isinstance(c.func, ast.Attribute) and c.func.attr == 'write']
    write = one(writes, 'file write', ob)
    if pm('self._rx_tmp.file.write(data)', write) is None:
        ob.violate(SESS, fv.qual, src(write), 'the segment written is not the handler\'s own data into the active RX item', write)
    else:
        ob.site(SESS, write, 'write(data) into the active item')
    # every START path sets up; every non-START path has a verified match before the write
    snode = fv.node(setup)
    facts = fv.facts(write, avoid=[snode])
    if facts is not None:
        need = [('self._rx_tmp is None', False), ('self._rx_tmp.transfer_id == transfer_id', True)]
        missing = [f for f in need if f not in facts]
        if (START, False) not in facts:
            ob.violate(SESS, fv.qual, src(write), 'a START segment can reach the write without setting up a fresh RX item', write)
        elif missing:
            ob.violate(SESS, fv.qual, src(write), 'a non-START segment reaches the write without {} being established'.format(
                ' and '.join('{}{}'.format('' if p else 'not ', t) for (t, p) in missing)), write)
        else:
            ob.site(SESS, write, 'non-START: active item exists and ids match before the write (else RejectError)')
    else:
        ob.site(SESS, write, 'write reachable only through setup')
    # the mismatch raises RejectError
    raises = [n for n in walk_local(func) if isinstance(n, ast.Raise)]
    rej = [r for r in raises if r.exc is not None and 'RejectError' in src(r.exc)]
    ob.require(rej, 'no RejectError raise in recv_xfer_data')
    for r in rej:
        if fv.node(r) in fv.cfg.reachable([fv.node(write)]):
            ob.violate(SESS, fv.qual, src(r), 'rejection happens after data was already written', r)

    # ACKs
    acks = method_calls(func, 'send_xfer_ack', 'self')
    at_least(acks, 2, 'send_xfer_ack calls', ob)
    # delivery block
    appends = [c for c in calls_in(func) if pm('self._rx_bundles.append($x)', c) is not None]
    app = one(appends, '_rx_bundles.append', ob)
    maps = [n for n in walk_local(func) if isinstance(n, ast.Assign) and pm('self._rx_map[$k]', n.targets[0]) is not None]
    mp = one(maps, '_rx_map store', ob)
    # (the emit that reports an abandoned reception - result other than 'success' - is not a delivery)
    fins = [f for f in method_calls(func, 'recv_bundle_finished', 'self') if not (len(f.args) > 2 and const_str(f.args[2]) not in (None, 'success'))]
    fin = one(fins, 'recv_bundle_finished emit', ob)
    for site in acks + [app, mp, fin]:
        ok, wit = fv.dominates(write, site)
        if not ok:
            ob.violate(SESS, fv.qual, src(site), 'reachable without the segment having been written', site, path_text(wit))
    for site in (app, mp, fin):
        if not fv.has(site, END, True):
            ob.violate(SESS, fv.qual, src(site), 'delivery is not conditional on the END flag', site)
        else:
            ob.site(SESS, site, 'delivery under END')
    # the delivered item is the one written
    item = app.args[0]
    item_val = fv.value_at(item, app, keep=('transfer_id',))
    if src(item_val) != 'self._rx_tmp':
        ob.violate(SESS, fv.qual, src(app), 'queued item is not the active RX item', app)
    mkey = pm('self._rx_map[$k]', mp.targets[0])['k']
    if src(fv.value_at(mp.value, mp, keep=('transfer_id',))) != 'self._rx_tmp' or src(fv.value_at(mkey, mp, keep=('transfer_id',))) not in ('self._rx_tmp.transfer_id', 'transfer_id'):
        ob.violate(SESS, fv.qual, src(mp), 'RX map entry is not (id of the active item -> the active item)', mp)
    if const_str(fin.args[2]) != 'success' if len(fin.args) > 2 else True:
        ob.violate(SESS, fv.qual, src(fin), 'completed transfer not announced as success', fin)
    # teardown follows delivery
    tds = method_calls(func, '_rx_teardown', 'self')
    ob.require(tds, 'no _rx_teardown call')
    ok, wit = fv.cfg.must_pass(fv.node(fin), fv.cfg.exit, {fv.node(t) for t in tds}, include_exc=False)
    if not ok:
        ob.violate(SESS, fv.qual, src(fin), 'delivery is not followed by clearing the active RX item on every normal path', fin, path_text(wit))
    setups = {fv.node(c) for c in method_calls(func, '_rx_setup', 'self')}
    for t in tds:
        if not fv.has(t, END, True):
            # the one other legitimate clearing: a START replaces a reception the sender gave up - reported as not
            # successful, and a fresh setup follows on every path
            emits = {fv.node(f) for f in method_calls(func, 'recv_bundle_finished', 'self') if len(f.args) > 2 and const_str(f.args[2]) not in (None, 'success')}
            if fv.has(t, START, True) and setups and fv.cfg.must_pass(fv.node(t), fv.cfg.exit, setups, include_exc=False)[0] and emits and \
                    fv.cfg.must_pass(fv.node(t), fv.cfg.exit, emits, include_exc=False)[0]:
                ob.site(SESS, t, 'abandoned reception cleared under START, reported as not successful, fresh setup follows')
                continue
            ob.violate(SESS, fv.qual, src(t), 'active RX item cleared without END', t)
        elif fv.node(app) in fv.cfg.reachable([fv.node(t)]):
            ob.violate(SESS, fv.qual, src(t), 'active RX item cleared before it was queued', t)
        else:
            ob.site(SESS, t, 'teardown after delivery')


# ---------------------------------------------------------------- C01.e
def c01e(tree, ob):
    cls = tree.klass(SESS, 'ContactHandler')
    nfound = 0
    for item in cls.body:
        if not isinstance(item, ast.FunctionDef):
            continue
        for call in method_calls(item, 'send_bundle_finished', 'self'):
            if len(call.args) >= 3 and const_str(call.args[2]) == 'success':
                nfound += 1
                qual = 'ContactHandler.' + item.name
                if item.name != 'recv_xfer_ack':
                    ob.violate(SESS, qual, src(call), "'success' signalled outside the ACK handler", call)
                    continue
                fv = FuncView(tree, SESS, qual)
                if not fv.has(call, END, True):
                    ob.violate(SESS, qual, src(call), "'success' signalled for an ACK without the END flag", call)
                else:
                    ob.site(SESS, call, "success only under END in recv_xfer_ack")
                # the item is the one looked up by the peer-echoed id
                idarg = fv.value_at(call.args[0], call)
                if pm('str(self._tx_map[transfer_id].transfer_id)', idarg) is None and pm('str(transfer_id)', idarg) is None \
                        and pm('str(self._tx_map.get(transfer_id).transfer_id)', idarg) is None:
                    ob.violate(SESS, qual, src(call), 'the transfer reported successful is not the one named by the ACK', call)
    ob.require(nfound >= 1, "no 'success' emit site for sent bundles")


# ---------------------------------------------------------------- C01.f
def c01f(tree, ob):
    # _process_queue sends ONE segment per call and relies on send_buffer_decreased to be triggered again: the trigger must
    # fire at the latest when the buffer is empty, for every segment size >= 1
    fb = FuncView(tree, SESS, 'ContactHandler.send_buffer_decreased')
    trig = method_calls(fb.func, '_process_queue_trigger', 'self')
    for t in trig:
        conds = [(tx, p) for (tx, p) in (fb.facts(t) or ()) if tx.startswith('buf_use <')]
        bad = None
        for (tx, p) in conds:
            rhs = ast.parse(tx, mode='eval').body.comparators[0]
            if p is True and any(isinstance(n, ast.BinOp) and isinstance(n.op, (ast.FloorDiv, ast.Div, ast.Sub, ast.RShift, ast.Mod)) for n in ast.walk(rhs)):
                bad = tx
        if bad:
            ob.violate(SESS, fb.qual, 'if ' + bad, 'the refill threshold can be 0 (segment size 1): with an empty buffer the pump is not triggered again, a transfer of more than one segment '
                       'stalls after its first segment and blocks the queue', t)
        else:
            ob.site(SESS, t, 'refill threshold is positive for every segment size')
    fv = FuncView(tree, SESS, 'ContactHandler._process_queue')
    func = fv.func
    starts = method_calls(func, 'send_bundle_started', 'self')
    start = one(starts, 'send_bundle_started emit', ob)
    progress = set()
    for name in ('send_xfer_data', '_process_queue_trigger', '_tx_teardown'):
        for call in method_calls(func, name, 'self'):
            progress.add(fv.node(call))
    ob.require(progress, 'no progress call in _process_queue')
    ok, wit = fv.cfg.must_pass(fv.node(start), fv.cfg.exit, progress, include_exc=False)
    ob.site(SESS, start, 'started -> must pass send_xfer_data / re-arm before returning')
    if not ok:
        last = [n for n in wit if n.kind in ('stmt', 'cond')]
        cond = next((n for n in reversed(wit) if n.kind == 'cond'), None)
        ob.violate(SESS, fv.qual, 'started; {}; return without sending'.format(cond.text() if cond else '?'),
                   'a transfer announced as started can return without any segment being sent or the queue being re-armed '
                   '(zero-length bundle: nothing is ever sent, no ACK ever comes, the queue behind it is blocked)', start, path_text(wit))


def c01i(tree, ob):
    ''' _tx_proxy runs from an io watch and from an idle callback, i.e. also when the non-blocking socket is not
    writable: sock.send then raises BlockingIOError (ssl: SSLWantWriteError), both subclasses of OSError = socket.error.
    The handler that treats a send error as "connection closed" must not be the one that catches them. '''
    from ..cfg import handler_names
    fv = FuncView(tree, SESS, 'Connection._tx_proxy')
    sends = [c for c in calls_in(fv.func) if isinstance(c.func, ast.Attribute) and c.func.attr == 'send' and dotted(c.func.value) == 'sock']
    snd = one(sends, 'sock.send in _tx_proxy', ob)
    tr = enclosing(snd, (ast.Try,))
    ob.require(tr is not None, 'sock.send outside a try')
    wb = ('BlockingIOError', 'ssl.SSLWantWriteError', 'SSLWantWriteError')
    seen_wouldblock = None
    for h in tr.handlers:
        names = [n or 'BaseException' for n in handler_names(h)]
        if any(n in wb for n in names):
            seen_wouldblock = h
            break
        if any(n.split('.')[-1] in ('error', 'OSError', 'IOError', 'Exception', 'BaseException', 'EnvironmentError') for n in names):
            ob.violate(SESS, fv.qual, 'except {}: (catches BlockingIOError)'.format(' / '.join(names)), 'a send on a full socket buffer (EAGAIN) is handled as a closed connection: the sender closes its own '
                       'socket in the middle of any bundle larger than the kernel buffer', h)
            return
    if seen_wouldblock is None:
        ob.violate(SESS, fv.qual, 'sock.send(data) without a would-block handler', 'BlockingIOError escapes the event-loop callback', tr)
        return
    # the would-block arm keeps everything: no close, no write to the buffer
    bad = [n for n in walk_local(seen_wouldblock) if (isinstance(n, ast.Call) and isinstance(n.func, ast.Attribute) and n.func.attr == 'close') or
           (isinstance(n, (ast.Assign, ast.AugAssign)) and '__tx_buf' in src(n))]
    rets = [r for r in walk_local(seen_wouldblock) if isinstance(r, ast.Return)]
    if bad:
        ob.violate(SESS, fv.qual, src(bad[0])[:60], 'the would-block arm closes or drops octets', bad[0])
    elif not rets or not all(isinstance(r.value, ast.Constant) and r.value.value is True for r in rets):
        ob.violate(SESS, fv.qual, 'would-block arm', 'the would-block arm does not ask to be called again (return True)', seen_wouldblock)
    else:
        ob.site(SESS, seen_wouldblock, 'would-block: octets kept, callback stays armed')
        ob.site(SESS, snd, 'send errors other than would-block close the connection')




def c01k(tree, ob):
    fv = FuncView(tree, SESS, 'Connection._rx_proxy')
    recvs = [c for c in calls_in(fv.func) if pm('sock.recv($n)', c) is not None]
    ob.require(recvs, 'recv call in _rx_proxy')
    first = recvs[0]
    for r in [x for x in walk_local(fv.func) if isinstance(x, ast.Return)]:
        keep = not (isinstance(r.value, ast.Constant) and r.value.value in (False, None))
        if not keep:
            continue
        ok = fv.cfg.must_pass(fv.cfg.entry, fv.node(r), {fv.node(first)}, include_exc=True)[0]
        if ok:
            ob.site(SESS, r, 'asks for another call only after a recv()')
        else:
            ob.violate(SESS, fv.qual, src(r) + ' without recv()', 'the receive callback can return to the event loop, asking to be called again, without reading: the socket stays readable, '
                       'the peer\'s octets (its acknowledgements, which would empty our own backlog) are never taken, and two busy endpoints wait for each other forever', r, sure=True)
