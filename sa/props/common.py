''' Sub-analyses shared by several property modules: chain-step tables,
tiling-loop recogniser, linear-form normalisation, R-ITER over aliased lists. '''
import ast
from ..core import AnalysisError, walk_local, calls_in, call_name, dotted, src, self_attr, kwarg, const_int, enclosing
from ..lib import FuncView, pm, method_calls, one
from ..callgraph import iterates_directly
from .. import norm


def chain_steps(tree, rels=None):
    ''' Every ChainStep(order=, name=, action=) literal appended to a chain.
    :return: list of dict(rel, cls, func, chain ('rx'|'tx'), order, action, node) '''
    res = []
    for rel in sorted(rels or [r for r in tree.modules if r.startswith('bp/')]):
        for (r, qual, func) in tree.all_functions([rel]):
            for call in calls_in(func):
                if not (isinstance(call.func, ast.Attribute) and call.func.attr == 'append' and call.args
                        and isinstance(call.args[0], ast.Call) and (call_name(call.args[0]) or '').endswith('ChainStep')):
                    continue
                step = call.args[0]
                target = dotted(call.func.value) or ''
                envs = _loop_envs(func, call)
                if envs is not None:
                    # steps made in a loop over a literal table: one step per row, the row substituted for the loop target
                    for env in envs:
                        order = _subst(kwarg(step, 'order', 0), env)
                        action = _subst(kwarg(step, 'action', 2), env)
                        oval = _num(tree, rel, order)
                        if oval is None:
                            raise AnalysisError('ChainStep order is not a numeric literal: ' + src(step)[:80])
                        if func.name == 'add_chains':
                            params = [a.arg for a in func.args.args]
                            chain = 'rx' if target == params[1] else ('tx' if len(params) > 2 and target == params[2] else None)
                        else:
                            chain = 'rx' if 'rx' in target else ('tx' if 'tx' in target else None)
                        if chain is None:
                            raise AnalysisError('cannot tell the chain a step is appended to: ' + src(call)[:80])
                        aname = action.attr if isinstance(action, ast.Attribute) else src(action)
                        cls = enclosing(func, (ast.ClassDef,))
                        res.append(dict(rel=rel, cls=cls.name if cls else None, func=qual, chain=chain, order=oval, action=aname, node=step))
                    continue
                order = kwarg(step, 'order', 0)
                action = kwarg(step, 'action', 2)
                oval = _num(tree, rel, order)
                if oval is None:
                    raise AnalysisError('ChainStep order is not a numeric literal: ' + src(step)[:80])
                if func.name == 'add_chains':
                    params = [a.arg for a in func.args.args]
                    chain = 'rx' if target == params[1] else ('tx' if len(params) > 2 and target == params[2] else None)
                else:
                    chain = 'rx' if 'rx' in target else ('tx' if 'tx' in target else None)
                if chain is None:
                    raise AnalysisError('cannot tell the chain a step is appended to: ' + src(call)[:80])
                aname = action.attr if isinstance(action, ast.Attribute) else src(action)
                cls = enclosing(func, (ast.ClassDef,))
                res.append(dict(rel=rel, cls=cls.name if cls else None, func=qual, chain=chain, order=oval, action=aname, node=step))
    return res


def _loop_envs(func, node):
    ''' the rows of the literal table a statement is repeated over: [{name: row element}] when <node> sits in exactly one
    `for <names> in <tuple/list literal, or a local bound once to one>`; None when it is in no loop '''
    loops = []
    cur = getattr(node, '_parent', None)
    while cur is not None and cur is not func:
        if isinstance(cur, (ast.For, ast.While)):
            loops.append(cur)
        cur = getattr(cur, '_parent', None)
    if not loops:
        return None
    if len(loops) != 1 or not isinstance(loops[0], ast.For):
        raise AnalysisError('chain step made in a loop that is not a single for over a literal table')
    loop = loops[0]
    it = loop.iter
    if isinstance(it, ast.Name):
        defs = [n for n in walk_local(func) if isinstance(n, ast.Assign) and len(n.targets) == 1 and isinstance(n.targets[0], ast.Name) and n.targets[0].id == it.id]
        if len(defs) != 1:
            raise AnalysisError('chain step table {} is not bound exactly once'.format(it.id))
        it = defs[0].value
    if not isinstance(it, (ast.Tuple, ast.List)):
        raise AnalysisError('chain steps made in a loop over something that is not a literal table: ' + src(loop.iter)[:60])
    tgt = loop.target
    envs = []
    for row in it.elts:
        if isinstance(tgt, ast.Name):
            envs.append({tgt.id: row})
        elif isinstance(tgt, (ast.Tuple, ast.List)) and isinstance(row, (ast.Tuple, ast.List)) and len(row.elts) == len(tgt.elts) and all(isinstance(t, ast.Name) for t in tgt.elts):
            envs.append({t.id: e for (t, e) in zip(tgt.elts, row.elts)})
        else:
            raise AnalysisError('chain step table row does not match the loop target: ' + src(row)[:60])
    return envs


def _subst(expr, env):
    if expr is None:
        return None
    import copy

    class Sub(ast.NodeTransformer):
        def visit_Name(self, n):
            if isinstance(n.ctx, ast.Load) and n.id in env:
                return copy.deepcopy(env[n.id])
            return n
    return Sub().visit(copy.deepcopy(expr))


def _num(tree, rel, expr):
    if expr is None:
        return 0
    if isinstance(expr, ast.BinOp) and isinstance(expr.op, (ast.Add, ast.Sub, ast.Mult)):
        (a, b) = (_num(tree, rel, expr.left), _num(tree, rel, expr.right))
        if a is None or b is None:
            return None
        return a + b if isinstance(expr.op, ast.Add) else (a - b if isinstance(expr.op, ast.Sub) else a * b)
    if isinstance(expr, ast.Constant) and isinstance(expr.value, (int, float)):
        return expr.value
    if isinstance(expr, ast.UnaryOp) and isinstance(expr.op, ast.USub) and isinstance(expr.operand, ast.Constant):
        return -expr.operand.value
    got = const_int(tree, rel, expr)
    if got is None and isinstance(expr, ast.Attribute) and isinstance(expr.value, ast.Name):
        # self.NAME / Cls.NAME: a numeric class attribute of a class of this module
        for node in ast.walk(tree.module(rel).tree):
            if isinstance(node, ast.ClassDef) and (expr.value.id in ('self', 'cls') or expr.value.id == node.name):
                for item in node.body:
                    if isinstance(item, ast.Assign) and any(src(t) == expr.attr for t in item.targets):
                        val = _num(tree, rel, item.value)
                        if val is not None:
                            return val
    return got


def linear(expr, names):
    ''' Normalise an arithmetic expression over +,-,parentheses, integer
    literals and multiplication by a literal to {term: coefficient}, where a
    term is a name in `names`, the text of a non-arithmetic subexpression, or 1.
    Anything else -> AnalysisError. '''
    out = {}

    def add(term, coef):
        out[term] = out.get(term, 0) + coef
        if out[term] == 0:
            del out[term]

    def go(node, coef):
        if isinstance(node, ast.BinOp) and isinstance(node.op, ast.Add):
            go(node.left, coef)
            go(node.right, coef)
        elif isinstance(node, ast.BinOp) and isinstance(node.op, ast.Sub):
            go(node.left, coef)
            go(node.right, -coef)
        elif isinstance(node, ast.BinOp) and isinstance(node.op, ast.Mult):
            if isinstance(node.left, ast.Constant) and isinstance(node.left.value, int):
                go(node.right, coef * node.left.value)
            elif isinstance(node.right, ast.Constant) and isinstance(node.right.value, int):
                go(node.left, coef * node.right.value)
            else:
                raise AnalysisError('non-linear budget expression: ' + src(node))
        elif isinstance(node, ast.UnaryOp) and isinstance(node.op, ast.USub):
            go(node.operand, -coef)
        elif isinstance(node, ast.Constant) and isinstance(node.value, int) and not isinstance(node.value, bool):
            add(1, coef * node.value)
        elif isinstance(node, (ast.Name, ast.Attribute, ast.Call, ast.Subscript)):
            add(src(node), coef)
        else:
            raise AnalysisError('unrecognised budget term: ' + src(node))

    go(expr, 1)
    return out


class Tiling:
    ''' Result of recognising ``off = 0; while off < L: ... D[off:off+step] ... off += step``. '''
    pass


def tiling(fv, loop, ob, rel, what):
    ''' Recognise and check a tiling loop.  Reports violations on `ob`.
    :return: Tiling with .off, .step, .total, .data, .slice, .advance or None '''
    qual = fv.qual
    if not isinstance(loop, ast.While):
        raise AnalysisError('{}: tiling loop is not a while loop'.format(what))
    got = pm('$off < $total', loop.test)
    if got is None or not isinstance(got['off'], ast.Name):
        raise AnalysisError('{}: unrecognised tiling loop condition {}'.format(what, src(loop.test)))
    off = got['off'].id
    total = got['total']
    til = Tiling()
    til.off, til.total = off, total
    # offset starts at 0
    rd = fv.reaching_defs(off, loop.test)
    inits = [d for d in rd if d[0] is not None and enclosing(d[0], (ast.While,)) is not loop]
    if len(inits) != 1 or not (isinstance(inits[0][1], ast.Constant) and inits[0][1].value == 0):
        ob.violate(rel, qual, '{} initialised by {}'.format(off, src(inits[0][0]) if inits else '?'), '{}: the first piece does not start at offset 0'.format(what), loop, sure=True)
    # advance
    advs = [n for n in walk_local(loop) if isinstance(n, ast.AugAssign) and isinstance(n.target, ast.Name) and n.target.id == off]
    plain = [n for n in walk_local(loop) if isinstance(n, ast.Assign) and any(isinstance(t, ast.Name) and t.id == off for t in n.targets)]
    if len(advs) != 1 or plain or not isinstance(advs[0].op, ast.Add):
        raise AnalysisError('{}: unrecognised offset advance'.format(what))
    adv = advs[0]
    til.advance = adv
    step = adv.value
    til.step = step
    # slices of the data by the offset
    slices = [n for n in walk_local(loop) if isinstance(n, ast.Subscript) and isinstance(n.slice, ast.Slice) and n.slice.lower is not None
              and src(n.slice.lower) == off]
    if len(slices) != 1:
        raise AnalysisError('{}: expected one data slice by the offset, found {}'.format(what, len(slices)))
    sl = slices[0]
    til.slice = sl
    til.data = sl.value
    upper = sl.slice.upper
    want = ['{} + {}'.format(off, src(step)), '{} + {}'.format(src(step), off)]
    if upper is None or src(upper) not in want:
        ob.violate(rel, qual, src(sl), '{}: a piece is cut as [{}:{}] but the offset advances by {} (pieces overlap or leave gaps)'.format(
            what, off, src(upper) if upper is not None else '', src(step)), sl, sure=True)
    # the slice must see the offset before the advance
    if fv.node(sl) in fv.cfg.reachable([fv.node(adv)], avoid=[fv.node(loop.test)]):
        ob.violate(rel, qual, src(sl), '{}: the piece is cut after the offset was already advanced'.format(what), sl, sure=True)
    # the loop bound is the length of the sliced data
    tot = fv.value_at(total, loop.test)
    if src(tot) != 'len({})'.format(src(sl.value)) and src(total) != 'len({})'.format(src(sl.value)):
        til.total_is_len = False
    else:
        til.total_is_len = True
    # every iteration advances
    body0 = fv.node(loop.body[0])
    ok, wit = fv.cfg.must_pass(body0, fv.node(loop.test), {fv.node(adv)}, include_exc=False) if body0 is not fv.node(adv) else (True, None)
    if not ok:
        ob.violate(rel, qual, src(adv), '{}: an iteration can complete without advancing the offset'.format(what), adv, sure=True)
    return til


def progress_guard(fv, til, ob, rel, what, must=True):
    ''' The step must be known positive before the first slice:
    a dominating ``if step <= 0: raise`` (fact step > 0). '''
    step_txt = src(til.step)
    facts = fv.facts(til.slice) or frozenset()
    ok = ((step_txt + ' > 0', True) in facts) or (('0 < ' + step_txt, True) in facts) or ((step_txt + ' < 1', False) in facts) \
        or ((step_txt + ' >= 1', True) in facts)
    return ok


def aliased_list_mutation(tree, cg, fv, loop, container_param_call):
    ''' R-ITER for ``for x in <expr>`` where <expr> (or the local it was
    bound to) is ``ctr.block_type(T)``, which returns the container's
    internal list, and the body reaches ``remove_block``.
    :return: witness chain text or None '''
    it = iterates_directly(loop)
    if it is None:
        return None
    val = fv.value_at(it, loop) if isinstance(it, ast.Name) else it
    if not (isinstance(val, ast.Call) and isinstance(val.func, ast.Attribute) and val.func.attr == 'block_type'):
        return None
    recv = src(val.func.value)
    # does the body (transitively) call remove_block on the same container?
    for call in calls_in(loop):
        for tgt in cg.resolve(fv.func, call):
            for key, chain in cg.reachable_from(tgt).items():
                fn = chain[-1]
                if getattr(fn, 'name', '') == 'remove_block':
                    return '{} -> {}'.format(src(call)[:50], cg.chain_text(chain))
    return None



def route_table_loading(tree, ob, attr, item_cls, fieldmap):
    ''' First-match routing is decided over the table as the agent holds it, so the table has to be the configured list:
    same entries, same order, nothing merged.  Everything that writes <attr> in bp/ is enumerated: an empty list, or an
    append; the configuration loader appends one <item_cls> per configured item, inside the loop over the configured
    items, with its fields read from that item. '''
    CONFIG = 'bp/config.py'
    n = 0
    for rel in sorted(r for r in tree.modules if r.startswith('bp/')):
        for (r, qual, func) in tree.all_functions([rel]):
            for node in walk_local(func):
                # stores
                tgts = []
                if isinstance(node, ast.Assign):
                    tgts = [(t, node.value) for t in node.targets]
                elif isinstance(node, (ast.AugAssign, ast.AnnAssign)):
                    tgts = [(node.target, node.value)]
                for (t, v) in tgts:
                    if isinstance(t, ast.Attribute) and t.attr == attr:
                        n += 1
                        if (isinstance(v, ast.List) and not v.elts) or (isinstance(v, ast.Call) and src(v) == 'list()'):
                            ob.site(rel, node, '{} reset to the empty list'.format(attr))
                        else:
                            ob.violate(rel, qual, src(node)[:80], 'the {} is assigned from something other than an empty list: entries merged, reordered or dropped on the way are '
                                       'not the configured table, and first-match over it picks a different route'.format(attr), node)
                    if isinstance(t, ast.Subscript) and isinstance(t.value, ast.Attribute) and t.value.attr == attr:
                        n += 1
                        ob.violate(rel, qual, src(node)[:80], 'an entry of the {} is replaced in place'.format(attr), node)
                if isinstance(node, ast.Call) and isinstance(node.func, ast.Attribute) and isinstance(node.func.value, ast.Attribute) and node.func.value.attr == attr:
                    n += 1
                    if node.func.attr != 'append':
                        ob.violate(rel, qual, src(node)[:80], 'the {} is edited by {}(): the order of the configured entries is not kept'.format(attr, node.func.attr), node)
                    elif rel != CONFIG:
                        ob.site(rel, node, '{}: run-time route appended behind the configured ones'.format(attr))
                    else:
                        fv = FuncView(tree, rel, qual)
                        loop = enclosing(node, ast.For)
                        ok = loop is not None and isinstance(loop.target, ast.Name) and pm('bpdat[$k]', loop.iter) is not None
                        item = loop.target.id if ok else None
                        if ok:
                            k = pm('bpdat[$k]', loop.iter)['k']
                            ok = (isinstance(k, ast.Constant) and k.value == attr) or fv.has(loop, "{} == '{}'".format(src(k), attr), True)
                        why = 'the append is not inside the loop over the configured entries'
                        if ok:
                            arg = node.args[0] if node.args else None
                            arg = fv.value_at(arg, node, depth=3, keep=(item,)) if arg is not None else None
                            ok = isinstance(arg, ast.Call) and call_name(arg) == item_cls
                            why = 'what is appended is not one {} per configured entry'.format(item_cls)
                            if ok:
                                for (fname, want) in fieldmap.items():
                                    got = kwarg(arg, fname)
                                    if got is None or src(got) != want.replace('item', item):
                                        ok = False
                                        why = '{}.{} is not read from the configured entry ({})'.format(item_cls, fname, src(got) if got is not None else 'missing')
                        if ok:
                            ob.site(rel, node, '{}: one {} per configured entry, in file order'.format(attr, item_cls))
                        else:
                            ob.violate(rel, qual, src(node)[:80], why + ': the table consulted by first-match routing is not the configured one', node)
    ob.require(n >= 1, 'writers of {} found: {}'.format(attr, n))



def entry_fidelity(tree, ob, rel, qual):
    ''' the D-Bus entry that takes a bundle as a byte array: what is queued is a file over exactly those octets.  The byte
    array may be converted to bytes (the repository's idiom joins one-octet strings); anything else between the parameter
    and the BytesIO -- a slice, a strip, a decode/encode -- changes the bundle before the transfer even starts. '''
    import re
    fv = FuncView(tree, rel, qual)
    params = [a.arg for a in fv.func.args.args]
    ob.require(len(params) >= 2, qual + '(self, data, ...)')
    dp = params[1]
    files = [c for c in calls_in(fv.func) if (call_name(c) or '').split('.')[-1] == 'BytesIO']
    c = one(files, 'BytesIO over the data in ' + qual, ob)
    val = fv.value_at(c.args[0], c, depth=4, keep=()) if c.args else None
    text = src(val) if val is not None else ''
    # value_at resolves the parameter rebinding `data = convert(data)`: the innermost name must be the parameter
    ok = text in (dp, 'bytes({})'.format(dp), 'bytearray({})'.format(dp)) or re.fullmatch(r"b''\.join\(\[bytes\(\[(\w+)\]\) for \1 in {}\]\)".format(re.escape(dp)), text) is not None
    stores = [n for n in walk_local(fv.func) if isinstance(n, ast.Name) and n.id == dp and isinstance(n.ctx, ast.Store)]
    if ok and len(stores) <= 1:
        ob.site(rel, c, qual + ': queued file holds exactly the octets passed in')
    else:
        ob.violate(rel, qual, 'BytesIO({})'.format(text[:60]), 'the bundle queued for sending is not the byte array that was passed in (sliced, stripped or re-coded on entry): '
                   'every segment and the final length are then those of another bundle', c)
    # the sibling entry that takes a file object: the item gets the caller's file itself (it is measured and rewound when it is
    # queued); a copy made on entry is taken from wherever the caller's position happens to be
    fq = qual.rsplit('.', 1)[0] + '.send_bundle_fileobj'
    if tree.has_func(rel, fq):
        ff = FuncView(tree, rel, fq)
        fparams = [a.arg for a in ff.func.args.args]
        ob.require(len(fparams) >= 2, fq + '(self, file, ...)')
        fp = fparams[1]
        given = [kwarg(c2, 'file') for c2 in calls_in(ff.func) if (call_name(c2) or '').split('.')[-1] == 'BundleItem' and kwarg(c2, 'file') is not None]
        given += [n.value for n in walk_local(ff.func) if isinstance(n, ast.Assign) and len(n.targets) == 1 and isinstance(n.targets[0], ast.Attribute) and n.targets[0].attr == 'file']
        ob.require(given, 'file of the queued item in ' + fq)
        rebinds = [n for n in walk_local(ff.func) if isinstance(n, ast.Name) and n.id == fp and isinstance(n.ctx, ast.Store)]
        consumed = [c2 for c2 in calls_in(ff.func) if isinstance(c2.func, ast.Attribute) and isinstance(c2.func.value, ast.Name) and c2.func.value.id == fp and c2.func.attr in ('read', 'readline', 'readlines', 'readinto', 'truncate', 'write')]
        for g in given:
            if isinstance(g, ast.Name) and g.id == fp and not rebinds and not consumed:
                ob.site(rel, g, fq + ': the queued item holds the file that was passed in')
            else:
                ob.violate(rel, fq, 'file = {}'.format(src((rebinds and enclosing(rebinds[0], ast.Assign)) or (consumed and consumed[0]) or g)[:70]), 'the item that is queued does not hold the file object that was passed in but something read from it on entry: '
                           'read from the position the caller left the file at, the bundle that goes out is a tail of the one handed over (or nothing)', (consumed and consumed[0]) or g, sure=True)



def per_instance_state(tree, ob, rel, clsnames):
    ''' queues, maps and sets of a session / agent object belong to that object.  A mutable container bound in the class
    body is one object shared by every instance: two sessions of one agent then share a receive queue or a transfer map.
    Each container the methods mutate through self must be created in __init__ (per instance); a class-level binding of
    a list / dict / set that __init__ does not replace is reported. '''
    MUT = ('append', 'add', 'pop', 'remove', 'discard', 'clear', 'update', 'extend', 'insert', 'setdefault', 'popitem')
    n = 0
    for cname in clsnames:
        cls = tree.klass(rel, cname)
        init = [m for m in cls.body if isinstance(m, ast.FunctionDef) and m.name == '__init__']
        init_sets = set()
        for m in init:
            for x in ast.walk(m):
                if isinstance(x, (ast.Assign, ast.AnnAssign)):
                    for t in (x.targets if isinstance(x, ast.Assign) else [x.target]):
                        if self_attr(t):
                            init_sets.add(self_attr(t))
        mutated = set()
        for m in cls.body:
            if not isinstance(m, ast.FunctionDef):
                continue
            for x in ast.walk(m):
                if isinstance(x, ast.Call) and isinstance(x.func, ast.Attribute) and x.func.attr in MUT and self_attr(x.func.value):
                    mutated.add(self_attr(x.func.value))
                if isinstance(x, (ast.Assign, ast.AugAssign, ast.Delete)):
                    for t in (x.targets if not isinstance(x, ast.AugAssign) else [x.target]):
                        if isinstance(t, ast.Subscript) and self_attr(t.value):
                            mutated.add(self_attr(t.value))
        for item in cls.body:
            if not isinstance(item, (ast.Assign, ast.AnnAssign)) or item.value is None:
                continue
            v = item.value
            mutable = isinstance(v, (ast.List, ast.Dict, ast.Set, ast.ListComp, ast.DictComp, ast.SetComp)) or \
                (isinstance(v, ast.Call) and (call_name(v) or '').split('.')[-1] in ('list', 'dict', 'set', 'deque', 'OrderedDict', 'defaultdict', 'bytearray'))
            if not mutable:
                continue
            for t in (item.targets if isinstance(item, ast.Assign) else [item.target]):
                if not isinstance(t, ast.Name):
                    continue
                n += 1
                if t.id in mutated and t.id not in init_sets:
                    ob.violate(rel, cname, '{} = {}  (class body)'.format(t.id, src(v)[:30]), 'the container {} is created once for the class and mutated through self: every {} object shares it, so what one '
                               'session queues, maps or acknowledges shows up in (or is refused because of) another'.format(t.id, cname), item, sure=True)
                else:
                    ob.site(rel, item, '{}.{}: class-level container not mutated through self'.format(cname, t.id))
        for a in sorted(mutated):
            if a in init_sets:
                ob.site(rel, init[0] if init else cls, '{}.{} created per instance'.format(cname, a))
    return n



def _one_step(fv, expr, at):
    ''' a name with a single reaching definition is read as that definition (one step, no further inlining) '''
    if isinstance(expr, ast.Name):
        rd = fv.reaching_defs(expr.id, at)
        if len(rd) == 1 and rd[0][1] is not None and isinstance(rd[0][1], ast.AST):
            return rd[0][1]
    return expr


def config_verbatim(tree, ob, rel):
    ''' what the agent is configured with is what the file says: Config.from_file hands each value on as it was read.
    A value rewritten on the way (an explicit 0 / false / '' taken for "unset", a number clamped, a default derived although
    a value was given) silently changes a limit or a policy the properties are stated against. '''
    fv = FuncView(tree, rel, 'Config.from_file')
    func = fv.func
    loops = [n for n in walk_local(func) if isinstance(n, ast.For) and pm('fields(self)', n.iter) is not None]
    lp = one(loops, 'loop over the configuration fields in {} Config.from_file'.format(rel), ob)
    fld = src(lp.target)
    n = 0
    for c in calls_in(func):
        if (call_name(c) or '') != 'setattr' or len(c.args) != 3:
            continue
        n += 1
        val = _one_step(fv, c.args[2], c)
        got = pm('$d[{}.name]'.format(fld), val)
        if src(c.args[0]) == 'self' and src(c.args[1]) == fld + '.name' and got is not None and isinstance(got['d'], ast.Name):
            ob.site(rel, c, 'plain settings are taken over as read')
        else:
            ob.violate(rel, fv.qual, 'setattr(self, {}.name, {})'.format(fld, src(val)[:60]), 'a setting is not taken over as it was read from the file (an explicit false / 0 / empty value is replaced, '
                       'or the value is rewritten): the agent runs under another policy or limit than the one configured', c)
    for st in walk_local(func):
        if not isinstance(st, (ast.Assign, ast.AugAssign)):
            continue
        for t in (st.targets if isinstance(st, ast.Assign) else [st.target]):
            attr = self_attr(t)
            if not attr:
                continue
            n += 1
            v = st.value
            if isinstance(st, ast.Assign) and ((isinstance(v, ast.List) and not v.elts) or (isinstance(v, ast.Dict) and not v.keys)):
                ob.site(rel, st, '{} reset before it is filled from the file'.format(attr))
            elif isinstance(st, ast.Assign) and fv.has(st, 'self.{} is None'.format(attr), True):
                ob.site(rel, st, '{} derived only when it was not given (is None)'.format(attr))
            elif isinstance(st, ast.Assign) and (fv.has(st, 'self.' + attr, False)):
                ob.violate(rel, fv.qual, src(st)[:70] + '  under "not self.{}"'.format(attr), 'a default is derived for {0} whenever it is falsy: an explicitly configured 0 (= switched off) is replaced by '
                           'the derived value'.format(attr), st)
            else:
                val = _one_step(fv, v, st)
                if pm('$d[$k]', val) is not None and isinstance(pm('$d[$k]', val)['d'], ast.Name):
                    ob.site(rel, st, '{} taken over as read'.format(attr))
                elif isinstance(val, ast.Call) and not val.args and len(val.keywords) == 1 and val.keywords[0].arg is None and pm('$d[$k]', val.keywords[0].value) is not None \
                        and (call_name(val) or '').endswith('Config'):
                    ob.site(rel, st, '{}: structured setting built from the mapping as read'.format(attr))
                else:
                    ob.violate(rel, fv.qual, src(st)[:80], 'the setting {} is rewritten while it is loaded (clamped, converted or replaced): the agent runs with another value than the one configured'.format(attr), st)
    ob.require(n >= 1, 'settings written by Config.from_file')



def fresh_defaults(tree, ob, rels):
    ''' a default argument is evaluated once, when the function is defined.  A container or object built there is shared by
    every call that omits the argument: the "new" bundle of each BundleContainer() would be one and the same object. '''
    n = 0
    for rel in rels:
        for (r, qual, func) in tree.all_functions([rel]):
            for d in list(func.args.defaults) + [x for x in func.args.kw_defaults if x is not None]:
                n += 1
                if isinstance(d, (ast.Call, ast.List, ast.Dict, ast.Set, ast.ListComp, ast.DictComp, ast.SetComp)) and ((call_name(d) or '') if isinstance(d, ast.Call) else '') not in ('frozenset', 'tuple', 'field', 'dataclasses.field'):
                    ob.violate(rel, qual, '{}(... = {})'.format(func.name, src(d)[:40]), 'the default argument is one object made when the function was defined and shared by every call: objects that '
                               'should start empty (the bundle of a new container) accumulate what earlier uses put into them', d, sure=True)
    ob.site(rels[0], tree.module(rels[0]).tree, 'no default argument builds a shared mutable object ({} defaults in {} module(s))'.format(n, len(rels)))



def iter_mutation(tree, ob, rels, report=True):
    ''' a list / dict / set that is being iterated is not changed in size by the loop body: removing from a list while
    iterating skips the element behind each removed one, popping from a dict while iterating raises RuntimeError.  Loops
    over a copy (list(x), tuple(x), x.copy(), x[:], sorted(x)) are fine, so is a mutation directly followed by break / return. '''
    MUT = ('remove', 'pop', 'append', 'insert', 'clear', 'add', 'discard', 'popitem', 'extend', 'update', 'setdefault')
    found = []
    n = 0
    for rel in rels:
        for (r, qual, func) in tree.all_functions([rel]):
            for loop in [x for x in walk_local(func) if isinstance(x, ast.For)]:
                it = loop.iter
                if isinstance(it, ast.Call) and isinstance(it.func, ast.Attribute) and it.func.attr in ('values', 'items', 'keys') and not it.args:
                    it = it.func.value
                if not isinstance(it, (ast.Name, ast.Attribute)):
                    continue
                base = src(it)
                n += 1
                for st in walk_local(loop):
                    hit = None
                    if isinstance(st, ast.Call) and isinstance(st.func, ast.Attribute) and st.func.attr in MUT and src(st.func.value) == base:
                        hit = st
                    if isinstance(st, ast.Delete) and any(isinstance(t, ast.Subscript) and src(t.value) == base for t in st.targets):
                        hit = st
                    if hit is None:
                        continue
                    # mutation then leaving the loop at once is the find-and-remove idiom
                    from ..core import enclosing_stmt, parent
                    hs = enclosing_stmt(hit)
                    par = parent(hs)
                    leaves = False
                    for fld in ('body', 'orelse', 'finalbody'):
                        blk = getattr(par, fld, None)
                        if isinstance(blk, list) and hs in blk:
                            rest = blk[blk.index(hs) + 1:]
                            leaves = bool(rest) and isinstance(rest[0], (ast.Break, ast.Return)) or (not rest and isinstance(par, ast.If) and False)
                            leaves = leaves or any(isinstance(x, (ast.Break, ast.Return)) for x in rest[:2])
                    if leaves:
                        continue
                    found.append((rel, qual, loop, hit, base))
    for (rel, qual, loop, hit, base) in found:
        if report:
            ob.violate(rel, qual, 'for {} in {}: ... {}'.format(src(loop.target), src(loop.iter), src(hit)[:40]), 'the container {} is changed in size while it is being iterated: a list skips the element '
                       'behind every removed one, a dict raises RuntimeError out of the loop'.format(base), hit, sure=True)
    if not found:
        ob.site(rels[0], tree.module(rels[0]).tree, 'no loop changes the size of the container it iterates ({} loops over named containers in {} module(s))'.format(n, len(rels)))
    return found



def tx_steps_discipline(tree, ob):
    ''' the TX chain is run by send_bundle() for every bundle -- and again for every fragment, which re-enters through
    send_bundle().  So (1) a step that edits the blocks of the bundle it is given (adds, removes or advances blocks) does
    so only for bundles that are not fragments, else each fragment is edited again after it was cut to size; (2) a truthy
    result means "this step took the transmission over" and stops send_bundle(): only the fragmentation step, which
    really re-submits the pieces, may give one. '''
    steps = [st for st in chain_steps(tree) if st['chain'] == 'tx']
    ob.require(len(steps) >= 4, 'TX chain steps found: {}'.format(len(steps)))
    for st in steps:
        qual = '{}.{}'.format(st['cls'], st['action'])
        if not tree.has_func(st['rel'], qual):
            raise AnalysisError('TX step {} not found'.format(qual))
        fv = FuncView(tree, st['rel'], qual)
        params = [a.arg for a in fv.func.args.args]
        ctr = params[1] if len(params) > 1 else 'ctr'
        taker = (st['rel'], qual) == ('bp/app/fragment.py', 'Fragment._create')
        # (2)
        for r in [x for x in walk_local(fv.func) if isinstance(x, ast.Return) and x.value is not None]:
            falsy = isinstance(r.value, ast.Constant) and not r.value.value
            if falsy or taker:
                continue
            ob.violate(st['rel'], qual, src(r), 'a TX step other than fragmentation returns a value that can be truthy: send_bundle() takes it for "transmission taken over" and returns without sending, '
                       'while the forwarder records the bundle as forwarded', r, sure=True)
        # (1)
        if taker:
            ob.site(st['rel'], fv.func, qual + ': the fragmentation step (may take the transmission over)')
            continue
        edits = [c for c in calls_in(fv.func) if isinstance(c.func, ast.Attribute) and c.func.attr in ('add_block', 'remove_block') and src(c.func.value) == ctr]
        edits += [n for n in walk_local(fv.func) if isinstance(n, ast.AugAssign) and '.payload.' in src(n.target)]
        bad = [e for e in edits if not any(t.endswith('PrimaryBlock.Flag.IS_FRAGMENT') and p_ is False for (t, p_) in (fv.facts(e) or ()))]
        if bad:
            ob.violate(st['rel'], qual, src(bad[0])[:70], 'a TX step edits the blocks of whatever passes the chain, fragments included: every fragment of a forwarded bundle is edited again after it was cut '
                       '(blocks added twice, counts advanced twice) and comes out larger than the MTU it was cut for', bad[0], sure=True)
        else:
            ob.site(st['rel'], fv.func, qual + ': edits no blocks of a fragment, gives no truthy result')



def tx_queue_head_leaves_first(tree, ob, rel):
    ''' the TX queue of a CL agent is worked one item per call.  The item leaves the queue before anything is done with it
    (as in Agent._do_fwd of the BP agent, C10.f): whatever then fails costs that item only.  Left at the head until its
    datagrams went out, an item that cannot be sent (oversize, unusable address) is retried for ever and blocks every
    bundle behind it -- or is sent again from a file already read to its end, as an empty bundle. '''
    fv = FuncView(tree, rel, 'Agent._process_tx_queue')
    takes = [n for n in walk_local(fv.func) if isinstance(n, (ast.Assign, ast.AnnAssign)) and n.value is not None and pm('self._tx_queue.pop(0)', n.value) is not None]
    peeks = [n for n in walk_local(fv.func) if isinstance(n, (ast.Assign, ast.AnnAssign)) and n.value is not None and pm('self._tx_queue[0]', n.value) is not None]
    work = [c for c in calls_in(fv.func) if (isinstance(c.func, ast.Name) and c.func.id == 'sender') or (isinstance(c.func, ast.Attribute) and c.func.attr in ('_send_transfer', 'send_bundle_started', 'sendto', 'sendmsg'))]
    ob.require(work, 'work on the head item in {} _process_tx_queue'.format(rel))
    if peeks or not takes:
        ob.violate(rel, fv.qual, src((peeks or [fv.func])[0])[:60], 'the item is worked on while it is still at the head of the TX queue: a send that fails leaves it there, it is retried on every call and nothing '
                   'behind it is ever sent (or it goes out again as an empty bundle, its file having been read to the end)', (peeks or [fv.func])[0])
        return
    t = takes[0]
    late = [w for w in work if not fv.dominates(t, w)[0]]
    if late:
        ob.violate(rel, fv.qual, src(late[0])[:60] + ' before self._tx_queue.pop(0)', 'work on the head item starts before it has left the TX queue', late[0])
    else:
        ob.site(rel, t, 'the item leaves the TX queue before it is worked on')


def tx_trigger_whenever_nonempty(tree, ob, rel, qual='Agent._process_tx_queue_trigger', queue='self._tx_queue', worker='self._process_tx_queue', allowed=()):
    ''' whoever adds to the TX queue calls the trigger, and the worker stops re-arming itself once it raised or the queue ran
    empty: the trigger therefore has to start the idle source whenever the queue holds something.  A guard that also looks at
    HOW MANY items wait ("only the first one needs to start it") leaves the queue stuck for good after one failed send. '''
    fv = FuncView(tree, rel, qual)
    arms = [c for c in calls_in(fv.func) if pm('glib.idle_add({})'.format(worker), c) is not None]
    ob.require(arms, 'idle_add({}) in {}'.format(worker, qual))
    for c in arms:
        facts = [(t, p) for (t, p) in (fv.facts(c) or ()) if not t.startswith('isinstance(') and (t, p) not in allowed]
        bad = [(t, p) for (t, p) in facts if not ((t == queue and p is True) or (t == 'len({})'.format(queue) and p is True) or (t in ('len({}) > 0'.format(queue), 'len({}) >= 1'.format(queue), 'len({}) != 0'.format(queue)) and p is True)
                                                   or (t in ('len({}) == 0'.format(queue),) and p is False))]
        if bad:
            ob.violate(rel, fv.qual, 'glib.idle_add({}) under {}'.format(worker, ' and '.join(('' if p else 'not ') + t for (t, p) in bad))[:120],
                       'the TX worker is started only under a condition other than "the queue holds something": with items waiting and no idle source running (the worker '
                       'ended on a failed send) nothing is ever sent again', c)
        else:
            ob.site(rel, c, 'the trigger starts the worker whenever the queue holds something')


def optional_record_guarded(tree, ob, rel, cls='Agent'):
    ''' a per-peer / per-transfer record made as a dict literal starts with some keys at None ("not yet").  Arithmetic, an
    ordering comparison or an attribute access on such a key is only reached under "<rec>[key] is not None": the first
    datagram / first event finds it None, the TypeError aborts the handler (the datagram is lost, a GLib source that
    returns nothing is removed).  Equality tests, passing the value on and assigning to it are free. '''
    keys = {}
    for (r, qual, func) in tree.all_functions([rel]):
        if not qual.startswith(cls + '.'):
            continue
        for n in walk_local(func):
            if isinstance(n, ast.Dict):
                for (k, v) in zip(n.keys, n.values):
                    if isinstance(k, ast.Constant) and isinstance(k.value, str) and isinstance(v, ast.Constant) and v.value is None:
                        keys.setdefault(k.value, n)
    ob.require(keys, 'records with keys that start at None in {}'.format(rel))
    uses = 0
    for (r, qual, func) in tree.all_functions([rel]):
        if not qual.startswith(cls + '.'):
            continue
        fv = None
        for n in walk_local(func):
            subs = []
            if isinstance(n, ast.BinOp):
                subs = [n.left, n.right]
            elif isinstance(n, ast.AugAssign):
                subs = [n.target]
            elif isinstance(n, ast.Compare) and any(isinstance(o, (ast.Lt, ast.LtE, ast.Gt, ast.GtE)) for o in n.ops):
                subs = [n.left] + list(n.comparators)
            elif isinstance(n, ast.Attribute):
                subs = [n.value]
            elif isinstance(n, ast.UnaryOp) and isinstance(n.op, (ast.USub, ast.Invert)):
                subs = [n.operand]
            for s in subs:
                if not (isinstance(s, ast.Subscript) and isinstance(s.slice, ast.Constant) and s.slice.value in keys):
                    continue
                uses += 1
                if fv is None:
                    fv = FuncView(tree, rel, qual)
                t = src(s)
                facts = fv.facts(n) or ()
                if (t + ' is None', False) in facts or (t + ' is not None', True) in facts or (t, True) in facts:
                    ob.site(rel, n, '{} used under "is not None"'.format(t))
                else:
                    ob.violate(rel, qual, '{} in {}'.format(t, src(n)[:50]), 'the key {!r} of this record starts at None and is used in arithmetic / ordering / attribute access without an '
                               '"is not None" test on the way: the first event for a peer raises TypeError out of the handler (the datagram that carried it is dropped)'.format(s.slice.value), n)
    if not uses:
        ob.site(rel, keys[sorted(keys)[0]], 'keys {} are never used in arithmetic, ordering or attribute access'.format(sorted(keys)))


def divisions_guarded(tree, ob, rels, audited=()):
    ''' a division whose divisor is computed from what the peer sent (an acknowledged length, a difference of two of them)
    is zero for some peer behaviour; the ZeroDivisionError leaves the message handler, the message is not acted on (no
    finished signal, the transfer stays listed) .  Every `/`, `//`, `%` with a non-constant divisor is either under a test
    that excludes zero or names a divisor audited here (one line of reason each). '''
    n = 0
    for rel in rels:
        for (r, qual, func) in tree.all_functions([rel]):
            fv = None
            for node in walk_local(func):
                if isinstance(node, ast.BinOp) and isinstance(node.op, (ast.Div, ast.FloorDiv, ast.Mod)):
                    d = node.right
                elif isinstance(node, ast.AugAssign) and isinstance(node.op, (ast.Div, ast.FloorDiv, ast.Mod)):
                    d = node.value
                else:
                    continue
                if isinstance(node, ast.BinOp) and isinstance(node.op, ast.Mod) and (isinstance(node.left, (ast.Constant, ast.JoinedStr)) and isinstance(getattr(node.left, 'value', ''), str)):
                    continue    # text formatting
                if isinstance(d, ast.Constant) or (isinstance(d, ast.Call) and (call_name(d) or '').split('.')[-1] in ('timedelta',)):
                    continue
                # scapy stacks layers with "/": an operand that constructs a packet (Capitalised(...)) is no number
                if any(isinstance(x, ast.Call) and ((call_name(x) or '').split('.')[-1][:1].isupper()) for x in ast.walk(node)):
                    continue
                if isinstance(node, ast.BinOp) and isinstance(node.left, ast.Call) and not (call_name(node.left) or '').split('.')[-1] in ('len', 'int', 'float', 'max', 'min', 'abs', 'total_seconds'):
                    continue
                n += 1
                t = src(d)
                if (rel, qual, t) in audited:
                    ob.site(rel, node, 'division by {} (audited)'.format(t))
                    continue
                if fv is None:
                    fv = FuncView(tree, rel, qual)
                facts = fv.facts(node) or ()
                ok = any((ft == t and p is True) or (ft in ('{} > 0'.format(t), '{} != 0'.format(t), '0 < {}'.format(t)) and p is True) or (ft in ('{} == 0'.format(t), '{} <= 0'.format(t)) and p is False) for (ft, p) in facts)
                if ok:
                    ob.site(rel, node, 'division by {} under a test that excludes zero'.format(t))
                else:
                    ob.violate(rel, qual, '{}  (divisor {})'.format(src(node)[:60], t), 'a division by a value that is zero for some input (here: a difference of acknowledged lengths the peer chooses) and is not tested first: '
                               'ZeroDivisionError leaves the handler, the message that triggered it has no effect (no finished signal, the transfer stays in the send queue)', node)
    return n


def route_tables_append_only(tree, ob, rel='bp/agent.py'):
    ''' the configured routes carry the operator's parameters (the MTU of a link above all).  At run time the agent adds
    routes (add_tx_route, peer discovery) behind the configured ones -- first match wins, so they never shadow them -- and
    does nothing else to the tables.  An entry that is replaced in place (a "refresh" of a discovered peer) swaps a configured
    route for one without its MTU: the next large bundle goes out unfragmented. '''
    MUT = ('insert', 'remove', 'pop', 'clear', 'sort', 'reverse', 'extend', '__setitem__', '__delitem__')
    n = 0
    for (r, qual, func) in tree.all_functions([rel]):
        aliases = {'self._config.tx_route_table', 'self._config.rx_route_table'}
        for node in walk_local(func):
            if isinstance(node, ast.Assign) and len(node.targets) == 1 and isinstance(node.targets[0], ast.Name) and src(node.value) in aliases:
                aliases.add(node.targets[0].id)
        for node in walk_local(func):
            bad = None
            if isinstance(node, (ast.Assign, ast.AugAssign, ast.Delete)):
                tgts = node.targets if not isinstance(node, ast.AugAssign) else [node.target]
                for t in tgts:
                    if isinstance(t, ast.Subscript) and src(t.value) in aliases:
                        bad = t
                    if isinstance(t, ast.Attribute) and src(t) in ('self._config.tx_route_table', 'self._config.rx_route_table'):
                        bad = t
            if isinstance(node, ast.Call) and isinstance(node.func, ast.Attribute) and src(node.func.value) in aliases:
                if node.func.attr in MUT:
                    bad = node
                elif node.func.attr == 'append':
                    n += 1
                    ob.site(rel, node, '{}: a route is added behind the existing ones'.format(qual))
            if bad is not None:
                ob.violate(rel, qual, src(node)[:80], 'a route table is changed at run time other than by appending: a configured route (with its MTU) can be replaced or dropped, '
                           'bundles then leave unfragmented or by another route than configured', node, sure=True)
    ob.require(n >= 1, 'appends to the route tables in ' + rel)


def transfers_outlive_sess_term(tree, ob):
    ''' RFC 9174: after SESS_TERM no NEW transfer starts; the ones in progress are finished.  The segment and acknowledgement
    handlers therefore never refuse (or drop) a message because a SESS_TERM was sent or received -- a refusal conditioned
    on the termination flags cuts a transfer in progress off: it is never delivered / never acknowledged. '''
    SESS = 'tcpcl/session.py'
    n = 0
    for qual in ('Messenger.recv_xfer_data', 'ContactHandler.recv_xfer_data', 'Messenger.recv_xfer_ack', 'ContactHandler.recv_xfer_ack'):
        fv = FuncView(tree, SESS, qual)
        for r in [x for x in walk_local(fv.func) if isinstance(x, (ast.Raise, ast.Return))]:
            n += 1
            facts = fv.facts(r) or ()
            bad = [(t, p) for (t, p) in facts if ('_term_recv' in t or '_in_term' in t or '_term_sent' in t) and p is True]
            if bad and (isinstance(r, ast.Raise) or r.value is None):
                ob.violate(SESS, qual, '{} under {}'.format(src(r)[:50], bad[0][0]), 'a transfer message is refused / dropped because the session is terminating: a transfer that was in progress when SESS_TERM '
                           'went by is cut off (its bundle is never delivered, its sender never acknowledged) although termination has to let it finish', r, sure=True)
    ob.require(n >= 2, 'exits of the transfer handlers')
    if not ob.findings:
        ob.site(SESS, tree.func(SESS, 'Messenger.recv_xfer_data'), 'the transfer handlers take segments and acknowledgements whatever the termination flags say ({} exits)'.format(n))


def rx_map_inserted_on_completion_only(tree, ob):
    ''' the receive queue lists completed bundles in the order they completed (dict order): an entry is made in one place, when
    the END segment of a transfer has been taken.  A method that takes an entry out and puts it back (to "roll back" a failed
    pop) moves it behind the bundles that completed later. '''
    SESS = 'tcpcl/session.py'
    cls = tree.klass(SESS, 'ContactHandler')
    n = 0
    for m in [x for x in cls.body if isinstance(x, ast.FunctionDef)]:
        for node in walk_local(m):
            if isinstance(node, (ast.Assign, ast.AugAssign)):
                for t in (node.targets if isinstance(node, ast.Assign) else [node.target]):
                    if isinstance(t, ast.Subscript) and self_attr(t.value) == '_rx_map':
                        n += 1
                        if m.name == 'recv_xfer_data':
                            ob.site(SESS, node, 'queue entry made when the transfer completes')
                        else:
                            ob.violate(SESS, 'ContactHandler.' + m.name, src(node)[:60], 'an entry of the receive queue is (re-)inserted outside the completion of a transfer: it moves to the end of '
                                       'the queue, recv_bundle_get_queue no longer lists bundles in the order they arrived', node, sure=True)
    ob.require(n >= 1, 'insertions into _rx_map')


def log_calls_cannot_raise(tree, ob, rels):
    """ logging swallows a format error of a log call (wrong number of arguments for the placeholders) -- unless something
    formats the record eagerly inside the call: a filter that calls record.getMessage() (or `msg % args`) turns such a
    log line into an exception in the code that logs.  Both sites look fine alone; together a log line behind a completed
    step (e.g. after the bundle was sent) raises into the failure arm, and a forwarded bundle is reported deleted. """
    import re as _re
    from ..core import is_logging_call
    bad = []
    n = 0
    for rel in rels:
        for (r, qual, func) in tree.all_functions([rel]):
            for c in calls_in(func):
                if not is_logging_call(c) or not c.args or any(isinstance(a, ast.Starred) for a in c.args) or c.func.attr == 'log':
                    continue
                fmt = c.args[0]
                if not (isinstance(fmt, ast.Constant) and isinstance(fmt.value, str)):
                    continue
                n += 1
                text = fmt.value.replace('%%', '')
                if _re.search(r'%\(', text):
                    continue
                want = len(_re.findall(r'%[-#0 +]*(?:\*|\d+)?(?:\.(?:\*|\d+))?[a-zA-Z]', text))
                have = len(c.args) - 1
                if want != have and not (have == 0):
                    bad.append((rel, qual, c, want, have))
    eager = []
    for (rel, mod) in sorted(tree.modules.items()):
        for (r, qual, func) in tree.all_functions([rel]):
            fmts = [c for c in calls_in(func) if isinstance(c.func, ast.Attribute) and c.func.attr == 'getMessage']
            fmts += [b for b in walk_local(func) if isinstance(b, ast.BinOp) and isinstance(b.op, ast.Mod) and src(b.left).endswith('.msg') and src(b.right).endswith('.args')]
            if not fmts:
                continue
            cls = enclosing(func, (ast.ClassDef,))
            is_filter = func.name == 'filter' and cls is not None and any('Filter' in src(b) for b in cls.bases)
            if not is_filter:
                for (rel2, mod2) in tree.modules.items():
                    for c2 in ast.walk(mod2.tree):
                        if isinstance(c2, ast.Call) and isinstance(c2.func, ast.Attribute) and c2.func.attr == 'addFilter' and c2.args and src(c2.args[0]).split('.')[-1] == func.name:
                            is_filter = True
            if is_filter:
                eager.append((rel, qual, fmts[0]))
    if eager and bad:
        for (rel, qual, c, want, have) in bad:
            ob.violate(rel, qual, src(c)[:80], 'this log call has {} placeholder(s) for {} argument(s), and a logging filter of the repository ({} in {}) formats every record eagerly: the call '
                       'raises instead of logging, whatever step it stands behind is taken for failed (a bundle already sent is recorded and reported as deleted)'.format(want, have, eager[0][1], eager[0][0]), c, sure=True)
    else:
        for (rel, qual, c, want, have) in bad:
            ob.undetermined.append('src/{}:{} {}: log call with {} placeholder(s) for {} argument(s) (swallowed by logging while nothing formats records eagerly)'.format(rel, c.lineno, qual, want, have))
        ob.site(rels[0], tree.module(rels[0]).tree, '{} log calls examined, {} with a placeholder / argument mismatch, {} eager record formatter(s) installed'.format(n, len(bad), len(eager)))


def encoders_do_not_mask(tree, ob, rels):
    """ a field encoder puts the value it is given on the wire, or fails: it does not fold the value into the width or the
    defined bits of the field (x & 0xFFFF, x % 65536, x & self.maxval).  A folded value is a different value: the program
    keeps working with the one it has (a keepalive interval, the flags of a block in transit) while the peer gets another. """
    ARITH = (ast.BitAnd, ast.Mod, ast.RShift, ast.LShift)
    n = 0
    for rel in rels:
        for node in tree.module(rel).tree.body:
            if not isinstance(node, ast.ClassDef):
                continue
            for m in node.body:
                if not (isinstance(m, ast.FunctionDef) and m.name in ('i2m', 'addfield', 'h2i', 'any2i')):
                    continue
                n += 1
                qual = node.name + '.' + m.name
                ops = [b for b in walk_local(m) if (isinstance(b, ast.BinOp) and isinstance(b.op, ARITH) and not (isinstance(b.left, ast.Constant) and isinstance(b.left.value, (str, bytes))))
                       or (isinstance(b, ast.AugAssign) and isinstance(b.op, ARITH))]
                if ops:
                    ob.violate(rel, qual, src(ops[0])[:60], 'the encoder folds the value into the field (mask / modulo) instead of encoding it or failing: what goes on the wire is another value than the '
                               'one the program holds and negotiates or forwards with (an interval above 65535 is announced modulo 65536; unassigned flag bits of a bundle in transit are stripped)', ops[0], sure=True)
                else:
                    ob.site(rel, m, qual + ' encodes the value it is given (no mask / modulo)')
    return n
