''' C07 — TCPCL message framing is independent of how TCP chunks the stream (structural clauses). '''
import ast
from ..core import AnalysisError, walk_local, calls_in, call_name, dotted, src, self_attr
from ..lib import (FuncView, pm, method_calls, one, at_least, stores_to_self_attr, const_str, path_text)
from ..cfg import handler_names
from .. import norm, schema
from .c04 import c04h

SESS = 'tcpcl/session.py'
MSGS = 'tcpcl/messages.py'
CONTACT = 'tcpcl/contact.py'
FORMATS = 'tcpcl/formats.py'
EXTEND = 'tcpcl/extend.py'
MODS = {'messages': MSGS, 'contact': CONTACT, 'extend': EXTEND}


def check(chk, thorough=False):
    tree = chk.tree
    chk.run('C07.a', 'R-NOPATH', 'a partial message leaves the receive buffer untouched and nothing is acted on; a complete one is consumed before it is acted on; the loop continues while octets remain', lambda ob: c07a(tree, ob), floor=4)
    chk.run('C07.b', 'R-SCHEMA', 'every class used to probe the stream has a completeness check that can say "partial"', lambda ob: c07b(tree, ob), floor=2)
    chk.run('C07.c', 'R-SCHEMA', 'every length-prefixed field is verified against what was actually read, also when the value is empty', lambda ob: c07c(tree, ob), floor=6)
    chk.run('C07.d', 'R-SCHEMA', 'the completeness check accepts every bound message at its minimal encoded length', lambda ob: c07d(tree, ob), floor=7)
    chk.run('C07.g', 'R-PAIR', 'trailing octets are not counted into a probed message: every probe class strips the padding layer before the message is measured', lambda ob: c07g(tree, ob), floor=3)
    chk.run('C07.h', 'R-GUARD', 'only a known message type can be called partial: an unassigned type is passed on (to be rejected) however many octets follow it (= C17.f)', lambda ob: __import__('sa.props.c17', fromlist=['c17f']).c17f(tree, ob), floor=2)
    chk.run('C07.f', 'R-FLOW', 'what is written to the socket is exactly the encoded messages: byte buffers only appended and prefix-dropped by what was accepted (= C01.b)', lambda ob: _c01b(tree, ob), floor=7)
    chk.run('C07.i', 'R-PAIR', 'what follows the contact header in the same read is decoded as messages: the decoder class is chosen per message, and every handler that drains runs the close check (= C09.a)', lambda ob: __import__('sa.props.c09', fromlist=['c09a']).c09a(tree, ob), floor=5)
    chk.run('C07.e', 'R-SCHEMA', 'message layouts equal RFC 9174 (= C04.h)', lambda ob: c04h(tree, ob), floor=7)


def _c01b(tree, ob):
    from .c01 import c01b
    return c01b(tree, ob)


def _tls_pending(tree, ob):
    ''' One recv() per io callback is enough on a plain socket (the descriptor stays readable).  An SSL object decrypts a
    whole record at once; what is left of it after one recv() is in user space and never makes the descriptor readable:
    the callback must drain pending() before it returns. '''
    fv = FuncView(tree, SESS, 'Connection._rx_proxy')
    loops = [n for n in walk_local(fv.func) if isinstance(n, ast.While) and 'pending()' in src(n.test)]
    ok = any(method_calls(lp, 'recv_raw', 'self') and any(isinstance(c.func, ast.Attribute) and c.func.attr == 'recv' for c in calls_in(lp)) for lp in loops)
    if ok:
        ob.site(SESS, loops[0], '_rx_proxy drains what the SSL object already holds')
    else:
        ob.violate(SESS, fv.qual, 'one sock.recv() per io callback', 'over TLS the tail of a record larger than one chunk stays inside the SSL object and does not make the descriptor readable: a complete '
                   'message is acted on only when unrelated later traffic arrives (or never)', fv.func)


def _leftover_close(tree, ob):
    ''' octets that follow a message in the same read are the next message(s).  The one place where they may be refused
    is ahead of a TLS handshake that is really going to happen (C15.b); refusing them on the strength of the local
    configuration alone loses a SESS_INIT that a peer without TLS legitimately sends behind its contact header. '''
    fv = FuncView(tree, SESS, 'Messenger.recv_message')
    n = 0
    for c in method_calls(fv.func, 'close', 'self'):
        facts = fv.facts(c) or ()
        if not any((t, p) in (('self.__rx_buf', True), ('len(self.__rx_buf) > 0', True), ('len(self.__rx_buf) == 0', False), ('len(self.__rx_buf)', True)) for (t, p) in facts):
            continue
        n += 1
        if ('self._tls_attempt', True) in facts:
            ob.site(SESS, c, 'octets behind the contact header are refused only ahead of a negotiated TLS handshake')
        else:
            ob.violate(SESS, fv.qual, 'self.close() because self.__rx_buf is not empty', 'a complete message that arrived in the same read as the one before it is discarded and the '
                       'connection closed, although no TLS handshake is about to start', c)
    return n


def c07a(tree, ob):
    _tls_pending(tree, ob)
    _leftover_close(tree, ob)
    fv = FuncView(tree, SESS, 'Messenger.recv_raw')
    func = fv.func
    loops = [n for n in walk_local(func) if isinstance(n, ast.While)]
    loop = one(loops, 'message loop in recv_raw', ob)
    if src(loop.test) not in ('self.__rx_buf', 'len(self.__rx_buf) > 0', 'len(self.__rx_buf)'):
        ob.violate(SESS, fv.qual, 'while ' + src(loop.test), 'message loop does not run while the receive buffer is non-empty', loop)
    else:
        ob.site(SESS, loop, 'loop while the receive buffer holds octets')
    handlers = [h for h in walk_local(func) if isinstance(h, ast.ExceptHandler)]
    partial = [h for h in handlers if any(nm and nm.endswith('VerifyError') for nm in handler_names(h))]
    ph = one(partial, 'VerifyError (partial message) handler', ob)
    msgr = tree.klass(SESS, 'Messenger')
    # (a reset to b'' once the connection is closed is not a consume: judged by C01.b)
    drops = [st for (f, st, k, v) in stores_to_self_attr(msgr, '__rx_buf') if f is func and k == 'assign'
             and not (isinstance(v, ast.Constant) and v.value == b'' and fv.has(st, 'self.get_app_socket() is None', True))]
    ob.require(drops, 'no consume of the receive buffer')
    acts = method_calls(func, 'recv_message', 'self')
    act = one(acts, 'recv_message dispatch', ob)
    after = fv.cfg.reachable([fv.cfg.node_of(ph)])
    bad = [n for n in [fv.node(d) for d in drops] + [fv.node(act)] if n in after]
    # the consume that precedes the dispatch (others, if any, were just judged against the partial path)
    main = [d for d in drops if fv.node(d) not in after]
    drop = one(main, 'consume of the receive buffer on the complete-message path', ob) if main else drops[0]
    if bad:
        ob.violate(SESS, fv.qual, 'except VerifyError: ... ' + bad[0].text()[:50], 'after a partial decode the buffer is consumed or a message is acted on', ph)
    else:
        ob.site(SESS, ph, 'partial => return, buffer untouched, nothing dispatched')
    # "partial" means: wait for more octets.  The arm does nothing but log and leave -- in particular it does not give up on
    # the connection because of how much is buffered (a bound that forgets the message header closes on a legal segment
    # of exactly the MRU when the read ends inside it)
    from ..core import is_logging_stmt
    extra = [st for st in ph.body if not is_logging_stmt(st) and not isinstance(st, (ast.Return, ast.Pass)) and not (isinstance(st, ast.Expr) and isinstance(st.value, ast.Constant))]
    if extra:
        ob.violate(SESS, fv.qual, 'except VerifyError: ... ' + src(extra[0])[:60], 'a partial message is answered with more than waiting: the connection is closed (or state is changed) while a legal message '
                   'is still arriving, and the bundle it carries is lost', extra[0])
    else:
        ob.site(SESS, ph, 'the partial arm only logs and returns')
    # the probe decodes the buffer itself and the consume precedes the dispatch
    probes = [n for n in walk_local(func) if isinstance(n, ast.Assign) and pm('msgcls(self.__rx_buf)', n.value) is not None]
    if len(probes) != 1:
        ob.violate(SESS, fv.qual, 'pkt = msgcls(self.__rx_buf)', 'the probe does not decode the receive buffer itself', func)
    else:
        ob.site(SESS, probes[0], 'probe decodes the receive buffer')
        pname = src(probes[0].targets[0])
        if [src(a) for a in act.args] != [pname]:
            ob.violate(SESS, fv.qual, src(act), 'the packet acted on is not the packet that was probed', act)
    ok, wit = fv.dominates(drop, act)
    if ok:
        ob.site(SESS, drop, 'message octets leave the buffer before the message is acted on')
    else:
        ob.violate(SESS, fv.qual, src(act), 'a message is acted on while its octets still sit in the receive buffer (idle / buffer-use queries made by the handler see stale data)', act, path_text(wit))
    # the always-append
    apps = [st for (f, st, k, v) in stores_to_self_attr(msgr, '__rx_buf') if f is func and k == 'aug']
    app = one(apps, 'append of received octets', ob)
    if fv.node(app) in fv.cfg.reachable([fv.node(loop.test)]):
        ob.violate(SESS, fv.qual, src(app), 'received octets are appended inside the message loop', app)


def _probe_classes(tree):
    fv = FuncView(tree, SESS, 'Messenger.recv_raw')
    res = []
    for n in walk_local(fv.func):
        if isinstance(n, ast.Assign) and src(n.targets[0]) == 'msgcls':
            name = dotted(n.value)
            if not name or name.split('.')[0] not in MODS:
                raise AnalysisError('C07.b: unrecognised probe class ' + src(n.value))
            res.append((MODS[name.split('.')[0]], name.split('.')[1], n))
    return res


def _post_dissection(tree, rel, cls):
    got = tree.find_method(rel, cls, 'post_dissection')
    return got


def _scapy_dissect_mode(tree, ob):
    ''' the probe relies on scapy's default handling of a layer that cannot be dissected (kept as raw octets, judged by the
    completeness check).  With conf.debug_dissector set, the same short read raises struct.error out of the receive
    callback instead: nothing in the repository may switch it on. '''
    n = 0
    for rel in sorted(tree.modules):
        for node in ast.walk(tree.module(rel).tree):
            tgt = None
            if isinstance(node, (ast.Assign, ast.AugAssign, ast.AnnAssign)):
                for t in (node.targets if isinstance(node, ast.Assign) else [node.target]):
                    if isinstance(t, ast.Attribute) and t.attr == 'debug_dissector':
                        tgt = t
            elif isinstance(node, ast.Call) and (call_name(node) or '') == 'setattr' and len(node.args) >= 2 and isinstance(node.args[1], ast.Constant) and node.args[1].value == 'debug_dissector':
                tgt = node
            if tgt is not None:
                val = node.value if not isinstance(node, ast.Call) else (node.args[2] if len(node.args) > 2 else None)
                if isinstance(val, ast.Constant) and not val.value:
                    continue
                n += 1
                ob.violate(rel, '<module>', 'debug_dissector = ' + (src(val) if val is not None else '?'), 'scapy is switched to raise on a layer it cannot dissect: a read that ends inside the fixed-size '
                           'fields of a message raises struct.error out of the receive callback instead of being kept as a prefix', node, sure=True)
    if not n:
        ob.site(SESS, tree.module(SESS).tree, 'scapy dissects in its default (non-raising) mode: {} modules scanned'.format(len(tree.modules)))


def c07b(tree, ob):
    _scapy_dissect_mode(tree, ob)
    for (rel, cls, node) in _probe_classes(tree):
        got = _post_dissection(tree, rel, cls)
        ok = False
        if got:
            for r in walk_local(got[2]):
                if isinstance(r, ast.Raise) and r.exc is not None and 'VerifyError' in src(r.exc):
                    ok = True
        if ok:
            ob.site(rel, got[2], '{} has a completeness check'.format(cls))
        else:
            ob.violate(rel, cls, 'post_dissection', 'probe class {} has no completeness check: a prefix of it is consumed as if it were whole, '
                       'and a shorter prefix raises out of the receive callback'.format(cls), tree.klass(rel, cls))
            continue
        # a header whose payload has not arrived at all is partial (for a known type)
        fvp = FuncView(tree, got[0], got[1].name + '.post_dissection')
        nopay = [r for r in walk_local(fvp.func) if isinstance(r, ast.Raise) and r.exc is not None and 'VerifyError' in src(r.exc) and fvp.has(r, 'self.payload', False)]
        if not nopay:
            ob.violate(rel, cls + '.post_dissection', 'if not self.payload: raise VerifyError', 'probe class {}: a header whose payload octets have not arrived yet is acted on as a whole message'.format(cls), fvp.func)
        else:
            ob.site(rel, nopay[0], '{}: missing payload => partial'.format(cls))
        # the fixed-size fields of the probe class itself: one octet (the loop guarantees one), or guarded by a length
        # check that reports "partial" before the fields are read (a short read otherwise raises struct.error)
        own = sum(f.width or 0 for f in schema.fields_desc(tree, rel, cls))
        pre = tree.find_method(rel, cls, 'pre_dissect')
        guard = None
        if pre and pre[1].name == cls:
            fpre = FuncView(tree, pre[0], cls + '.pre_dissect')
            arg = pre[2].args.args[1].arg if len(pre[2].args.args) > 1 else None
            for r in walk_local(pre[2]):
                if isinstance(r, ast.Raise) and r.exc is not None and 'VerifyError' in src(r.exc):
                    for (text, pol) in fpre.facts(r) or ():
                        got_n = _len_bound(tree, rel, text, pol, arg)
                        if got_n is not None:
                            guard = max(guard or 0, got_n)
        if own <= 1:
            ob.site(rel, tree.klass(rel, cls), '{}: fixed part is {} octet (the message loop runs on a non-empty buffer)'.format(cls, own))
        elif guard is not None and guard >= own:
            ob.site(rel, pre[2], '{}: fewer than {} octets => partial (fixed part is {} octets)'.format(cls, guard, own))
        else:
            ob.violate(rel, cls, 'pre_dissect', 'probe class {} reads {} fixed octets without a length check that says "partial": a shorter prefix raises struct.error out of '
                       'the receive callback'.format(cls, own), tree.klass(rel, cls))


def _padding_strippers(tree, ob):
    ''' remove_padding() cuts off what follows a packet.  For the two probe classes that is the rest of the stream (the next
    messages).  For a packet that sits INSIDE a message -- an extension item in its list -- what follows it are its
    siblings: stripping there drops every item behind the first, the list no longer fills its declared length, and the
    message is never complete. '''
    probes = {(rel, cls) for (rel, cls, node) in _probe_classes(tree)}
    if len(probes) < 2:
        raise AnalysisError('C07.g: the probe classes of the receive loop are not recognised ({})'.format(sorted(probes)))
    n = 0
    for rel in (MSGS, CONTACT, EXTEND, FORMATS):
        for (r, qual, func) in tree.all_functions([rel]):
            for c in calls_in(func):
                if (call_name(c) or '').split('.')[-1] != 'remove_padding' or qual == 'remove_padding':
                    continue
                n += 1
                cls = qual.split('.')[0]
                if (rel, cls) in probes and qual.endswith('.post_dissection') and [src(a) for a in c.args] == ['self']:
                    ob.site(rel, c, 'padding stripped by probe class ' + cls)
                else:
                    ob.violate(rel, qual, src(c), 'trailing octets are stripped from a packet that is not one of the stream probe classes: inside a message they are the items that follow, '
                               'which are lost (a START segment with two extension items never becomes complete)', c, sure=True)
    ob.require(n >= 1, 'remove_padding call sites: {}'.format(n))


def _padding_handed_on(tree, ob):
    ''' a layer without payload hands every octet behind its own fields on as padding, which scapy gives to the enclosing
    layer: the next item of an extension list, the rest of the message.  An extract_padding() that returns nothing for
    the remainder makes those octets vanish: a list of two items ends after the first, the lengths no longer add up and
    the complete message is taken for a partial one for ever. '''
    n = 0
    for rel in ('tcpcl/formats.py', 'tcpcl/messages.py', 'tcpcl/contact.py', 'tcpcl/extend.py'):
        if rel not in tree.modules:
            continue
        for (r, qual, func) in tree.all_functions([rel]):
            if func.name != 'extract_padding' or len(func.args.args) < 2:
                continue
            n += 1
            sp = func.args.args[1].arg
            for ret in [x for x in walk_local(func) if isinstance(x, ast.Return)]:
                v = ret.value
                if isinstance(v, ast.Tuple) and len(v.elts) == 2:
                    (pay, pad) = v.elts
                    used = {x.id for e in (pay, pad) for x in ast.walk(e) if isinstance(x, ast.Name)}
                    if sp in used:
                        ob.site(rel, ret, qual + ': the octets behind the layer are handed on')
                    else:
                        ob.violate(rel, qual, src(ret)[:60], 'the octets that follow this layer are dropped instead of being handed on as padding: the second item of an extension list (and whatever '
                                   'follows) is lost, the verified lengths no longer agree and a complete SESS_INIT / XFER_SEGMENT is never acted on', ret, sure=True)
    ob.require(n >= 1, 'extract_padding definitions')


def c07g(tree, ob):
    _padding_strippers(tree, ob)
    _padding_handed_on(tree, ob)
    ''' recv_raw measures a message by re-encoding the probed packet.  scapy keeps octets that follow the last layer as
    a Padding layer, which is re-encoded too: unless the probe class strips it, the measured length covers the whole
    receive buffer and the octets of the next message are consumed with this one. '''
    for (rel, cls, node) in _probe_classes(tree):
        got = _post_dissection(tree, rel, cls)
        if not got:
            ob.violate(rel, cls, 'post_dissection', 'probe class {} never strips trailing octets: they are counted into the message and consumed with it'.format(cls), tree.klass(rel, cls))
            continue
        fvp = FuncView(tree, got[0], got[1].name + '.post_dissection')
        strips = [c for c in calls_in(fvp.func) if (call_name(c) or '').split('.')[-1] == 'remove_padding' and [src(a) for a in c.args] == ['self']]
        ok = bool(strips) and fvp.cfg.must_pass(fvp.cfg.entry, fvp.cfg.exit, {fvp.node(c) for c in strips}, include_exc=False)[0]
        if ok:
            ob.site(rel, strips[0], '{}: trailing octets are stripped on every normal way out of post_dissection'.format(cls))
        else:
            ob.violate(rel, cls + '.post_dissection', 'formats.remove_padding(self)', 'probe class {} does not strip trailing octets on every path: they are counted into the message and the next '
                       'message is consumed with this one'.format(cls), fvp.func)
    fr = FuncView(tree, FORMATS, 'remove_padding')
    cut = [c for c in calls_in(fr.func) if isinstance(c.func, ast.Attribute) and c.func.attr == 'remove_payload']
    pad = [n for n in fr.cfg.nodes if n.kind == 'cond' and any('packet.Padding' in t or t.endswith('Padding)') for (t, p) in norm.all_atoms(n.ast))]
    if not cut or not pad or not fr.cfg.must_pass(fr.cfg.entry, fr.node(cut[0]), set(pad))[0]:
        ob.violate(FORMATS, 'remove_padding', 'isinstance(testload, packet.Padding) -> remove_payload()', 'remove_padding does not cut the Padding layer', fr.func)
    else:
        ob.site(FORMATS, cut[0], 'remove_padding cuts the Padding layer off its underlayer')
    # the measured length is that of the re-encoded probe, and exactly that many octets are dropped (C07.a / C01.b)


def _len_bound(tree, rel, text, pol, arg):
    ''' N when the fact (text, pol) means "len(<arg>) < N" (N a constant expression). '''
    from ..core import const_int
    try:
        node = ast.parse(text, mode='eval').body
    except SyntaxError:
        return None
    if not (isinstance(node, ast.Compare) and len(node.ops) == 1):
        return None
    (lhs, op, rhs) = (node.left, node.ops[0], node.comparators[0])
    if pm('len({})'.format(arg), lhs) is None:
        return None
    n = _const_len(tree, rel, rhs)
    if n is None:
        return None
    if pol is True and isinstance(op, ast.Lt):
        return n
    if pol is True and isinstance(op, ast.LtE):
        return n + 1
    if pol is False and isinstance(op, ast.GtE):
        return n
    if pol is False and isinstance(op, ast.Gt):
        return n + 1
    return None


def _const_len(tree, rel, expr):
    ''' constant integer expressions, with len(<module-level bytes constant>) '''
    from ..core import const_int
    if isinstance(expr, ast.BinOp) and isinstance(expr.op, (ast.Add, ast.Sub)):
        a = _const_len(tree, rel, expr.left)
        b = _const_len(tree, rel, expr.right)
        if a is None or b is None:
            return None
        return a + b if isinstance(expr.op, ast.Add) else a - b
    got = pm('len($c)', expr)
    if got is not None and isinstance(got['c'], ast.Name):
        for st in tree.module(rel).tree.body:
            if isinstance(st, ast.Assign) and src(st.targets[0]) == got['c'].id and isinstance(st.value, ast.Constant) and isinstance(st.value.value, (bytes, str)):
                return len(st.value.value)
        return None
    return const_int(tree, rel, expr)


def _packet_classes(tree):
    for rel in (MSGS, CONTACT, EXTEND):
        for node in tree.module(rel).tree.body:
            if isinstance(node, ast.ClassDef) and any(isinstance(i, ast.Assign) and src(i.targets[0]) == 'fields_desc' for i in node.body):
                yield rel, node


def _field_decoders_no_truthiness(tree, ob):
    ''' a field decoder of the TCPCL formats that decides "not all here yet" looks at lengths, never at the truthiness of
    the octets that are left: an item of length zero at the very end of what was read has nothing left and is complete. '''
    rel = 'tcpcl/formats.py'
    n = 0
    for node in tree.module(rel).tree.body:
        if not isinstance(node, ast.ClassDef):
            continue
        for m in node.body:
            if not (isinstance(m, ast.FunctionDef) and m.name == 'getfield' and len(m.args.args) >= 3):
                continue
            n += 1
            sp = m.args.args[2].arg
            qual = node.name + '.getfield'
            fv = FuncView(tree, rel, qual)
            bad = [cn for cn in fv.cfg.nodes if cn.kind == 'cond' and any(t == sp for (t, pol) in norm.all_atoms(cn.ast))]
            raises = [r for r in walk_local(m) if isinstance(r, ast.Raise)]
            if bad and raises:
                ob.violate(rel, qual, 'if not {}: raise ...'.format(sp), 'the field decoder takes "no octets left" for "not all here yet": an item of length zero that ends exactly where the read ends '
                           '(a zero-length XFER_SEGMENT at a read boundary) is held back as partial until another octet arrives', bad[0].ast, sure=True)
            else:
                ob.site(rel, m, qual + ' does not test the remaining octets by truthiness')
    return n


def c07c(tree, ob):
    _field_decoders_no_truthiness(tree, ob)
    for (rel, cnode) in _packet_classes(tree):
        flds = schema.fields_desc(tree, rel, cnode.name, inherit=False)
        for fld in flds:
            is_len = fld.length_of is not None or fld.kind.endswith('PayloadLenField') or fld.kind == 'LenField'
            if not is_len:
                continue
            got = _post_dissection(tree, rel, cnode.name)
            target = fld.length_of or 'payload'
            if not got or got[1] is not cnode and got[1].name not in [b.name for (_r, b) in tree.mro(rel, cnode.name)]:
                ob.violate(rel, cnode.name, fld.name, 'length field {} (of {}) is never verified'.format(fld.name, target), cnode)
                continue
            pd = got[2]
            fvp = FuncView(tree, got[0], got[1].name + '.post_dissection')
            calls = [c for c in calls_in(pd) if (call_name(c) or '').endswith('verify_sized_item') and c.args and src(c.args[0]) == 'self.' + fld.name]
            if not calls:
                ob.violate(rel, cnode.name, fld.name, 'length field {} (of {}) is never compared with what was actually read'.format(fld.name, target), cnode)
                continue
            call = calls[0]
            # the measured item must be the governed field / the payload
            item = fvp.value_at(call.args[1], call)
            txt = src(item)
            if target == 'payload':
                okitem = txt == 'self.payload'
            else:
                okitem = target in txt
                enc = pm("$f.addfield(self, b'', $v)", item)
                if not okitem and enc is not None and isinstance(enc['v'], ast.Name) and isinstance(enc['f'], ast.Name):
                    # (field, val) = self.getfield_and_val('<target>'); encoded = field.addfield(self, b'', val)
                    okitem = True
                    for nm in (enc['v'].id, enc['f'].id):
                        rd = fvp.reaching_defs(nm, call)
                        if not (len(rd) == 1 and isinstance(rd[0][1], norm._Unpack) and
                                pm("self.getfield_and_val('{}')".format(target), rd[0][1].value) is not None):
                            okitem = False
            if not okitem:
                ob.violate(rel, cnode.name, src(call), 'length field {} is compared with {} instead of {}'.format(fld.name, txt, target), call)
                continue
            # what is measured is octets: reading a text field as an attribute hands out its human form (i2h = decode), and
            # bytes() of a str raises TypeError -- not a VerifyError -- out of the dissection and so out of the receive callback
            if target != 'payload' and txt == 'self.' + target:
                tk = [f for f in flds if f.name == target]
                if tk and tree.has_class('tcpcl/formats.py', tk[0].kind):
                    kcls = tree.klass('tcpcl/formats.py', tk[0].kind)
                    i2h = [m for m in kcls.body if isinstance(m, ast.FunctionDef) and m.name == 'i2h']
                    if i2h and any(isinstance(c2.func, ast.Attribute) and c2.func.attr == 'decode' for c2 in calls_in(i2h[0])):
                        ob.violate(rel, cnode.name + '.post_dissection', src(call)[:80] + '  ({} is a {})'.format(target, tk[0].kind), 'the item measured is a text field read as an attribute: the attribute is its decoded '
                                   'text, bytes() of it raises TypeError, which is no VerifyError -- a header of this kind makes the receive callback raise instead of being refused (the connection is never closed)', call, sure=True)
                        continue
            # guards: only "value is not None" style; a truthiness guard skips the check for an empty value
            facts = fvp.facts(call) or frozenset()
            truthy = [f for f in facts if f[1] is True and ' ' not in f[0] and not f[0].startswith('self.') and '(' not in f[0]]
            if truthy:
                ob.violate(rel, cnode.name + '.post_dissection', 'if {}: verify_sized_item(self.{}, ...)'.format(truthy[0][0], fld.name),
                           'the length check of {} is skipped when the decoded value is empty, so a message cut right after the length field is taken as complete'.format(target), call)
                continue
            # ... and the check is made for every message of the class: it is reached whatever the flags / other fields say
            other = [f for f in facts if not (f[0].endswith(' is None') or f[0].endswith(' is not None')) and not f[0].startswith('isinstance(') and f not in truthy]
            if other:
                ob.violate(rel, cnode.name + '.post_dissection', 'verify_sized_item(self.{}, ...) only when {}{}'.format(fld.name, '' if other[0][1] else 'not ', other[0][0])[:110],
                           'the length check of {} is made for some messages of this type only (a return or a branch on another field comes first): the others are taken as complete when cut inside '
                           'the item, and the octets that follow are decoded as messages'.format(target), call, sure=True)
            else:
                ob.site(rel, call, '{}.{} verified against {}'.format(cnode.name, fld.name, target))
    # verify_sized_item itself compares lengths and raises VerifyError
    fv = FuncView(tree, FORMATS, 'verify_sized_item')
    rs = [r for r in walk_local(fv.func) if isinstance(r, ast.Raise) and 'VerifyError' in src(r.exc)]
    cmp_ok = any(fv.has(r, 'read_len == item_len', False) for r in rs)
    if not cmp_ok:
        ob.violate(FORMATS, 'verify_sized_item', 'read_len != item_len', 'the size check does not raise on a length mismatch', fv.func)
    else:
        ob.site(FORMATS, fv.func, 'verify_sized_item raises VerifyError on mismatch')
    # the only way to skip the comparison is an absent length; an empty item must still be compared
    # (every normal way out of the function either knows "length is None" or that the two lengths were compared equal)
    for (pred, _label, facts) in fv.exit_facts():
        if ('length is None', True) in facts or ('read_len == item_len', True) in facts:
            ob.site(FORMATS, pred.ast or fv.func, 'returns only with an absent length or after the lengths compared equal')
        else:
            ob.violate(FORMATS, 'verify_sized_item', 'return without comparison at ' + pred.text()[:60], 'the length check is skipped for a reason other than "no length field": with an empty item a message cut '
                       'right after its length field is taken as complete', pred.ast or fv.func)
    # a length-governed text field keeps its internal value as octets, so that the computed length counts octets
    cls = tree.klass(FORMATS, 'StrLenFieldUtf8')
    meths = {m.name: m for m in cls.body if isinstance(m, ast.FunctionDef)}
    h2i = meths.get('h2i')
    okenc = h2i is not None and any(isinstance(x, ast.Return) and isinstance(x.value, ast.Call) and isinstance(x.value.func, ast.Attribute) and x.value.func.attr == 'encode'
                                    for x in walk_local(h2i))
    if not okenc or 'i2m' in meths or 'm2i' in meths or 'i2len' in meths:
        ob.violate(FORMATS, 'StrLenFieldUtf8', 'h2i / i2m', 'the node-id text field no longer holds UTF-8 octets internally (conversion moved to the wire step): '
                   'its length field then counts characters, and a non-ASCII node id is mis-framed', cls)
    else:
        ob.site(FORMATS, cls, 'StrLenFieldUtf8 holds octets internally (length counts octets)')


def _min_len(tree, rel, cls):
    total = 0
    for fld in schema.fields_desc(tree, rel, cls):
        if fld.cond is not None:
            continue
        if fld.width is not None:
            total += fld.width
    return total


def c07d(tree, ob):
    got = _post_dissection(tree, MSGS, 'MessageHead')
    ob.require(got is not None, 'MessageHead.post_dissection missing')
    fv = FuncView(tree, MSGS, 'MessageHead.post_dissection')
    truthy = [r for r in walk_local(fv.func) if isinstance(r, ast.Raise) and fv.has(r, 'self.payload', False)]

    def only_with_fields(r):
        ''' the raise is reached only when the class bound to this message type declares fields '''
        for (text, pol) in fv.facts(r) or ():
            if pol is True and text.endswith('.fields_desc'):
                base = ast.parse(text[:-len('.fields_desc')], mode='eval').body
                val = fv.value_at(base, r)
                if pm('self.guess_payload_class($_)', val) is not None:
                    return True
        return False

    for (lo, up, kws, node) in schema.bindings(tree, MSGS):
        if lo != 'MessageHead':
            continue
        mlen = _min_len(tree, MSGS, up)
        nfields = len(schema.fields_desc(tree, MSGS, up))
        applies = [r for r in truthy if not (nfields == 0 and only_with_fields(r))]
        if mlen == 0 and applies:
            ob.violate(MSGS, 'MessageHead.post_dissection', 'if not self.payload: raise VerifyError  vs  {} (0 octets)'.format(up),
                       '{} is complete with the header octet alone, but the completeness check calls an empty payload partial: '
                       'the message is not acted on until a further octet arrives'.format(up), applies[0])
        else:
            ob.site(MSGS, node, '{} minimal length {} accepted'.format(up, mlen))
    _early_partial_bounds(tree, ob)


def _early_partial_bounds(tree, ob):
    ''' C07.d, second half: a length test that calls a buffer "partial" before it is dissected (pre_dissect raising
    VerifyError) must not ask for more octets than the shortest message of the type has: it would hold back a complete
    message until further octets arrive. '''
    from ..core import const_int
    minlen = {}
    for (lo, up, kws, node) in schema.bindings(tree, MSGS):
        if lo == 'MessageHead' and kws.get('msg_id') is not None:
            minlen[kws['msg_id']] = 1 + _min_len(tree, MSGS, up)
    pre = tree.find_method(MSGS, 'MessageHead', 'pre_dissect')
    if not pre or pre[1].name != 'MessageHead':
        return
    fpre = FuncView(tree, MSGS, 'MessageHead.pre_dissect')
    ob.require(len(pre[2].args.args) == 2, 'MessageHead.pre_dissect signature')
    arg = pre[2].args.args[1].arg
    cls = tree.klass(MSGS, 'MessageHead')

    def table(name):
        for st in cls.body:
            if isinstance(st, ast.Assign) and src(st.targets[0]) == name and isinstance(st.value, ast.Dict):
                res = {}
                for (k, v) in zip(st.value.keys, st.value.values):
                    (kk, vv) = (const_int(tree, MSGS, k), _const_len(tree, MSGS, v))
                    if kk is None or vv is None:
                        raise AnalysisError('C07.d: table {} entry {} not constant'.format(name, src(k)))
                    res[kk] = vv
                return res
        raise AnalysisError('C07.d: no constant table ' + name)

    for r in walk_local(pre[2]):
        if not (isinstance(r, ast.Raise) and r.exc is not None and 'VerifyError' in src(r.exc)):
            continue
        for (text, pol) in fpre.facts(r) or ():
            node = ast.parse(text, mode='eval').body
            if not (isinstance(node, ast.Compare) and len(node.ops) == 1 and pm('len({})'.format(arg), node.left) is not None):
                continue
            (op, rhs) = (node.ops[0], node.comparators[0])
            if pol is True and isinstance(op, ast.Lt):
                adj = 0
            elif pol is True and isinstance(op, ast.LtE):
                adj = 1
            elif pol is False and isinstance(op, ast.GtE):
                adj = 0
            elif pol is False and isinstance(op, ast.Gt):
                adj = 1
            else:
                continue
            n = _const_len(tree, MSGS, rhs)
            if n is not None:
                need = {k: n + adj for k in minlen}
                other = n + adj
            else:
                key = '{}[0]'.format(arg)
                if not (isinstance(rhs, ast.Call) and isinstance(rhs.func, ast.Attribute) and rhs.func.attr == 'get' and len(rhs.args) == 2 and src(rhs.args[0]) == key
                        and isinstance(rhs.func.value, ast.Attribute) and src(rhs.func.value.value) in ('self', 'MessageHead', 'type(self)', 'self.__class__')):
                    raise AnalysisError('C07.d: length bound {} in MessageHead.pre_dissect not understood'.format(src(rhs)))
                tab = table(rhs.func.value.attr)
                dflt = _const_len(tree, MSGS, rhs.args[1])
                if dflt is None:
                    raise AnalysisError('C07.d: default of {} not constant'.format(src(rhs)))
                need = {k: tab.get(k, dflt) + adj for k in minlen}
                other = max([dflt] + [v for (k, v) in tab.items() if k not in minlen]) + adj
            for (k, v) in sorted(need.items()):
                if v > minlen[k]:
                    ob.violate(MSGS, 'MessageHead.pre_dissect', 'type {:#x}: fewer than {} octets => partial'.format(k, v),
                               'a message of type {:#x} is complete with {:.0f} octets, but a buffer shorter than {} is called partial before it is dissected: '
                               'the complete message is not acted on until further octets arrive'.format(k, minlen[k], v), r)
                else:
                    ob.site(MSGS, r, 'type {:#x}: early bound {} <= minimal length {}'.format(k, v, minlen[k]))
            if other > 1:
                ob.violate(MSGS, 'MessageHead.pre_dissect', 'unknown type: fewer than {} octets => partial'.format(other),
                           'a header octet of a type without fields (or an unknown type) is called partial instead of being acted on (KEEPALIVE, rejection)', r)
