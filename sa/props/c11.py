''' C11 — forwarding preserves the bundle and updates only the hop-by-hop blocks (structural clauses). '''
import ast
from ..core import AnalysisError, walk_local, calls_in, call_name, dotted, src, self_attr, kwarg, enclosing
from ..lib import (FuncView, pm, method_calls, one, at_least, stores_to_self_attr, const_str, path_text)
from ..callgraph import CallGraph, iterates_directly
from .. import norm, schema
from .common import aliased_list_mutation
from .c08 import c08a

AGENT = 'bp/agent.py'
UTIL = 'bp/util.py'
BLOCKS = 'bp/encoding/blocks.py'
Q = 'Agent._do_fwd'


def check(chk, thorough=False):
    tree = chk.tree
    chk.run('C11.a', 'R-WHO', 'nothing reachable from the forwarding path writes a primary-block field of a received bundle (CRC maintenance apart)', lambda ob: c11a(tree, ob), floor=1)
    chk.run('C11.b', 'R-PAIR', 'an edit of a parsed block payload is followed by invalidating the cached encoded data before the next encode', lambda ob: c11b(tree, ob), floor=1)
    chk.run('C11.c', 'R-ITER+R-FLOW', 'old Previous Node / Age blocks are all removed (loop not invalidated by the removal), exactly one Previous Node naming this node is added, hop count + 1, age = now - creation only when creation time is known', lambda ob: c11c(tree, ob), floor=5)
    chk.run('C11.d', 'R-FLOW', 'new blocks go before the payload with an unused number; the payload block is number 1; duplicates are rejected; removal finds the block whatever its position', lambda ob: c11d(tree, ob), floor=5)
    chk.run('C11.h', 'R-FLOW', 'the octets send_bundle() hands to a convergence-layer adaptor reach the CL send method unchanged (wrapped as a D-Bus byte array at most), also when they wait for a session first', lambda ob: c11h(tree, ob), floor=6)
    chk.run('C11.g', 'R-GUARD', 'a bundle that must not be fragmented, or is a fragment already, is never cut (its flags, payload and fragment fields stay as received) (= C05.a)', lambda ob: _c05a(tree, ob), floor=2)
    chk.run('C11.f', 'sibling', 'what is decoded is re-encoded unchanged: codec agreement, preserved flag bits / EID text / time values, RFC layouts (= C02.a, C02.c, C02.e)', lambda ob: _c02(tree, ob), floor=40)
    chk.run('C11.i', 'R-GUARD', 'an administrative payload that is forwarded keeps its octets: falsy values and unknown record types are not re-spelled (= C02.d)', lambda ob: __import__('sa.props.c02', fromlist=['c02d']).c02d(tree, ob), floor=3)
    chk.run('C11.j', 'sibling', 'every block with a CRC type gets its CRC recomputed on output (= C08.c)', lambda ob: __import__('sa.props.c08', fromlist=['c08c']).c08c(tree, ob), floor=8)
    chk.run('C11.k', 'R-TRUTH', 'the Previous Node block names this node as configured: the configuration loader hands the node ID on as read (= C10.l)', lambda ob: __import__('sa.props.common', fromlist=['config_verbatim']).config_verbatim(tree, ob, 'bp/config.py'), floor=2)
    chk.run('C11.l', 'sibling', 'the generic layer re-encodes what it decoded: enumerations do not fall back to a default, items are not skipped (= C02.c)', lambda ob: __import__('sa.props.c02', fromlist=['c02c']).c02c(tree, ob), floor=10)
    chk.run('C11.m', 'R-GUARD', 'the hop-by-hop blocks are brought up to date once per forward: no TX step edits them again for every fragment (= C05.l)', lambda ob: __import__('sa.props.common', fromlist=['tx_steps_discipline']).tx_steps_discipline(tree, ob), floor=4)
    chk.run('C11.n', 'R-GUARD', 'a forwarding node adds security blocks only to bundles it originated: the own-source pattern ends the node part (separator) before the wildcard', lambda ob: own_source_pattern(tree, ob), floor=2)
    chk.run('C11.e', 'R-ORDER', 'CRCs are computed on the bytes actually sent (= C08.a)', lambda ob: c08a(tree, ob), floor=3)


def _c02(tree, ob):
    from .c02 import c02a, c02c, c02e
    c02a(tree, ob)
    c02c(tree, ob)
    c02e(tree, ob)


def _primary_aliases(func):
    ''' Local names bound to <x>.bundle.primary in func. '''
    res = {}
    for node in walk_local(func):
        if isinstance(node, ast.Assign) and len(node.targets) == 1 and isinstance(node.targets[0], ast.Name):
            if (dotted(node.value) or '').endswith('.bundle.primary'):
                res[node.targets[0].id] = dotted(node.value)
    return res


RECEIVED = "'receive' in ctr.actions"


def _received_premise(tree):
    ''' On the forwarding path the bundle carries the 'receive' action: recv_bundle records it before the
    bundle enters the forward queue, and _do_fwd takes its bundle from that queue. '''
    fr = FuncView(tree, AGENT, 'Agent.recv_bundle')
    recs = [c for c in method_calls(fr.func, 'record_action') if c.args and const_str(c.args[0]) == 'receive']
    apps = [c for c in calls_in(fr.func) if pm('self._fwd_queue.append(ctr)', c) is not None]
    fd = FuncView(tree, AGENT, Q)
    takes = [n for n in walk_local(fd.func) if isinstance(n, ast.Assign) and src(n.targets[0]) == 'ctr' and pm('self._fwd_queue.pop(0)', n.value) is not None]
    writers = []
    for (r, qual, func) in tree.all_functions([AGENT]):
        for c in calls_in(func):
            if isinstance(c.func, ast.Attribute) and c.func.attr in ('append', 'insert', 'extend') and src(c.func.value) == 'self._fwd_queue' and func is not fr.func:
                writers.append(c)
    return bool(recs and apps and takes and not writers and all(fr.dominates(recs[0], a)[0] for a in apps))


def _reach_forwarding(tree, cg, root, ob):
    ''' Transitive callees of _do_fwd, pruning call sites that are guarded by "the bundle was not received". '''
    premise = _received_premise(tree)
    seen = {id(root): [root]}
    stack = [root]
    while stack:
        cur = stack.pop()
        fv = None
        (rel, qual) = cg.qual(cur)
        if isinstance(cur, ast.FunctionDef) and rel in (AGENT, UTIL) and tree.has_func(rel, qual):
            fv = FuncView(tree, rel, qual)
        for (call, tgt) in cg.callees(cur):
            if id(tgt) in seen:
                continue
            if fv is not None and premise and fv.has(call, RECEIVED, False):
                ob.note('call {} in {} is only made for bundles that were not received: pruned from the forwarding path'.format(src(call)[:40], qual))
                continue
            seen[id(tgt)] = seen[id(cur)] + [tgt]
            stack.append(tgt)
    return seen


def _derived_containers(tree, ob):
    ''' send_bundle decides "originated here" by the action record of the container.  A TX step that builds new containers
    out of the one being sent (the fragmenter) and schedules them with glib.idle_add(send_bundle, X) must hand the record
    on, or the pieces of a received bundle are given origination defaults (new timestamps = new identities, lifetime). '''
    for rel in sorted(r for r in tree.modules if r.startswith('bp/app/')):
        for (r, qual, func) in tree.all_functions([rel]):
            for call in calls_in(func):
                if (call_name(call) or '').endswith('idle_add') and len(call.args) >= 2 and src(call.args[0]).endswith('.send_bundle') and isinstance(call.args[1], ast.Name):
                    fvx = FuncView(tree, rel, qual)
                    new = call.args[1].id
                    rd = fvx.reaching_defs(new, call)
                    fresh = any(v is not None and isinstance(v, ast.Call) and (call_name(v) or '').endswith('BundleContainer') for (_s, v) in rd)
                    if not fresh:
                        continue
                    inherits = [n for n in walk_local(func) if isinstance(n, ast.Assign) and any(src(t) == new + '.actions' for t in n.targets) and
                                isinstance(n.value, ast.Call) and dotted(n.value.func) == 'dict' and n.value.args and (dotted(n.value.args[0]) or '').endswith('.actions')]
                    if inherits and fvx.dominates(inherits[0], call)[0]:
                        ob.site(rel, inherits[0], '{}: the new container inherits the action record before it is scheduled for sending'.format(qual))
                    else:
                        ob.violate(rel, qual, src(call)[:70], 'a container cut out of the bundle being sent is scheduled for sending with an empty action record: send_bundle takes it for a bundle '
                                   'originated here and applies origination defaults (fragments of a forwarded bundle get new, mutually different creation timestamps)', call)


def c11a(tree, ob, only=None):
    if only is None:
        _derived_containers(tree, ob)
    cg = CallGraph(tree, [AGENT, UTIL])
    root = tree.func(AGENT, Q)
    reach = _reach_forwarding(tree, cg, root, ob)
    eid_fields = {f.name for f in schema.fields_desc(tree, BLOCKS, 'PrimaryBlock', inherit=False) if f.kind == 'EidField'}
    nsites = 0
    for key, chain in reach.items():
        fn = chain[-1]
        if not isinstance(fn, ast.FunctionDef):
            continue
        (rel, qual) = cg.qual(fn)
        if rel not in (AGENT, UTIL):
            continue
        if qual.endswith('create_report') or qual.endswith('.ping'):
            continue
        aliases = _primary_aliases(fn)
        for node in walk_local(fn):
            tgts = []
            if isinstance(node, ast.Assign):
                tgts = node.targets
            elif isinstance(node, ast.AugAssign):
                tgts = [node.target]
            for t in tgts:
                if not isinstance(t, ast.Attribute):
                    continue
                base = dotted(t.value) or ''
                if not (base.endswith('.bundle.primary') or base in aliases):
                    continue
                if base.startswith('reply.') or base.startswith('fctr.') or base.startswith('rctr.'):
                    continue
                nsites += 1
                fld = t.attr
                if only and fld not in only:
                    ob.site(rel, node, 'primary write {} (not report-relevant)'.format(src(t)))
                    continue
                fv = FuncView(tree, rel, qual)
                facts = fv.facts(node) or frozenset()
                # a guard "<field> is None" on an endpoint-ID field cannot hold for a decoded bundle (EIDs decode to text)
                infeasible = fld in eid_fields and any(p and text == '{}.{} is None'.format(base, fld) for (text, p) in facts)
                ob.site(rel, node, 'primary write {} in {} (reachable: {})'.format(src(t), qual, cg.chain_text(chain)))
                if infeasible:
                    continue
                guard = ', '.join(('' if p else 'not ') + text for (text, p) in sorted(facts) if base in text or fld in text) or 'unconditionally'
                ob.violate(rel, qual, '{} = ... when {}'.format(src(t), guard),
                           'the forwarding path rewrites primary-block field {} of a received bundle ({})'.format(fld, cg.chain_text(chain)), node, [cg.chain_text(chain)])
    ob.require(nsites >= 1 or True, 'primary writes')
    if nsites == 0:
        ob.note('no primary-block write is reachable from _do_fwd')


def c11b(tree, ob):
    n = 0
    for rel in sorted(r for r in tree.modules if r.startswith('bp/') and '/encoding/' not in r):
        for (r, qual, func) in tree.all_functions([rel]):
            for node in walk_local(func):
                tgt = None
                if isinstance(node, ast.AugAssign):
                    tgt = node.target
                elif isinstance(node, ast.Assign) and len(node.targets) == 1:
                    tgt = node.targets[0]
                if not (isinstance(tgt, ast.Attribute) and isinstance(tgt.value, ast.Attribute) and tgt.value.attr == 'payload' and isinstance(tgt.value.value, ast.Name)):
                    continue
                blk = tgt.value.value.id
                fv = FuncView(tree, rel, qual)
                # only blocks that come out of a (dissected) container
                rd = fv.reaching_defs(blk, node)
                from_ctr = False
                for (st, val) in rd:
                    if isinstance(st, ast.For) and isinstance(st.iter, ast.Call) and isinstance(st.iter.func, ast.Attribute) and st.iter.func.attr in ('block_type', 'block_num'):
                        from_ctr = True
                    if val is not None and isinstance(val, ast.Call) and isinstance(val.func, ast.Attribute) and val.func.attr in ('block_type', 'block_num'):
                        from_ctr = True
                    elif val is not None and isinstance(val, ast.AST) and not isinstance(st, ast.For):
                        # an element picked out of a named list of blocks
                        full = fv.value_at(val, st, depth=3)
                        if any(isinstance(x, ast.Call) and isinstance(x.func, ast.Attribute) and x.func.attr in ('block_type', 'block_num') for x in ast.walk(full)):
                            from_ctr = True
                if not from_ctr:
                    continue
                n += 1
                ob.site(rel, node, 'parsed payload edit {} in {}'.format(src(node), qual))
                inval = []
                for c in calls_in(func):
                    if isinstance(c.func, ast.Attribute) and dotted(c.func.value) == blk and c.func.attr in ('delfieldval', 'setfieldval') and c.args and const_str(c.args[0]) == 'btsd':
                        inval.append(c)
                    if pm("{}.fields.pop('btsd', $d)".format(blk), c) is not None or pm("{}.fields.pop('btsd')".format(blk), c) is not None:
                        inval.append(c)
                for x in walk_local(func):
                    if isinstance(x, ast.Delete) and any(src(t) == "{}.fields['btsd']".format(blk) for t in x.targets):
                        inval.append(x)
                    if isinstance(x, ast.Assign) and any(src(t) in ("{}.fields['btsd']".format(blk), '{}.btsd'.format(blk)) for t in x.targets):
                        inval.append(x)
                loop = enclosing(node, (ast.For, ast.While))
                goal = fv.node(loop.iter if isinstance(loop, ast.For) else loop.test) if loop is not None else fv.cfg.exit
                ok = bool(inval) and fv.cfg.must_pass(fv.node(node), goal, {fv.node(i) for i in inval}, include_exc=False)[0]
                if not ok:
                    ob.violate(rel, qual, src(node), 'a field of the parsed block payload is changed but the block keeps its cached encoded data, which wins on the wire: the transmitted bytes still carry the old value', node)
    ob.require(n >= 1, 'no parsed-payload edit found')


def c11c(tree, ob):
    fv = FuncView(tree, AGENT, Q)
    cg = CallGraph(tree, [AGENT, UTIL])
    loops = [n for n in walk_local(fv.func) if isinstance(n, ast.For)]
    kinds = {}
    for lp in loops:
        it = lp.iter
        inner = None
        if isinstance(it, ast.Call) and isinstance(it.func, ast.Attribute) and it.func.attr == 'block_type':
            inner = it
        elif isinstance(it, ast.Call) and it.args and isinstance(it.args[0], ast.Call) and isinstance(it.args[0].func, ast.Attribute) and it.args[0].func.attr == 'block_type':
            inner = it.args[0]
        if inner is not None and inner.args:
            kinds.setdefault(src(inner.args[0]), []).append(lp)
    # type codes from the @CanonicalBlock.bind_type(N) decorators
    codes = {}
    for rel in ('bp/encoding/blocks.py', 'bp/encoding/bpsec.py'):
        for node in tree.module(rel).tree.body:
            if isinstance(node, ast.ClassDef):
                for d in node.decorator_list:
                    got = pm('CanonicalBlock.bind_type($n)', d)
                    if got is not None and isinstance(got['n'], ast.Constant):
                        codes[node.name] = got['n'].value
    # loops over a local that holds (a copy / a slice of) the block_type() list
    for lp in loops:
        if isinstance(lp.iter, ast.Name):
            found = None
            for (dst, dval) in fv.reaching_defs(lp.iter.id, lp):
                if dval is None or not isinstance(dval, ast.AST):
                    continue
                val = fv.value_at(dval, dst, depth=3, keep=(lp.iter.id,))
                for sub in ast.walk(val):
                    if isinstance(sub, ast.Call) and isinstance(sub.func, ast.Attribute) and sub.func.attr == 'block_type' and sub.args:
                        found = src(sub.args[0])
            if found is not None:
                kinds.setdefault(found, []).append(lp)
    for btype in ('PreviousNodeBlock', 'BundleAgeBlock'):
        code = codes.get(btype)
        ob.require(code is not None, 'type code of {} not found'.format(btype))
        by_class = kinds.get(btype, [])
        lps = kinds.get(str(code), []) + by_class
        lp = one(lps, 'removal loop for ' + btype, ob)
        if lp in by_class:
            ob.violate(AGENT, Q, 'for blk in ctr.block_type({})'.format(btype), 'received {0} blocks are looked up by payload class: one whose data does not decode is indexed under its type code only and '
                       'survives next to the block this node adds'.format(btype), lp)
            continue
        rem = [c for c in calls_in(lp) if pm('ctr.remove_block({})'.format(src(lp.target)), c) is not None]
        if not rem:
            ob.violate(AGENT, Q, 'for blk in ctr.block_type({})'.format(btype), 'received {} blocks are not removed'.format(btype), lp)
            continue
        wit = aliased_list_mutation(tree, cg, fv, lp, None)
        if wit:
            ob.violate(AGENT, Q, 'for {} in {}: {}'.format(src(lp.target), src(lp.iter), src(rem[0])),
                       'the list returned by block_type() is the container index that remove_block() edits: removing while iterating skips every second {} block, so a stale one survives'.format(btype), lp, [wit])
        else:
            ob.site(AGENT, lp, 'all {} blocks removed (iteration safe)'.format(btype))
    # exactly one Previous Node naming this node, on every normal path
    adds = [c for c in calls_in(fv.func) if isinstance(c.func, ast.Attribute) and c.func.attr == 'add_block' and 'PreviousNodeBlock' in src(c)]
    a = one(adds, 'Previous Node add', ob)
    if pm('ctr.add_block(CanonicalBlock() / PreviousNodeBlock(node=self._config.node_id))', a) is None:
        ob.violate(AGENT, Q, src(a), 'the added Previous Node block does not name this node', a)
    elif enclosing(a, (ast.For, ast.While, ast.If)) is not None:
        ob.violate(AGENT, Q, src(a), 'the Previous Node block is added conditionally or repeatedly', a)
    else:
        ob.site(AGENT, a, 'one Previous Node block naming this node')
    snd = one(method_calls(fv.func, 'send_bundle', 'self'), 'send in _do_fwd', ob)
    if not fv.dominates(a, snd)[0]:
        ob.violate(AGENT, Q, src(a), 'bundle can be forwarded without the Previous Node block', a)
    # the hop-by-hop blocks are found through their payload class (Hop Count) or their type code: a payload class that refuses
    # a block by its VALUES when it is decoded (count over limit, ...) leaves the block opaque -- it is then forwarded as it
    # arrived, without its count advanced
    for cname in ('HopCountBlock', 'BundleAgeBlock', 'PreviousNodeBlock'):
        cls = tree.klass(BLOCKS, cname)
        hooks = [m for m in cls.body if isinstance(m, ast.FunctionDef) and m.name in ('pre_dissect', 'post_dissect', 'do_dissect', 'post_dissection', 'dissect')]
        raising = [m for m in hooks if any(isinstance(x, ast.Raise) for x in ast.walk(m))]
        if raising:
            ob.violate(BLOCKS, '{}.{}'.format(cname, raising[0].name), 'raise in a dissect hook of ' + cname, 'a {} is refused by its values while it is decoded: the block stays opaque data, is not found as a {} on the '
                       'forwarding path and leaves the node as it arrived (a hop count is not advanced)'.format(cname, cname), raising[0])
        else:
            ob.site(BLOCKS, cls, cname + ' decodes whatever values arrive')
    # ... and the block decoder attaches every payload that decodes: it does not refuse one itself (e.g. because the decoded
    # form would encode to other octets than arrived -- the data of an extension block is any valid CBOR, not this
    # implementation's spelling of it)
    if tree.has_func(BLOCKS, 'CanonicalBlock.post_dissect'):
        pd = tree.func(BLOCKS, 'CanonicalBlock.post_dissect')
        own = [r for t in walk_local(pd) if isinstance(t, ast.Try) for st in t.body for r in ast.walk(st) if isinstance(r, ast.Raise)]
        if own:
            ob.violate(BLOCKS, 'CanonicalBlock.post_dissect', src(own[0])[:70], 'the block decoder refuses a payload that did decode (the surrounding handler then leaves the block opaque): a Hop Count block '
                       'in a valid but other CBOR form (indefinite-length array, wider integer head) is not found on the forwarding path and leaves with the count it arrived with', own[0], sure=True)
        else:
            ob.site(BLOCKS, pd, 'CanonicalBlock.post_dissect attaches every payload that decodes')
    # hop count
    if not kinds.get('HopCountBlock'):
        loose = [n for n in walk_local(fv.func) if isinstance(n, ast.AugAssign) and src(n.target).endswith('.payload.count')]
        if loose:
            ob.violate(AGENT, Q, src(loose[0]), 'the hop count is advanced for one picked block, not for every Hop Count block of the bundle: a further one leaves with the count it arrived with', loose[0])
            return
    hl = one(kinds.get('HopCountBlock', []), 'hop count loop', ob)
    incs = [n for n in walk_local(hl) if isinstance(n, ast.AugAssign) and src(n.target) == '{}.payload.count'.format(src(hl.target))]
    if len(incs) != 1 or not isinstance(incs[0].op, ast.Add) or not (isinstance(incs[0].value, ast.Constant) and incs[0].value.value == 1):
        ob.violate(AGENT, Q, src(hl)[:80], 'hop count is not advanced by exactly one per forward', hl)
    else:
        ob.site(AGENT, incs[0], 'hop count += 1 for every Hop Count block')
    # age: "now" is the current clock reading.  The timestamp generator keeps the last reading only to number bundles
    # created within the same millisecond; it replaces it whenever the clock reads anything else (also something earlier)
    ft = FuncView(tree, AGENT, 'Timestamper.__call__')
    cmps = [n for n in walk_local(ft.func) if isinstance(n, ast.Compare) and 'self._time' in src(n) and 'is' not in [type(o).__name__.lower() for o in n.ops] and not any(isinstance(o, (ast.Is, ast.IsNot)) for o in n.ops)]
    ordered = [n for n in cmps if any(isinstance(o, (ast.Lt, ast.LtE, ast.Gt, ast.GtE)) for o in n.ops)]
    if ordered:
        ob.violate(AGENT, ft.qual, src(ordered[0]), 'the timestamp generator holds on to its last reading while the clock reads less: after the clock was set back, "now" stays frozen and a forwarded '
                   'bundle leaves with a Bundle Age computed from a time that is not the current one', ordered[0])
    elif cmps:
        ob.site(AGENT, cmps[0], 'Timestamper keeps a reading only while the clock reads the same')
    else:
        raise AnalysisError('C11.c: no comparison of the clock reading with the stored time in Timestamper.__call__')
    ages = [c for c in calls_in(fv.func) if isinstance(c.func, ast.Attribute) and c.func.attr == 'add_block' and 'BundleAgeBlock' in src(c)]
    g = one(ages, 'Bundle Age add', ob)
    age = pm('ctr.add_block(CanonicalBlock() / BundleAgeBlock(age=$a))', g)
    ok = age is not None
    if ok:
        # fully inlined: whether "now" and the creation time are given names first does not matter
        av = src(fv.value_at(age['a'], g, depth=6, keep=('ctr',)))
        NOW = "self.timestamp().getfieldval('dtntime')"
        CRE = "ctr.bundle.primary.create_ts.getfieldval('dtntime')"
        ok = av in ('{} - {}'.format(NOW, CRE), 'max(0, {} - {})'.format(NOW, CRE))
        unclamped = av == '{} - {}'.format(NOW, CRE)
    if not ok:
        ob.violate(AGENT, Q, src(g), 'the Bundle Age added is not (now - creation time)', g)
    elif unclamped:
        ob.violate(AGENT, Q, src(g), 'the age has no floor at zero: a creation time ahead of the local clock is sent as a negative integer, which is not a valid age', g)
    elif not fv.has(g, 'create_dtntime == 0', False):
        ob.violate(AGENT, Q, src(g), 'an age is computed from an unknown (zero) creation time', g)
    elif enclosing(g, (ast.For, ast.While)) is not None:
        ob.violate(AGENT, Q, src(g), 'more than one Bundle Age block can be added', g)
    else:
        ob.site(AGENT, g, 'at most one Age block = now - creation, only when creation time is known')
    al = (kinds.get(str(codes.get('BundleAgeBlock')), []) + kinds.get('BundleAgeBlock', []) + [None])[0]
    # with creation time zero the received age is the only record of the time since creation: not all of it may be removed
    if al is not None:
        itv = fv.value_at(al.iter, al, depth=1) if isinstance(al.iter, ast.Name) else al.iter
        defs = fv.reaching_defs(al.iter.id, al) if isinstance(al.iter, ast.Name) else []
        keeps = any(d[1] is not None and isinstance(d[1], ast.Subscript) and isinstance(d[1].slice, ast.Slice) and fv.has(d[0], 'create_dtntime == 0', True) for d in defs)
        if keeps:
            ob.site(AGENT, al, 'creation time zero keeps one received Age block')
        else:
            ob.violate(AGENT, Q, 'for blk in <all Bundle Age blocks>: remove', 'for a bundle with creation time zero every received Bundle Age block is removed and none is added: the only record of the '
                       'time since creation is destroyed', al)
    if al is not None and fv.node(al.iter) in fv.cfg.reachable([fv.node(g)]):
        ob.violate(AGENT, Q, src(g), 'the new Age block is added before the old ones are removed', g)


def _c05a(tree, ob):
    from .c05 import c05a
    return c05a(tree, ob)


def c11d(tree, ob):
    # the number of a new block is a field value of that block.  scapy's overloaded_fields of a block built as
    # CanonicalBlock()/X() is the CLASS-level dict of the bind_layers() binding: a number stored there sticks to every
    # later block of that kind, in every later bundle
    nbad = 0
    for rel in sorted(r for r in tree.modules if r.startswith('bp/')):
        for (r, qual, func) in tree.all_functions([rel]):
            for node in walk_local(func):
                if isinstance(node, (ast.Assign, ast.AugAssign)):
                    for t in (node.targets if isinstance(node, ast.Assign) else [node.target]):
                        if isinstance(t, ast.Subscript) and isinstance(t.value, ast.Attribute) and t.value.attr == 'overloaded_fields':
                            nbad += 1
                            ob.violate(rel, qual, src(node), 'a field value is stored in overloaded_fields, the class-level dict of the layer binding: the block number assigned while forwarding one '
                                       'bundle is pre-assigned to the same kind of block of every later bundle (a clash makes that forward fail)', node)
                # a misspelt str method in an error path turns the intended error into AttributeError
                if isinstance(node, ast.Attribute) and isinstance(node.value, ast.Constant) and isinstance(node.value.value, str) and not hasattr(str, node.attr):
                    ob.violate(rel, qual, src(node)[:70], 'str has no method {!r}: this error path raises AttributeError instead of the intended exception'.format(node.attr), node)
    if not nbad:
        ob.site(UTIL, tree.func(UTIL, 'BundleContainer._fix_blk_num'), 'no field value is stored in a class-level overloaded_fields dict')
    fa = FuncView(tree, UTIL, 'BundleContainer.add_block')
    ins = [c for c in calls_in(fa.func) if isinstance(c.func, ast.Attribute) and c.func.attr in ('insert', 'append') and src(c.func.value) == 'self.bundle.blocks']
    i = one(ins, 'block insertion', ob)
    if pm('self.bundle.blocks.insert(-1, blk)', i) is None:
        ob.violate(UTIL, fa.qual, src(i), 'a new block is not inserted just before the payload block (payload must stay last)', i)
    else:
        ob.site(UTIL, i, 'insert at -1 (before the payload)')
    num = fa.value_at(ast.parse('blk_num', mode='eval').body, i, depth=1)
    if pm('self._fix_blk_num(blk)', num) is None:
        ob.violate(UTIL, fa.qual, 'blk_num = ' + src(num), 'block number is not assigned through _fix_blk_num', i)
    dup = [r for r in walk_local(fa.func) if isinstance(r, ast.Raise) and fa.has(r, 'blk_num in self._block_num', True)]
    if not dup or not fa.cfg.must_pass(fa.cfg.entry, fa.node(i), {fa.node(dup[0]._parent.test)})[0]:
        ob.violate(UTIL, fa.qual, 'if blk_num in self._block_num: raise', 'a block with a number already in use can be added', i)
    else:
        ob.site(UTIL, dup[0], 'duplicate block number rejected before insertion')
    idx = [n for n in walk_local(fa.func) if isinstance(n, ast.Assign) and pm('self._block_num[blk_num]', n.targets[0]) is not None]
    if not idx or src(idx[0].value) != 'blk':
        ob.violate(UTIL, fa.qual, 'self._block_num[blk_num] = blk', 'the number index is not updated', fa.func)
    # a received bundle with two blocks of the same number is refused when it is indexed
    fl = FuncView(tree, UTIL, 'BundleContainer.reload')
    stores = [n for n in walk_local(fl.func) if isinstance(n, ast.Assign) and pm('self._block_num[blk_num]', n.targets[0]) is not None]
    silent = [c for c in calls_in(fl.func) if isinstance(c.func, ast.Attribute) and self_attr(c.func.value) == '_block_num' and c.func.attr in ('setdefault', 'update')]
    okdup = stores and all(fl.has(s, 'blk_num in self._block_num', False) for s in stores) and \
        any(fl.has(r, 'blk_num in self._block_num', True) for r in walk_local(fl.func) if isinstance(r, ast.Raise))
    if silent or not okdup:
        ob.violate(UTIL, fl.qual, src((silent or stores or [fl.func])[0])[:70], 'a received bundle with duplicate block numbers is indexed without complaint and can be forwarded with the duplicates', (silent or stores or [fl.func])[0])
    else:
        ob.site(UTIL, stores[0], 'reload refuses duplicate block numbers')
    ff = FuncView(tree, UTIL, 'BundleContainer._fix_blk_num')
    pay = [n for n in walk_local(ff.func) if isinstance(n, ast.Assign) and src(n.targets[0]) == 'blk_num' and src(n.value) in ('Bundle.BLOCK_NUM_PAYLOAD', '1')]
    gen = [n for n in walk_local(ff.func) if isinstance(n, ast.Assign) and src(n.targets[0]) == 'blk_num' and pm('self.get_block_num()', n.value) is not None]
    okp = pay and any(p and t.endswith('== Bundle.BLOCK_TYPE_PAYLOAD') for (t, p) in (ff.facts(pay[0]) or ()))
    okg = gen and any((not p) and t.endswith('== Bundle.BLOCK_TYPE_PAYLOAD') for (t, p) in (ff.facts(gen[0]) or ()))
    if not okp or not okg:
        ob.violate(UTIL, ff.qual, 'payload -> 1, others -> get_block_num()', 'block numbering does not give the payload block number 1 and other blocks an unused number', ff.func)
    else:
        ob.site(UTIL, pay[0], 'payload block number 1, others from get_block_num()')
    only_none = all(ff.has(n, 'blk_num is None', True) for n in pay + gen)
    if not only_none:
        ob.violate(UTIL, ff.qual, 'if blk_num is None', 'an existing block number is overwritten', ff.func)
    fg = FuncView(tree, UTIL, 'BundleContainer.get_block_num')
    rets = [r for r in walk_local(fg.func) if isinstance(r, ast.Return)]
    r = one(rets, 'return in get_block_num', ob)
    if not fg.has(r, 'self._last_block_num in self._block_num', False) or src(r.value) != 'self._last_block_num':
        ob.violate(UTIL, fg.qual, src(r), 'a block number already in use can be handed out', r)
    else:
        ob.site(UTIL, r, 'get_block_num skips numbers in use')
    # remove_block: emptiness of the search result must not be a truthiness test on an index
    fr = FuncView(tree, UTIL, 'BundleContainer.remove_block')
    pops = [c for c in calls_in(fr.func) if pm('self.bundle.blocks.pop($i)', c) is not None]
    p = one(pops, 'block removal', ob)
    bad = None
    for (text, pol) in (fr.facts(p) or ()):
        if pol and ' ' not in text and '.' not in text and '(' not in text:
            rd = fr.reaching_defs(text, p)
            for (st, val) in rd:
                if val is not None and isinstance(val, ast.expr) and not isinstance(val, (ast.ListComp, ast.List, ast.Tuple)):
                    if isinstance(val, ast.Call) and dotted(val.func) in ('next', 'min', 'max') or isinstance(val, ast.Subscript):
                        bad = (text, val)
    if bad:
        ob.violate(UTIL, fr.qual, 'if {}: (with {} = {})'.format(bad[0], bad[0], src(bad[1])[:60]),
                   'the position of the block to remove is tested by truthiness: position 0 (the first canonical block) counts as "not found" and the block stays', p)
    else:
        ob.site(UTIL, p, 'removal finds the block at any position')
    for attr in ('_block_num', '_block_type'):
        upd = [c for c in calls_in(fr.func) if isinstance(c.func, ast.Attribute) and (self_attr(c.func.value) == attr or (isinstance(c.func.value, ast.Subscript) and self_attr(c.func.value.value) == attr)) and c.func.attr in ('pop', 'remove')]
        if not upd or not fr.cfg.must_pass(fr.node(p), fr.cfg.exit, {fr.node(u) for u in upd}, include_exc=False)[0]:
            ob.violate(UTIL, fr.qual, 'self.{}'.format(attr), 'index {} is not updated when a block is removed'.format(attr), p)



def c11h(tree, ob):
    ''' "The bytes actually transmitted": behind Agent.send_bundle() the encoded bundle passes through the sender closure of
    the adaptor (bp/cla.py) into <proxy>.send_bundle_data().  Every such call is enumerated; its data argument, with local
    names resolved, must be the closure parameter itself (or a queued copy of it), wrapped in dbus.ByteArray / bytes at most. '''
    CLA = 'bp/cla.py'
    WRAP = ('dbus.ByteArray', 'bytes')

    def unwrap(node):
        while isinstance(node, ast.Call) and (call_name(node) or '') in WRAP and len(node.args) == 1 and not node.keywords:
            node = node.args[0]
        return node

    n = 0
    queued_ok = set()
    funcs = list(tree.all_functions([CLA]))
    # 1. what is parked while no session exists
    for (r, qual, func) in funcs:
        params = [a.arg for a in func.args.args]
        for c in calls_in(func):
            got = pm('self._sess_wait[$k].append($d)', c)
            if got is None:
                continue
            n += 1
            fv = FuncView(tree, CLA, qual)
            d = unwrap(fv.value_at(got['d'], c, depth=3, keep=tuple(params)))
            if isinstance(d, ast.Name) and d.id in params and not [x for x in walk_local(func) if isinstance(x, ast.Name) and x.id == d.id and isinstance(x.ctx, ast.Store)]:
                ob.site(CLA, c, qual + ': the data itself waits for the session')
                queued_ok.add('self._sess_wait')
            else:
                ob.violate(CLA, qual, src(c)[:80], 'what is parked for a later session is not the data that was handed over', c)
    # 2. every hand-over to a CL proxy
    for (r, qual, func) in funcs:
        params = [a.arg for a in func.args.args]
        fv = None
        for c in calls_in(func):
            if not (isinstance(c.func, ast.Attribute) and c.func.attr == 'send_bundle_data' and c.args):
                continue
            n += 1
            fv = fv or FuncView(tree, CLA, qual)
            asy = [k.arg for k in c.keywords if k.arg in ('reply_handler', 'error_handler', 'ignore_reply')]
            if asy:
                ob.violate(CLA, qual, src(c)[:70].replace('\n', ' '), 'the bundle is handed to the CL by an asynchronous D-Bus call ({}): a refusal by the session (terminating, closed) no longer comes back '
                           'as an exception, the agent records the bundle as forwarded and sends no deletion report although nothing was transmitted'.format(asy[0]), c, sure=True)
                continue
            d = unwrap(fv.value_at(c.args[0], c, depth=3, keep=tuple(params)))
            ok = False
            if isinstance(d, ast.Name) and d.id in params:
                ok = not [x for x in walk_local(func) if isinstance(x, ast.Name) and x.id == d.id and isinstance(x.ctx, ast.Store)]
            elif isinstance(d, ast.Name):
                # a loop variable over the parked list
                loop = enclosing(c, ast.For)
                if loop is not None and src(loop.target) == d.id:
                    it = fv.value_at(loop.iter, loop, depth=3)
                    ok = 'self._sess_wait' in queued_ok and pm('self._sess_wait.get($k, [])', it) is not None or pm('self._sess_wait[$k]', it) is not None or pm('self._sess_wait.pop($k, [])', it) is not None
            if ok:
                ob.site(CLA, c, qual + ': data handed to the CL unchanged')
            else:
                ob.violate(CLA, qual, src(c)[:80] + '  with data = ' + src(d)[:40], 'the octets handed to the convergence layer are not the octets send_bundle() encoded (sliced, re-encoded or taken from '
                           'somewhere else): the transmitted bundle differs from the one whose blocks and CRCs were prepared', c)
    # 3. nothing falls through: every return of a sender closure has handed the data to a CL or parked it
    for (r, qual, func) in funcs:
        if not qual.endswith('.send_bundle_func.sender'):
            continue
        fv = FuncView(tree, CLA, qual)
        sinks = [c for c in calls_in(func) if (isinstance(c.func, ast.Attribute) and c.func.attr == 'send_bundle_data') or pm('self._sess_wait[$k].append($d)', c) is not None]
        ok, wit = fv.cfg.must_pass(fv.cfg.entry, fv.cfg.exit, {fv.node(c) for c in sinks}, include_exc=False)
        n += 1
        if sinks and ok:
            ob.site(CLA, func, qual + ': every path hands the data on or parks it')
        else:
            ob.violate(CLA, qual, 'return without send_bundle_data / parking', 'the sender closure has a path that neither hands the data to the convergence layer nor parks it for the session: the bundle '
                       '(or this fragment of it) silently disappears while the agent records it as forwarded', func, path_text(wit) if wit else None)
    # 4. every parked bundle is handed over: the loop that sends them does not edit the list it walks
    from .common import iter_mutation
    iter_mutation(tree, ob, [CLA])
    # 5. a closed connection leaves the node map under the key it was entered with: the key (<conn>.nodeid) is not reset
    #    on a way that leads to the clean-up.  A stale entry answers "there is a session" for a peer whose session ended:
    #    what is sent then (the later fragments of a bundle) goes to a dead proxy instead of waiting for the next session
    resetters = set()
    if tree.has_class(CLA, 'TcpclConnection'):
        for (item, st, kind, val) in stores_to_self_attr(tree.klass(CLA, 'TcpclConnection'), 'nodeid'):
            if item.name != '__init__':
                resetters.add(item.name)
    for (r, qual, func) in funcs:
        dels = []
        for sub in walk_local(func):
            if isinstance(sub, ast.Delete):
                for t in sub.targets:
                    got = pm('self._cl_conn_nodeid[$c.nodeid]', t)
                    if got is not None:
                        dels.append((sub, src(got['c'])))
            elif isinstance(sub, ast.Call):
                got = pm('self._cl_conn_nodeid.pop($c.nodeid)', sub) or pm('self._cl_conn_nodeid.pop($c.nodeid, $d)', sub)
                if got is not None:
                    dels.append((sub, src(got['c'])))
        if not dels:
            continue
        fv = FuncView(tree, CLA, qual)
        for (d, conn) in dels:
            n += 1
            resets = []
            for sub in walk_local(func):
                if isinstance(sub, (ast.Assign, ast.AugAssign)):
                    for t in (sub.targets if isinstance(sub, ast.Assign) else [sub.target]):
                        if src(t) == conn + '.nodeid':
                            resets.append(sub)
                elif isinstance(sub, ast.Call) and isinstance(sub.func, ast.Attribute) and src(sub.func.value) == conn and sub.func.attr in resetters:
                    resets.append(sub)
            early = [x for x in resets if fv.node(d) in fv.cfg.reachable([fv.node(x)]) and fv.node(x) is not fv.node(d)]
            if early:
                ob.violate(CLA, qual, src(early[0])[:70], 'the node ID of the connection is reset before the node map is cleaned under it: the entry of the closed connection stays, the next bundle (or the '
                           'next fragment of this one) for that peer is handed to the dead proxy instead of waiting for a new session, and is lost', early[0], sure=True)
            else:
                ob.site(CLA, d, qual + ': the node map is cleaned under the key the connection was entered with')
    ob.require(n >= 7, 'send_bundle_data / parking / clean-up sites in bp/cla.py: {}'.format(n))


def adaptor_rx_fidelity(tree, ob):
    ''' the receive side of the adaptors (bp/cla.py): every "finished" announcement of a CL is answered by taking exactly
    that bundle out of the CL and handing its octets to the agent.  Whether a bundle is a repeat is decided by the agent,
    by bundle identity; a transfer number says nothing (a CL service numbers from 0 again after a restart): an adaptor that
    remembers numbers drops new bundles. '''
    CLA = 'bp/cla.py'
    n = 0
    cands = []
    for (r_, q_, f_) in tree.all_functions([CLA]):
        if f_.name in ('_handle_recv_bundle_finish', 'handle_recv_bundle_finish'):
            cands.append((q_, f_))
    for (qual, m) in cands:
        if True:
            n += 1
            fv = FuncView(tree, CLA, qual)
            params = [a.arg for a in m.args.args if a.arg != 'self']
            ob.require(len(params) >= 1, qual + '(bid, ...)')
            bid = params[0]
            ups = [c for c in calls_in(m) if isinstance(c.func, ast.Attribute) and c.func.attr == 'recv_bundle_finish' and src(c.func.value) == 'self']
            up = one(ups, 'hand-over to the agent in ' + qual, ob)
            val = fv.value_at(up.args[0], up, depth=4) if up.args else None
            txt = src(val) if val is not None else ''
            want = tuple(w.format(o, bid) for o in ('self.agent_obj', 'conn_iface') for w in ('bytes({}.recv_bundle_pop_data({}))', 'dbus.ByteArray({}.recv_bundle_pop_data({}))', '{}.recv_bundle_pop_data({})', "b''.join({}.recv_bundle_pop_data({}))"))
            # the TCPCL announcement carries a result: anything but 'success' is no bundle (the only test the handlers make)
            def about_result(t):
                return "'success'" in t and len(params) >= 3 and norm.mentions(t, [params[2]])
            rets = [r for r in walk_local(m) if isinstance(r, ast.Return) and not all(about_result(t) for (t, p) in (fv.facts(r) or ()) if not t.startswith('isinstance('))]
            rets += [r for r in walk_local(m) if isinstance(r, ast.Return) and not [1 for (t, p) in (fv.facts(r) or ()) if not t.startswith('isinstance(')]]
            cond = [(t, p) for (t, p) in (fv.facts(up) or ()) if not t.startswith('isinstance(') and not about_result(t)]
            if rets or cond:
                ob.violate(CLA, qual, (src(rets[0]) if rets else 'hand-over under ' + cond[0][0])[:80], 'a finished reception is not always taken from the CL and handed to the agent (the adaptor decides by '
                           'its own bookkeeping, e.g. transfer numbers it has seen): a CL that restarts its numbering has its new bundles dropped', rets[0] if rets else up)
            elif txt not in want:
                ob.violate(CLA, qual, src(up)[:60] + '  with ' + txt[:50], 'what is handed to the agent is not exactly the data popped for the announced transfer', up)
            else:
                ob.site(CLA, up, qual + ': every announcement -> pop that transfer -> agent')
    ob.require(n >= 2, 'adaptors with a receive handler')


def own_source_pattern(tree, ob):
    ''' "updates only the hop-by-hop blocks": a node with a signing key adds an integrity block to bundles it ORIGINATES.
    "Its own" is decided by a pattern over the source EID made from the node ID; the pattern has to end the node part (the
    '.' of ipn:N.S, the '/' of dtn://node/...) before the wildcard, or ipn:1.0 also covers ipn:10.3 and dtn://fwd covers
    dtn://fwd-backup: the node then signs -- changes -- bundles it only forwards. '''
    SEC = 'bp/app/bpsec.py'
    fv = FuncView(tree, SEC, 'CoseContext.load_config')
    uses = [kw.value for c in calls_in(fv.func) if (call_name(c) or '').endswith('SecAssociation') for kw in c.keywords if kw.arg == 'src_pat']
    ob.require(uses, 'source pattern of an association made in load_config')
    n = 0
    for u in uses:
        got = pm('re.compile($p)', u)
        if got is None or not isinstance(got['p'], ast.Name):
            continue
        for (st, v) in fv.reaching_defs(got['p'].id, u):
            if v is None or not isinstance(v, ast.AST):
                continue
            n += 1
            full = fv.value_at(v, st, depth=4) if not isinstance(v, ast.BinOp) else v
            text = src(full)
            okform = None
            m = pm("re.escape($s + $sep) + '.*'", full)
            if m is not None and isinstance(m['sep'], ast.Constant) and m['sep'].value in ('.', '/'):
                stem = fv.value_at(m['s'], st, depth=4)
                sfx = pm('$n.removesuffix($x)', stem)
                okform = sfx is not None and isinstance(sfx['x'], ast.Constant) and ((m['sep'].value == '.' and sfx['x'].value == '.0') or (m['sep'].value == '/' and sfx['x'].value == '/'))
            if okform:
                ob.site(SEC, st, 'own-source pattern ends the node part before the wildcard')
            else:
                ob.violate(SEC, fv.qual, text[:90], 'the pattern for "bundles of this node" does not end the node part with its separator before the wildcard: it also matches the sources of other nodes '
                           'whose ID starts the same (ipn:1 / ipn:10.3, dtn://fwd / dtn://fwd-backup), and forwarded bundles of those get a block added', st)
    ob.require(n >= 1, 'definitions of the own-source pattern')
