''' C14 — TCPCL negotiates parameters correctly and keeps its timers (structural clauses). '''
import ast
from ..core import AnalysisError, walk_local, calls_in, call_name, dotted, src, self_attr, kwarg
from ..lib import (FuncView, pm, method_calls, one, at_least, stores_to_self_attr, const_str, path_text)
from .. import norm
from .c04 import c04e
from .c09 import c09e

SESS = 'tcpcl/session.py'


def check(chk, thorough=False):
    tree = chk.tree
    chk.run('C14.a', 'R-FLOW', 'negotiated keepalive is the min of both SESS_INIT values; timers are armed only for a positive time, in milliseconds, after stopping the old one', lambda ob: c14a(tree, ob), floor=5)
    chk.run('C14.b', 'R-FLOW', 'reported session parameters are the peer-announced node id and MRUs and the negotiated keepalive', lambda ob: c14b(tree, ob), floor=4)
    chk.run('C14.c', 'R-CLAMP', 'send segment size never exceeds the peer segment MRU, also while adapting (= C04.e)', lambda ob: c04e(tree, ob), floor=2)
    chk.run('C14.e', 'R-TRUTH', 'the timers run on the configured values: the configuration loader hands every setting on as read, an idle time is derived only when none was given (is None, not falsy)', lambda ob: __import__('sa.props.common', fromlist=['config_verbatim']).config_verbatim(tree, ob, 'tcpcl/config.py'), floor=2)
    chk.run('C14.f', 'R-ITER', 'closing completes: no loop of the session code changes the size of the container it iterates (a pop inside the report loop of close() raises before the connection is closed)', lambda ob: __import__('sa.props.common', fromlist=['iter_mutation']).iter_mutation(tree, ob, ['tcpcl/session.py', 'tcpcl/agent.py']), floor=1)
    chk.run('C14.g', 'R-TRUTH', 'the keepalive interval (and every other number) this side announces is the one it negotiates with: the integer fields of the TCPCL messages encode their value or fail, they do not fold it into the field width', lambda ob: __import__('sa.props.common', fromlist=['encoders_do_not_mask']).encoders_do_not_mask(tree, ob, ['tcpcl/formats.py', 'tcpcl/messages.py', 'tcpcl/contact.py']) or c14g_floor(tree, ob), floor=1)
    chk.run('C14.d', 'R-PAIR', 'every send restarts both timers, every receive restarts the idle timer; timeouts send KEEPALIVE / start idle termination; close stops both', lambda ob: c14d(tree, ob), floor=8)
    chk.run('C14.e', 'R-ESCAPE', 'an endpoint already terminating whose idle timer fires closes instead of raising (= C09.e)', lambda ob: c09e(tree, ob, user_entry=False), floor=3)


def _is_ms(expr, attr):
    return any(pm(p.format(attr), expr) is not None for p in (
        'int(self.{} * 1000.0)', 'int(self.{} * 1000)', 'int(1000.0 * self.{})', 'int(1000 * self.{})', 'self.{} * 1000'))


def c14a(tree, ob):
    msgr = tree.klass(SESS, 'Messenger')
    writes = [(f, st, k, v) for (f, st, k, v) in stores_to_self_attr(msgr, '_keepalive_time') if f.name != '__init__']
    (f, st, k, v) = one(writes, 'negotiation write of the keepalive time', ob)
    ok = k == 'assign' and isinstance(v, ast.Call) and dotted(v.func) == 'min' and len(v.args) == 2 and \
        sorted(src(a) for a in v.args) == ['self._sessinit_peer.keepalive', 'self._sessinit_this.keepalive']
    if ok:
        ob.site(SESS, st, 'keepalive = min(own, peer)')
    else:
        ob.violate(SESS, 'Messenger.' + f.name, src(st), 'negotiated keepalive is not the smaller of the two announced intervals', st)
    writes = [(f, st, k, v) for (f, st, k, v) in stores_to_self_attr(msgr, '_idle_time') if f.name != '__init__']
    for (f, st, k, v) in writes:
        if src(v) == 'self._config.idle_time':
            ob.site(SESS, st, 'idle time from configuration')
        else:
            ob.violate(SESS, 'Messenger.' + f.name, src(st), 'idle time is not the configured idle time', st)
    for (reset, stop, attr, timer, handler) in (
            ('_keepalive_reset', '_keepalive_stop', '_keepalive_time', '_keepalive_timer_id', '_keepalive_timeout'),
            ('_idle_reset', '_idle_stop', '_idle_time', '_idle_timer_id', '_idle_timeout')):
        fv = FuncView(tree, SESS, 'Messenger.' + reset)
        adds = [c for c in calls_in(fv.func) if call_name(c) == 'glib.timeout_add']
        add = one(adds, 'timeout_add in ' + reset, ob)
        bad = []
        if not fv.has(add, 'self.{} > 0'.format(attr), True):
            bad.append('armed without the interval being positive (zero must disable)')
        if not _is_ms(add.args[0], attr):
            bad.append('interval {} is not the negotiated time in milliseconds'.format(src(add.args[0])))
        if src(add.args[1]) != 'self.' + handler:
            bad.append('fires {} instead of {}'.format(src(add.args[1]), handler))
        stops = method_calls(fv.func, stop, 'self')
        if not stops or not fv.dominates(stops[0], add)[0]:
            bad.append('previous timer is not stopped first')
        tgt = add._parent
        if not (isinstance(tgt, ast.Assign) and src(tgt.targets[0]) == 'self.' + timer):
            bad.append('timer id is not remembered')
        # a reset RESTARTS the interval: it does not leave by a way on which the timer is known to be running (a reset that
        # leaves a running timer alone lets it fire up to a whole interval late: the silence after a transmission in
        # mid-interval is then almost twice the negotiated time).  Positive evidence only: an exit reached under "the timer
        # is armed" -- a stop (which clears the id) removes that fact.
        armed = [('self.{} is None'.format(timer), False), ('self.{} is not None'.format(timer), True), ('self.{}'.format(timer), True)]
        for (pred, _label, ef) in fv.exit_facts():
            if any(a in ef for a in armed):
                ob.violate(SESS, fv.qual, 'a way out of {} with the timer still armed ({})'.format(reset, pred.text()[:40]), 'the reset can return with the old timer still running: the interval is then not measured from this event '
                           '(a message sent in mid-interval is followed by up to twice the negotiated keepalive time of silence; received traffic does not put off the idle timeout)', pred.ast or fv.func, sure=True)
                break
        if bad:
            ob.violate(SESS, fv.qual, src(add)[:90], '; '.join(bad), add)
        else:
            ob.site(SESS, add, reset + ': stop, then arm int(time*1e3) ms only if > 0')
        fs = FuncView(tree, SESS, 'Messenger.' + stop)
        rem = [c for c in calls_in(fs.func) if call_name(c) == 'glib.source_remove']
        r = one(rem, 'source_remove in ' + stop, ob)
        clears = [s for (f2, s, _k, v2) in stores_to_self_attr(msgr, timer) if f2 is fs.func and isinstance(v2, ast.Constant) and v2.value is None]
        if src(r.args[0]) != 'self.' + timer or not fs.has(r, 'self.{} is None'.format(timer), False) or not clears:
            ob.violate(SESS, fs.qual, src(r), 'timer is not removed by its remembered id under an is-armed test and then forgotten', r)
        else:
            ob.site(SESS, r, stop + ' removes and forgets the timer')


def c14b(tree, ob):
    fv = FuncView(tree, SESS, 'Messenger.merge_session_params')
    msgr = tree.klass(SESS, 'Messenger')
    recs = [(st, v) for (f, st, k, v) in stores_to_self_attr(msgr, '_sess_parameters') if f is fv.func]
    (st, v) = one(recs, 'record of the negotiated parameters', ob)
    ob.require(isinstance(v, ast.Call) and dotted(v.func) == 'dict', 'parameters are not recorded with dict(...)')
    want = {
        'peer_nodeid': ['str(self._sessinit_peer.nodeid_data)', 'self._sessinit_peer.nodeid_data'],
        'peer_transfer_mru': ['self._sessinit_peer.transfer_mru'],
        'peer_segment_mru': ['self._sessinit_peer.segment_mru'],
        'keepalive': ['self._keepalive_time'],
    }
    got = {kw.arg: kw.value for kw in v.keywords}
    for key, alts in want.items():
        if key not in got:
            ob.violate(SESS, fv.qual, key, 'negotiated parameter {} is not reported'.format(key), st)
            continue
        val = fv.value_at(got[key], st)
        if src(val) in alts:
            ob.site(SESS, st, '{} = {}'.format(key, src(val)))
        else:
            ob.violate(SESS, fv.qual, '{}={}'.format(key, src(got[key])), 'reported {} is {} instead of {}'.format(key, src(val), alts[0]), st)
    ka = [s for (f, s, k, v2) in stores_to_self_attr(msgr, '_keepalive_time') if f is fv.func]
    if ka and not fv.dominates(ka[0], st)[0]:
        ob.violate(SESS, fv.qual, 'keepalive=self._keepalive_time', 'the keepalive is reported before it was negotiated', st)
    # ... the announced node ID reaches the record as announced: the text field of SESS_INIT only decodes, strictly
    from .c15 import text_field_faithful
    text_field_faithful(tree, ob)
    # ... and what the D-Bus method hands out is the record, through value-preserving conversions only
    fg = FuncView(tree, SESS, 'ContactHandler.get_session_parameters')
    loops = [n for n in walk_local(fg.func) if isinstance(n, ast.For) and 'self._sess_parameters' in src(n.iter)]
    lp = one(loops, 'loop over the recorded parameters in get_session_parameters', ob)
    vname = lp.target.elts[1].id if isinstance(lp.target, ast.Tuple) and len(lp.target.elts) == 2 and isinstance(lp.target.elts[1], ast.Name) else None
    ob.require(vname is not None, 'unrecognised loop target in get_session_parameters')
    bad = []
    for n in walk_local(lp):
        if isinstance(n, (ast.Assign, ast.AugAssign)) and any(src(t) == vname for t in (n.targets if isinstance(n, ast.Assign) else [n.target])):
            v = n.value
            okconv = isinstance(n, ast.Assign) and isinstance(v, ast.Call) and len(v.args) == 1 and not v.keywords and src(v.args[0]) == vname and \
                (dotted(v.func) or '') in ('str', 'int', 'bool', 'dbus.UInt64', 'dbus.UInt32', 'dbus.UInt16', 'dbus.Int64', 'dbus.String', 'dbus.Boolean')
            if okconv and (dotted(v.func) or '') in ('dbus.UInt32', 'dbus.UInt16') :
                okconv = False  # too narrow for the 64-bit MRUs
            if not okconv:
                bad.append(n)
    # every answer is made from the record as it is now: no return that bypasses the loop (a reply kept from an earlier
    # call, e.g. one made before the session was established, is the state of another moment)
    stale = [r for r in walk_local(fg.func) if isinstance(r, ast.Return) and not fg.cfg.must_pass(fg.cfg.entry, fg.node(r), {fg.node(lp.iter)}, include_exc=False)[0]]
    for r in stale:
        ob.violate(SESS, fg.qual, src(r)[:70] + ' (bypasses the loop over self._sess_parameters)', 'the reported session parameters are not read from the current record: a caller that asked once before the '
                   'session was established keeps getting the empty answer', r)
    if bad:
        ob.violate(SESS, fg.qual, src(bad[0]), 'a negotiated parameter is altered on its way to the caller (the MRUs go up to 2^64-1: the peer transfer MRU is reported wrongly in every default session)', bad[0])
    else:
        ob.site(SESS, lp, 'get_session_parameters hands out the recorded values through value-preserving conversions only')


def c14d(tree, ob):
    # the keepalive timer measures the time since this side last SENT something: only transmissions (and the start of the
    # negotiated interval) restart it - a received KEEPALIVE does not
    for (rel, qual, func) in tree.all_functions([SESS]):
        for c in method_calls(func, '_keepalive_reset', 'self'):
            if func.name in ('send_message', 'merge_session_params'):
                ob.site(SESS, c, func.name + ' restarts the keepalive timer')
            else:
                ob.violate(SESS, qual, src(c), 'the keepalive timer is restarted by something other than a transmission: when the peer KEEPALIVEs arrive shortly before the own ones are due, '
                           'the own KEEPALIVE is postponed again and again and never sent', c)
    # the timers are stopped by their own reset / timeout and by close() only: while the connection is open one of them is
    # what eventually ends a session whose peer has fallen silent
    STOPPERS = {'_idle_stop': ('Messenger._idle_reset', 'Messenger._idle_timeout', 'Messenger.close'), '_keepalive_stop': ('Messenger._keepalive_reset', 'Messenger.close')}
    for (rel, qual, func) in tree.all_functions([SESS]):
        for (stop, allowed) in STOPPERS.items():
            for c in method_calls(func, stop, 'self'):
                if qual in allowed:
                    ob.site(SESS, c, '{} stops its timer'.format(qual))
                else:
                    ob.violate(SESS, qual, src(c), 'a session timer is stopped outside its reset / timeout handler and close(): with the timers off an endpoint that waits for its peer '
                               '(a terminating session with a transfer still open) never closes once the peer falls silent', c, sure=True)
    fv = FuncView(tree, SESS, 'Messenger.send_message')
    calls = method_calls(fv.func, '_keepalive_reset', 'self')
    if calls and fv.cfg.must_pass(fv.cfg.entry, fv.cfg.exit, {fv.node(c) for c in calls}, include_exc=False)[0]:
        ob.site(SESS, calls[0], 'send_message always calls _keepalive_reset')
    else:
        ob.violate(SESS, fv.qual, '_keepalive_reset', 'a sent message does not restart the keepalive timer', fv.func)
    # idle timer: restarted by every message sent while established (traffic in either direction); once terminating the
    # endpoint must not defer its own idle close with the KEEPALIVEs it keeps sending
    calls = method_calls(fv.func, '_idle_reset', 'self')
    nodes = {fv.node(c) for c in calls}
    missed = [(n, lab, f) for (n, lab, f) in fv.exit_facts()
              if ('self._in_term', True) not in f and not (calls and (n in nodes or fv.cfg.must_pass(fv.cfg.entry, n, nodes, include_exc=False)[0]))]
    if not calls or missed:
        ob.violate(SESS, fv.qual, '_idle_reset', 'a sent message does not restart the idle timer', fv.func)
    else:
        ob.site(SESS, calls[0], 'send_message restarts the idle timer while not terminating')
    late = [c for c in calls if not fv.has(c, 'self._in_term', False)]
    if late:
        ob.violate(SESS, fv.qual, '_idle_reset() while terminating', 'every message sent restarts the idle timer also while terminating: with a keepalive interval below the idle time the KEEPALIVEs '
                   'this side keeps sending re-arm it for ever, and an endpoint whose peer has gone silent never closes', late[0])
    else:
        ob.site(SESS, calls[0] if calls else fv.func, 'own transmissions do not defer the idle close once terminating')
    # ... so the SESS_TERM itself arms it one last time (else an idle-timeout termination that is never answered never closes)
    ft = FuncView(tree, SESS, 'Messenger.send_sess_term')
    snd = one(method_calls(ft.func, 'send_message', 'self'), 'send in send_sess_term', ob)
    arms = {ft.node(c) for c in method_calls(ft.func, '_idle_reset', 'self')}
    if late:
        ob.site(SESS, snd, 'the SESS_TERM send re-arms the idle timer through send_message')
    elif arms and ft.cfg.must_pass(ft.node(snd), ft.cfg.exit, arms, include_exc=False)[0]:
        ob.site(SESS, snd, 'send_sess_term arms the idle timer behind the SESS_TERM')
    else:
        ob.violate(SESS, ft.qual, 'send_message(SESS_TERM) without a following _idle_reset()', 'after this side sent SESS_TERM no idle timer is running (the expired one was cleared, transmissions no longer '
                   're-arm it): a termination that the peer never answers never ends by closing', snd)
    fv = FuncView(tree, SESS, 'Messenger.recv_raw')
    calls = method_calls(fv.func, '_idle_reset', 'self')
    ok, wit = fv.cfg.must_pass(fv.cfg.entry, fv.cfg.exit, {fv.node(c) for c in calls}, include_exc=False) if calls else (False, None)
    if ok:
        ob.site(SESS, calls[0], 'every received chunk restarts the idle timer')
    else:
        ob.violate(SESS, fv.qual, '_idle_reset', 'received octets do not always restart the idle timer (a slowly arriving message is taken for silence)', fv.func, path_text(wit or []))
    fv = FuncView(tree, SESS, 'Messenger._keepalive_timeout')
    sends = method_calls(fv.func, 'send_message', 'self')
    s = one(sends, 'send in _keepalive_timeout', ob)
    if pm('messages.MessageHead() / messages.Keepalive()', s.args[0]) is None:
        ob.violate(SESS, fv.qual, src(s), 'keepalive timeout does not send a KEEPALIVE', s)
    elif not fv.cfg.must_pass(fv.cfg.entry, fv.cfg.exit, {fv.node(s)}, include_exc=False)[0]:
        ob.violate(SESS, fv.qual, src(s), 'keepalive timeout can pass without sending', s)
    else:
        ob.site(SESS, s, 'keepalive timeout sends exactly a KEEPALIVE')
    fv = FuncView(tree, SESS, 'Messenger._idle_timeout')
    terms = method_calls(fv.func, 'send_sess_term', 'self')
    t = one(terms, 'termination in _idle_timeout', ob)
    if src(t.args[0]) != 'messages.SessionTerm.Reason.IDLE_TIMEOUT' or not (isinstance(t.args[1], ast.Constant) and t.args[1].value is False):
        ob.violate(SESS, fv.qual, src(t), 'idle timeout does not start termination with reason idle-timeout', t)
    else:
        ob.site(SESS, t, 'idle timeout -> SESS_TERM(IDLE_TIMEOUT)')
    # sending the SESS_TERM re-arms the idle timer (send_message -> _idle_reset): the expired timer must be cleared
    # before, never after, or the endpoint that hears nothing further never closes
    stops = method_calls(fv.func, '_idle_stop', 'self')
    after = [s for s in stops if fv.node(s) in fv.cfg.reachable([fv.node(t)])]
    if after:
        ob.violate(SESS, fv.qual, '{} after {}'.format(src(after[0]), src(t)[:40]), 'the idle timer that the SESS_TERM send has just re-armed is cancelled again: '
                   'an endpoint whose peer stays silent never reaches the second timeout that closes it', after[0])
    else:
        ob.site(SESS, t, 'no idle-timer stop after the SESS_TERM send')
    rets = [r for r in walk_local(fv.func) if isinstance(r, ast.Return)]
    if any(r.value is not None and isinstance(r.value, ast.Constant) and r.value.value for r in rets):
        ob.violate(SESS, fv.qual, 'return True', 'idle timeout handler keeps itself armed', rets[0])
    fv = FuncView(tree, SESS, 'Messenger.close')
    for meth in ('_idle_stop', '_keepalive_stop'):
        calls = method_calls(fv.func, meth, 'self')
        if calls and fv.cfg.must_pass(fv.cfg.entry, fv.cfg.exit, {fv.node(c) for c in calls}, include_exc=False)[0]:
            ob.site(SESS, calls[0], 'close stops ' + meth[1:-5])
        else:
            ob.violate(SESS, fv.qual, meth, 'closing leaves the {} timer armed'.format(meth[1:-5]), fv.func)
    # timers armed at session start
    fv = FuncView(tree, SESS, 'Messenger.merge_session_params')
    msgr = tree.klass(SESS, 'Messenger')
    for (meth, attr) in (('_keepalive_reset', '_keepalive_time'), ('_idle_reset', '_idle_time')):
        calls = method_calls(fv.func, meth, 'self')
        wr = [s for (f, s, k, v) in stores_to_self_attr(msgr, attr) if f is fv.func]
        if calls and wr and fv.dominates(wr[0], calls[0])[0]:
            ob.site(SESS, calls[0], 'session start arms {} after negotiating'.format(meth))
        else:
            ob.violate(SESS, fv.qual, meth, 'timer is not (re)armed with the negotiated time when the session starts', fv.func)


def c14g_floor(tree, ob):
    """ the width of the keepalive field is that of a plain struct field: UInt16Field brings no encoder of its own """
    cls = tree.klass('tcpcl/formats.py', 'UInt16Field')
    own = [m.name for m in cls.body if isinstance(m, ast.FunctionDef) and m.name in ('i2m', 'addfield')]
    ob.site('tcpcl/formats.py', cls, 'UInt16Field: encoder ' + ('own: ' + ', '.join(own) if own else 'inherited from scapy (struct.pack fails for a value that does not fit)'))
