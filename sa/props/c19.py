''' C19 — status reports are sent exactly when requested and say what happened (structural clauses). '''
import ast
from ..core import AnalysisError, walk_local, calls_in, call_name, dotted, src, self_attr, kwarg, enclosing, const_int, enum_members
from ..lib import (FuncView, pm, method_calls, one, at_least, stores_to_self_attr, const_str, path_text)
from .. import norm, schema
from .c08 import c08a
from .c12 import c12f
from .c11 import c11a

UTIL = 'bp/util.py'
AGENT = 'bp/agent.py'
BLOCKS = 'bp/encoding/blocks.py'
ADMIN = 'bp/encoding/admin.py'
Q = 'BundleContainer.create_report'

RFC_FLAGS = {'delete': 0x040000, 'deliver': 0x020000, 'forward': 0x010000, 'receive': 0x004000}
RFC_FIELD = {'delete': 'deleted', 'deliver': 'delivered', 'forward': 'forwarded', 'receive': 'received'}


def check(chk, thorough=False):
    tree = chk.tree
    chk.run('C19.a', 'R-SCHEMA', 'action -> request flag and action -> assertion tables use the RFC 9171 bits and positions; status report layout equals section 6.1.1', lambda ob: c19a(tree, ob), floor=10)
    chk.run('C19.b', 'R-GUARD', 'no report without a report-to other than dtn:none; an assertion only for an action that occurred and was requested; time only if requested; nothing asserted -> no report', lambda ob: c19b(tree, ob), floor=5)
    chk.run('C19.c', 'R-FLOW', 'the reply goes to the subject report-to, names its source and creation timestamp, is flagged admin-record only (requests no reports), has CRCs, and leaves through Agent.send_bundle', lambda ob: c19c(tree, ob), floor=6)
    chk.run('C19.d', 'R-NOPATH', 'a bundle whose transmission was taken over by a TX step (fragmentation) does not reach the "no sender" failure that the forwarder reports as deleted', lambda ob: c19d(tree, ob), floor=2)
    chk.run('C19.e', 'R-PAIR', 'each terminal outcome (delete, deliver, forward / forward failure) gets exactly one report opportunity', lambda ob: c19e(tree, ob), floor=3)
    chk.run('C19.h', 'R-NOPATH', 'what is reported is what happened: a security failure withdraws deliver before delete is recorded (= C12.b); one routing decision per bundle, endpoint routing before static routing (= C10.c); a fragment that completes reassembly is withdrawn like the others (= C06.d)', lambda ob: _c19h(tree, ob), floor=15)
    chk.run('C19.i', 'R-PAIR', 'a bundle is reported deleted or delivered / forwarded, never both: wherever delete is recorded, the action it replaces is withdrawn first', lambda ob: c19i(tree, ob), floor=5)
    chk.run('C19.j', 'R-FLOW', '"forwarded" is recorded only for a bundle that was handed to a convergence layer (or waits for its session): no sender closure drops it (= C11.h)', lambda ob: __import__('sa.props.c11', fromlist=['c11h']).c11h(tree, ob), floor=6)
    chk.run('C19.k', 'R-TRUTH', 'a status time that was not requested stays absent: the time field maps "no value" to "no value", not to DTN time zero', lambda ob: c19k(tree, ob), floor=1)
    chk.run('C19.l', 'R-GUARD', '"forwarded" is reported for a bundle that was sent: no TX step other than fragmentation returns a truthy result that stops send_bundle() (= C05.l)', lambda ob: __import__('sa.props.common', fromlist=['tx_steps_discipline']).tx_steps_discipline(tree, ob), floor=4)
    chk.run('C19.m', 'R-ESCAPE', 'the report opportunity is reached on both arms of the forwarder: log_name(), called on the success arm AND inside the failure arm, only formats the destination and the identity (nothing that can raise for a container whose payload data was taken out by fragmentation)', lambda ob: c19m(tree, ob), floor=2)
    chk.run('C19.n', 'R-PAIR', 'every bundle put on the forwarding queue gets its own idle call of the forwarder, which handles one bundle per call', lambda ob: c19n(tree, ob), floor=2)
    chk.run('C19.f', 'R-TYPE', 'the reported reason is a reason code (= C12.f)', lambda ob: c12f(tree, ob), floor=2)
    chk.run('C19.p', 'R-ESCAPE', 'a log line cannot turn a completed step into a failure: no log call of the agent has a placeholder / argument mismatch while a logging filter of the repository formats records eagerly', lambda ob: __import__('sa.props.common', fromlist=['log_calls_cannot_raise']).log_calls_cannot_raise(tree, ob, ['bp/agent.py', 'bp/util.py', 'bp/cla.py']), floor=1)
    chk.run('C19.o', 'R-FLOW', 'a report finds the route that exists when it is sent: the transmit route is taken from a walk of the table each time, first match, never from remembered lookups (= C05.k)', lambda ob: __import__('sa.props.c05', fromlist=['c05k']).c05k(tree, ob), floor=3)
    chk.run('C19.g', 'R-WHO', 'the forwarding path does not rewrite report-to / flags / source / creation timestamp of the subject before its report is generated (= C11.a restricted to report-relevant fields)', lambda ob: c11a(tree, ob, only=('report_to', 'bundle_flags', 'source', 'create_ts')), floor=1)


def _c19h(tree, ob):
    from .c12 import c12b
    from .c10 import c10c
    from .c06 import c06d
    c12b(tree, ob)
    c10c(tree, ob)
    c06d(tree, ob)


def _dict_literal(fv, name, ob):
    defs = norm.local_assigns(fv.func, name)
    d = one(defs, name + ' table', ob)
    ob.require(isinstance(d[1], ast.Dict), name + ' is not a dict literal')
    return d[0], {const_str(k): v for (k, v) in zip(d[1].keys, d[1].values)}


def c19a(tree, ob):
    fv = FuncView(tree, UTIL, Q)
    st, flags = _dict_literal(fv, 'FLAGS', ob)
    for act, bit in RFC_FLAGS.items():
        got = const_int(tree, UTIL, flags[act]) if act in flags else None
        if got != bit:
            ob.violate(UTIL, Q, 'FLAGS[{!r}] = {}'.format(act, src(flags[act]) if act in flags else 'missing'), 'the {} report is requested by bit {:#08x} in RFC 9171, not {}'.format(act, bit, hex(got) if got is not None else None), st)
        else:
            ob.site(UTIL, st, 'request bit of {} = {:#08x}'.format(act, bit))
    for extra in set(flags) - set(RFC_FLAGS):
        ob.violate(UTIL, Q, 'FLAGS[{!r}]'.format(extra), 'unknown action in the request table', st)
    st2, fld = _dict_literal(fv, 'STATUS_FIELD', ob)
    for act, name in RFC_FIELD.items():
        if const_str(fld.get(act)) != name:
            ob.violate(UTIL, Q, 'STATUS_FIELD[{!r}] = {}'.format(act, src(fld[act]) if act in fld else 'missing'), 'action {} must assert the "{}" status'.format(act, name), st2)
        else:
            ob.site(UTIL, st2, '{} asserts {}'.format(act, name))
    tsbit = const_int(tree, BLOCKS, ast.parse('PrimaryBlock.Flag.REQ_STATUS_TIME', mode='eval').body)
    if tsbit != 0x40:
        ob.violate(BLOCKS, 'PrimaryBlock.Flag', 'REQ_STATUS_TIME', 'status-time request bit is not 0x000040', tree.klass(BLOCKS, 'PrimaryBlock.Flag'))
    # layouts
    arr = [f.name for f in schema.fields_desc(tree, ADMIN, 'StatusInfoArray', inherit=False)]
    if arr != ['received', 'forwarded', 'delivered', 'deleted']:
        ob.violate(ADMIN, 'StatusInfoArray', 'fields_desc', 'status assertions are not in the order received, forwarded, delivered, deleted', tree.klass(ADMIN, 'StatusInfoArray'))
    else:
        ob.site(ADMIN, tree.klass(ADMIN, 'StatusInfoArray'), 'assertion order received, forwarded, delivered, deleted')
    info = schema.fields_desc(tree, ADMIN, 'StatusInfo', inherit=False)
    if [(f.name, f.kind, f.optional) for f in info] != [('status', 'BoolField', False), ('at', 'DtnTimeField', True)]:
        ob.violate(ADMIN, 'StatusInfo', 'fields_desc', 'a status assertion is not [bool, optional time]', tree.klass(ADMIN, 'StatusInfo'))
    else:
        ob.site(ADMIN, tree.klass(ADMIN, 'StatusInfo'), 'assertion = [bool, (time)]')
    rep = schema.fields_desc(tree, ADMIN, 'StatusReport', inherit=False)
    want = [('status', 'PacketField', False), ('reason_code', 'EnumField', False), ('subj_source', 'EidField', False), ('subj_ts', 'PacketField', False),
            ('fragment_offset', 'UintField', True), ('payload_len', 'UintField', True)]
    if [(f.name, f.kind, f.optional) for f in rep] != want:
        ob.violate(ADMIN, 'StatusReport', 'fields_desc', 'status report is not [status, reason, source, timestamp, (offset, length)]', tree.klass(ADMIN, 'StatusReport'))
    else:
        ob.site(ADMIN, tree.klass(ADMIN, 'StatusReport'), 'status report layout')
    binds = [b for b in schema.bindings(tree, ADMIN) if b[1] == 'StatusReport']
    if not binds or binds[0][2].get('type_code') != 1:
        ob.violate(ADMIN, 'StatusReport', '@AdminRecord.bind_type(1)', 'status report is not administrative record type 1', tree.klass(ADMIN, 'StatusReport'))
    reasons = enum_members(tree, ADMIN, tree.klass(ADMIN, 'StatusReport.ReasonCode'))
    wantr = {'NO_INFO': 0, 'LIFETIME_EXP': 1, 'FWD_UNI': 2, 'TX_CANCEL': 3, 'DEPLETE_STORAGE': 4, 'DEST_EID_UNINTEL': 5, 'NO_ROUTE': 6, 'NO_NEXT_CONTACT': 7,
             'BLOCK_UNINTEL': 8, 'HOP_LIMIT_EXC': 9, 'TRAFIC_PAIRED': 10, 'MISSING_SEC': 12, 'UNKNOWN_SEC': 13, 'UNEXPECT_SEC': 14, 'FAILED_SEC': 15, 'CONFLICT_SEC': 16}
    if sorted(reasons.values()) != sorted(wantr.values()) or reasons.get('NO_ROUTE') != 6 or reasons.get('FAILED_SEC') != 15 or reasons.get('NO_INFO') != 0:
        ob.violate(ADMIN, 'StatusReport.ReasonCode', 'enum', 'reason code points differ from RFC 9171 / RFC 9172', tree.klass(ADMIN, 'StatusReport.ReasonCode'))
    else:
        ob.site(ADMIN, tree.klass(ADMIN, 'StatusReport.ReasonCode'), 'reason code points 0-10, 12-16')


def c19b(tree, ob):
    fv = FuncView(tree, UTIL, Q)
    ctor = one([c for c in calls_in(fv.func) if call_name(c) == 'StatusReport'], 'StatusReport construction', ob)
    reply = one([c for c in calls_in(fv.func) if call_name(c) == 'PrimaryBlock'], 'reply primary block', ob)
    dest = fv.value_at(ast.parse('status_dest', mode='eval').body, ctor)
    if src(dest) != 'self.bundle.primary.report_to':
        ob.violate(UTIL, Q, 'status_dest = ' + src(dest), 'the guard does not look at the bundle report-to', ctor)
    for site in (ctor, reply):
        facts = fv.facts(site) or frozenset()
        if ('status_dest is None', False) in facts and ("status_dest == 'dtn:none'", False) in facts:
            ob.site(UTIL, site, 'only with a report-to other than dtn:none')
        else:
            ob.violate(UTIL, Q, src(site)[:50], 'a report can be built for a bundle whose report-to is absent or dtn:none', site)
        if ('any_status', True) not in facts:
            ob.violate(UTIL, Q, src(site)[:50], 'a report can be built although no requested action occurred', site)
    # assertion loop
    lp = one([n for n in walk_local(fv.func) if isinstance(n, ast.For)], 'action loop', ob)
    if pm('self.actions.items()', lp.iter) is None:
        ob.violate(UTIL, Q, 'for ... in ' + src(lp.iter), 'assertions are not derived from the recorded actions', lp)
    act = src(lp.target.elts[0])
    ts = src(lp.target.elts[1])
    sets = [c for c in calls_in(lp) if isinstance(c.func, ast.Attribute) and c.func.attr == 'setfieldval']
    s = one(sets, 'assertion set', ob)
    facts = fv.facts(s) or frozenset()
    flagdef = fv.value_at(ast.parse('flag', mode='eval').body, s, depth=1)
    if pm('FLAGS[{}]'.format(act), flagdef) is None or ('own_flags & flag', True) not in facts:
        ob.violate(UTIL, Q, src(s), 'an action is asserted although its report was not requested by the bundle flags', s)
    else:
        ob.site(UTIL, s, 'asserted only when (own flags & request bit of the action)')
    own = fv.value_at(ast.parse('own_flags', mode='eval').body, s)
    if src(own) != "self.bundle.primary.getfieldval('bundle_flags')" and src(own) != 'self.bundle.primary.bundle_flags':
        ob.violate(UTIL, Q, 'own_flags = ' + src(own), 'request flags are not read from the subject bundle', s)
    if pm('status_array.setfieldval(STATUS_FIELD[{}], $i)'.format(act), s) is None:
        ob.violate(UTIL, Q, src(s), 'the assertion set is not the one belonging to the action', s)
    info = s.args[1] if isinstance(s.args[1], ast.Call) else fv.value_at(s.args[1], s, depth=1, keep=('status_ts', ts))
    ok = isinstance(info, ast.Call) and call_name(info) == 'StatusInfo'
    at = kwarg(info, 'at') if ok else None
    stt = kwarg(info, 'status') if ok else None
    if not ok or not (isinstance(stt, ast.Constant) and stt.value is True):
        ob.violate(UTIL, Q, src(info)[:80], 'assertion is not StatusInfo(status=True, ...)', s)
    good_at = isinstance(at, ast.IfExp) and src(at.body) == ts and isinstance(at.orelse, ast.Constant) and at.orelse.value is None and src(at.test) == 'status_ts'
    if not good_at:
        ob.violate(UTIL, Q, 'at=' + (src(at) if at is not None else 'missing'), 'the assertion time is not (the action time if status time was requested, else absent): '
                   'a value other than None is encoded as a time element', s)
    else:
        ob.site(UTIL, s, 'time only when requested, else absent (None)')
        tsd = fv.value_at(ast.parse('status_ts', mode='eval').body, s)
        if 'PrimaryBlock.Flag.REQ_STATUS_TIME' not in src(tsd) or 'own_flags' not in src(fv.value_at(ast.parse('status_ts', mode='eval').body, s, depth=1)):
            ob.violate(UTIL, Q, 'status_ts = ' + src(tsd), 'status time is not decided by the status-time request flag', s)
    marks = [st for (st, v) in norm.local_assigns(fv.func, 'any_status')]
    tr = [m for m in marks if isinstance(m.value, ast.Constant) and m.value.value is True]
    if not tr or not all(fv.dominates(s, m)[0] or fv.node(m) in fv.cfg.reachable([fv.node(s)]) for m in tr) or any(enclosing(m, (ast.For,)) is not lp for m in tr):
        ob.violate(UTIL, Q, 'any_status = True', '"something was asserted" is set without an assertion', fv.func)
    nones = [r for r in walk_local(fv.func) if isinstance(r, ast.Return) and fv.has(r, 'any_status', False)]
    if not nones or any(not (r.value is None or (isinstance(r.value, ast.Constant) and r.value.value is None)) for r in nones):
        ob.violate(UTIL, Q, 'if not any_status: return None', 'a report is produced with nothing asserted', fv.func)
    else:
        ob.site(UTIL, nones[0], 'nothing asserted -> no report')


def c19c(tree, ob):
    fv = FuncView(tree, UTIL, Q)
    ctor = one([c for c in calls_in(fv.func) if call_name(c) == 'StatusReport'], 'StatusReport construction', ob)
    kws = {k.arg: src(k.value) for k in ctor.keywords}
    if kws.get('subj_source') != 'self.bundle.primary.source' or kws.get('subj_ts') != 'self.bundle.primary.create_ts' or kws.get('status') != 'status_array':
        ob.violate(UTIL, Q, src(ctor)[:120], 'the report does not identify its subject by source and creation timestamp', ctor)
    else:
        ob.site(UTIL, ctor, 'subject = (source, creation timestamp)')
    pri = one([c for c in calls_in(fv.func) if call_name(c) == 'PrimaryBlock'], 'reply primary', ob)
    pk = {k.arg: k.value for k in pri.keywords}
    if src(pk.get('destination', ast.Constant(value=None))) != 'self.bundle.primary.report_to':
        ob.violate(UTIL, Q, 'destination=' + src(pk.get('destination', ast.Constant(value=None))), 'the report is not addressed to the subject report-to', pri)
    else:
        ob.site(UTIL, pri, 'destination = subject report-to')
    fl = pk.get('bundle_flags')
    if fl is None or const_int(tree, UTIL, fl) != 0x2:
        ob.violate(UTIL, Q, 'bundle_flags=' + (src(fl) if fl is not None else 'missing'), 'the report is not flagged exactly as an administrative record (it may itself request reports)', pri)
    else:
        ob.site(UTIL, pri, 'flags = PAYLOAD_ADMIN only')
    crcs = [pk.get('crc_type')]
    blk = [c for c in calls_in(fv.func) if call_name(c) == 'CanonicalBlock']
    b = one(blk, 'reply payload block', ob)
    crcs.append(kwarg(b, 'crc_type'))
    if any(c is None or const_int(tree, UTIL, c) in (None, 0) for c in crcs):
        ob.violate(UTIL, Q, 'crc_type', 'the report bundle is built without CRCs', pri)
    else:
        ob.site(UTIL, b, 'report blocks carry CRC types {}'.format([const_int(tree, UTIL, c) for c in crcs]))
    if const_int(tree, UTIL, kwarg(b, 'type_code')) != 1 or const_int(tree, UTIL, kwarg(b, 'block_num')) != 1:
        ob.violate(UTIL, Q, src(b)[:80], 'the report payload block is not block type 1 number 1', b)
    lst = b._parent
    while lst is not None and not isinstance(lst, ast.Assign):
        lst = lst._parent
    if lst is None or 'AdminRecord()' not in src(lst.value) or not src(lst.value).rstrip(',] \n').endswith('report'):
        ob.violate(UTIL, Q, src(lst)[:100] if lst is not None else 'blocks', 'the payload is not AdminRecord / status report', b)
    else:
        ob.site(UTIL, lst, 'payload = AdminRecord / StatusReport')
    # reason
    rc = kwarg(ctor, 'reason_code')
    if rc is None or pm('self.status_reason if self.status_reason else StatusReport.ReasonCode.NO_INFO', rc) is None:
        ob.violate(UTIL, Q, 'reason_code=' + (src(rc) if rc is not None else 'missing'), 'the reason is not the last recorded status reason (or "no information")', ctor)
    # sent through Agent.send_bundle
    ff = FuncView(tree, AGENT, 'Agent._finish_bundle')
    adds = [c for c in calls_in(ff.func) if call_name(c) == 'glib.idle_add']
    a = one(adds, 'report scheduling', ob)
    st = fv.value_at if False else None
    rep = ff.value_at(a.args[1], a, depth=1) if len(a.args) > 1 else None
    if src(a.args[0]) != 'self.send_bundle' or rep is None or pm('ctr.create_report()', rep) is None or not ff.has(a, src(a.args[1]), True):
        ob.violate(AGENT, ff.qual, src(a), 'the report of the processed bundle is not sent through Agent.send_bundle (valid CRCs) when one was generated', a)
    else:
        ob.site(AGENT, a, 'report sent through Agent.send_bundle when generated')
    # whether a report is due is decided in one place, BundleContainer.create_report() (flags, report-to, recorded actions):
    # _finish_bundle asks it for every bundle.  A return ahead of that question ("never report on an administrative record")
    # withholds reports that were requested -- the deletion report for a refused ACME request among them.
    crs = [c for c in calls_in(ff.func) if isinstance(c.func, ast.Attribute) and c.func.attr == 'create_report']
    cr = one(crs, 'create_report() in _finish_bundle', ob)
    early = [r for r in walk_local(ff.func) if isinstance(r, ast.Return) and ff.node(cr) not in ff.cfg.reachable([ff.node(r)]) and not ff.dominates(cr, r)[0]]
    if early:
        ob.violate(AGENT, ff.qual, 'return ahead of create_report() under {}'.format(' and '.join(('' if p else 'not ') + t for (t, p) in (ff.facts(early[0]) or ()))[:90] or 'a test'),
                   'some processed bundles are never asked whether a report is due: a report that was requested (and is not excluded by create_report) is not sent', early[0], sure=True)
    elif not ff.cfg.must_pass(ff.cfg.entry, ff.cfg.exit, {ff.node(cr)}, include_exc=False)[0]:
        ob.violate(AGENT, ff.qual, 'a way through _finish_bundle without create_report()', 'some processed bundles are never asked whether a report is due', ff.func)
    else:
        ob.site(AGENT, cr, 'every processed bundle is asked for its report')


def c19e(tree, ob):
    # the routing decision is recorded in the same action record the report is built from: where it is NOT carried out it
    # must be withdrawn, or the report asserts an action that did not occur
    for (qual, keys) in (('Agent._do_fwd', ('forward',)), ('Agent.recv_bundle', ('deliver', 'forward'))):
        fx = FuncView(tree, AGENT, qual)
        for h in [x for x in walk_local(fx.func) if isinstance(x, ast.ExceptHandler)]:
            tr = enclosing(h, (ast.Try,))
            body_calls = [call_name(c) or '' for st in tr.body for c in calls_in(st)]
            if not any(n.endswith('send_bundle') or n.endswith('step.action') for n in body_calls):
                continue
            popped = {const_str(c.args[0]) for c in calls_in(h) if pm('ctr.actions.pop($k, None)', c) is not None} | \
                     {const_str(t.slice) for d in walk_local(h) if isinstance(d, ast.Delete) for t in d.targets if isinstance(t, ast.Subscript) and src(t.value) == 'ctr.actions'}
            missing = [k for k in keys if k not in popped]
            deleted = any(c.args and const_str(c.args[0]) == 'delete' for c in method_calls(h, 'record_action', 'ctr'))
            if missing or not deleted:
                what = 'forwarded' if qual.endswith('_do_fwd') else 'delivered'
                ob.violate(AGENT, qual, 'except: {} stays recorded'.format(' / '.join(missing) or 'no delete'), 'when the step raises, the routing decision recorded earlier stays in the action record: the status '
                           'report asserts "{}" for a bundle that was not (next to "deleted", or alone when only that report was requested)'.format(what), h)
            else:
                ob.site(AGENT, h, qual + ': failure withdraws the routing decision and records delete')
    fv = FuncView(tree, AGENT, 'Agent.recv_bundle')
    fins = method_calls(fv.func, '_finish_bundle', 'self')
    for key in ('delete', 'deliver'):
        hit = [f for f in fins if fv.has(f, "'{}' in ctr.actions".format(key), True)]
        if len(hit) != 1:
            ob.violate(AGENT, fv.qual, "'{}' in ctr.actions -> _finish_bundle".format(key), 'a {}d bundle gets {} report opportunities instead of one'.format(key, len(hit)), fv.func)
        else:
            ob.site(AGENT, hit[0], '{} outcome -> one _finish_bundle'.format(key))
    dele = [f for f in fins if fv.has(f, "'delete' in ctr.actions", True)]
    if dele:
        after = [n for n in fv.cfg.reachable([fv.node(dele[0])], include_exc=False) if n.kind == 'stmt' and any(fv.node(f) is n for f in fins if f is not dele[0])]
        if after:
            ob.violate(AGENT, fv.qual, 'delete branch falls through', 'a deleted bundle is reported twice', dele[0])
    fw = [f for f in fins if fv.has(f, "'forward' in ctr.actions", True)]
    if fw:
        ob.violate(AGENT, fv.qual, "'forward' -> _finish_bundle in recv_bundle", 'forwarded status is reported before the bundle was actually sent', fw[0])
    ff = FuncView(tree, AGENT, 'Agent._do_fwd')
    fins = method_calls(ff.func, '_finish_bundle', 'self')
    pops = [c for c in calls_in(ff.func) if pm('self._fwd_queue.pop(0)', c) is not None]
    p = one(pops, 'forward queue pop', ob)
    ok, wit = ff.cfg.must_pass(ff.node(p), ff.cfg.exit, {ff.node(f) for f in fins}, include_exc=False) if fins else (False, None)
    if not ok or len(fins) != 1:
        ob.violate(AGENT, ff.qual, '_finish_bundle', 'a forwarded bundle does not get exactly one report opportunity', ff.func, path_text(wit or []))
    else:
        ob.site(AGENT, fins[0], 'forward outcome -> one _finish_bundle')
    # forwarded is recorded only after the send returned; a failure records delete/NO_ROUTE
    recs = [c for c in method_calls(ff.func, 'record_action') if c.args and const_str(c.args[0]) == 'forward']
    snd = one(method_calls(ff.func, 'send_bundle', 'self'), 'send in _do_fwd', ob)
    if not recs or not ff.dominates(snd, recs[0])[0]:
        ob.violate(AGENT, ff.qual, "record_action('forward')", 'forwarded is recorded without the send having returned', ff.func)
    else:
        ob.site(AGENT, recs[0], 'forward recorded after send_bundle returned')


def c19d(tree, ob):
    ''' A TX step that schedules transmissions itself (the fragmenter) consumes the bundle: it clears route and
    sender and asks to interrupt the chain.  send_bundle must then not fall into its "no sender" raise, because
    _do_fwd's except arm records delete/NO_ROUTE for it although the fragments were sent. '''
    from .common import chain_steps
    consumers = []
    for s in [s for s in chain_steps(tree) if s['chain'] == 'tx']:
        fm = tree.find_method(s['rel'], s['cls'], s['action'])
        if not fm:
            continue
        fn = fm[2]
        sched = [c for c in calls_in(fn) if call_name(c) == 'glib.idle_add' and c.args and src(c.args[0]).endswith('send_bundle')]
        clears = [n for n in walk_local(fn) if isinstance(n, ast.Assign) and src(n.targets[0]) == 'ctr.sender' and isinstance(n.value, ast.Constant) and n.value.value is None]
        truthy = [r for r in walk_local(fn) if isinstance(r, ast.Return) and isinstance(r.value, ast.Constant) and r.value.value is True]
        if sched and clears:
            # once the sender is cleared the step must interrupt the chain on every way out
            fq = FuncView(tree, fm[0], fm[1].name + '.' + fn.name)
            tn = {fq.node(r) for r in truthy}
            if not truthy or not fq.cfg.must_pass(fq.node(clears[0]), fq.cfg.exit, tn, include_exc=False)[0]:
                ob.violate(fm[0], fq.qual, 'ctr.sender = None ... (no return True)', 'the step that took over transmission (fragments scheduled, sender cleared) lets the chain go on: send_bundle then finds no '
                           'sender and raises, and the bundle that was forwarded as fragments is reported deleted', clears[0])
                continue
        if sched and clears and truthy:
            consumers.append((fm[0], fm[1].name + '.' + fn.name, fn))
            ob.site(fm[0], fn, 'TX step {} takes over transmission (schedules send_bundle, clears the sender, interrupts the chain)'.format(fn.name))
    fv = FuncView(tree, AGENT, 'Agent.send_bundle')
    lp = one([n for n in walk_local(fv.func) if isinstance(n, ast.For) and src(n.iter) == 'self._tx_chain'], 'TX chain loop', ob)
    stops = [n for n in walk_local(lp) if isinstance(n, (ast.Break, ast.Return)) and fv.has(n, 'step.action(ctr)', True)]
    st = one(stops, 'reaction to a step that interrupts the TX chain', ob)
    raises = [r for r in walk_local(fv.func) if isinstance(r, ast.Raise) and fv.has(r, 'ctr.sender is None', True)]
    ob.site(AGENT, st, 'interrupting step -> {}'.format(type(st).__name__.lower()))
    if not consumers:
        return
    fd = FuncView(tree, AGENT, 'Agent._do_fwd')
    dele = [c for c in method_calls(fd.func, 'record_action') if c.args and const_str(c.args[0]) == 'delete' and enclosing(c, (ast.ExceptHandler,)) is not None]
    for r in raises:
        wit = fv.cfg.path(fv.node(st), fv.node(r), include_exc=False)
        if wit is not None and dele:
            ob.violate(AGENT, fv.qual, 'step interrupted the chain -> ... -> raise RuntimeError(no sender)',
                       'after the fragmenter took over the bundle (fragments scheduled, sender cleared) send_bundle raises "no sender"; '
                       '_do_fwd turns that into delete/NO_ROUTE, so a bundle forwarded as fragments is reported deleted', r, path_text(wit))
    snd = [c for c in calls_in(fv.func) if pm('ctr.sender($d)', c) is not None]
    if snd and fv.cfg.path(fv.node(st), fv.node(snd[0]), include_exc=False) is not None and not raises:
        ob.violate(AGENT, fv.qual, 'interrupt -> ctr.sender(data)', 'a bundle consumed by a TX step is also transmitted whole', snd[0])



def c19i(tree, ob):
    ''' create_report() asserts every action on record that was requested.  "delete" next to a "deliver" (or "forward") that
    was recorded earlier -- by the routing step, before an application or the forwarder found it could not go through with
    it -- makes the report claim both. '''
    n = 0
    for rel in sorted(r for r in tree.modules if r.startswith('bp/') and '/encoding/' not in r):
        for (r, qual, func) in tree.all_functions([rel]):
            recs = [c for c in calls_in(func) if isinstance(c.func, ast.Attribute) and c.func.attr == 'record_action' and c.args and const_str(c.args[0]) == 'delete']
            if not recs:
                continue
            fv = FuncView(tree, rel, qual)
            for c in recs:
                n += 1
                recv = src(c.func.value)
                wd = []
                for x in walk_local(func):
                    if isinstance(x, ast.Delete) and any(pm("{}.actions[$k]".format(recv), t) is not None for t in x.targets):
                        wd.append(x)
                for x in calls_in(func):
                    if pm("{}.actions.pop($k, None)".format(recv), x) is not None or pm("{}.actions.pop($k)".format(recv), x) is not None or pm("{}.actions.clear()".format(recv), x) is not None:
                        wd.append(x)
                keys = set()
                ok = False
                for w in wd:
                    if isinstance(w, ast.Delete):
                        k = const_str(pm("{}.actions[$k]".format(recv), w.targets[0])['k'])
                    else:
                        got = pm("{}.actions.pop($k, None)".format(recv), w) or pm("{}.actions.pop($k)".format(recv), w)
                        k = const_str(got['k']) if got else '*'
                    guard = enclosing(w, ast.If)
                    # the withdrawal dominates the record, or sits in an "if 'deliver' in actions:" that does
                    dom = fv.dominates(w, c)[0] or (guard is not None and "in {}.actions".format(recv) in src(guard.test) and fv.dominates(guard.test, c)[0] and enclosing(c, ast.If) is not guard)
                    if dom:
                        keys.add(k)
                if rel.startswith('bp/app/'):
                    ok = bool(keys & {'deliver', '*'})
                else:
                    ok = bool(keys & {'deliver', 'forward', '*'})
                if not ok and fv.has(c, "'deliver' in {}.actions".format(recv), False):
                    ok = True
                if ok:
                    ob.site(rel, c, qual + ': delete recorded after the replaced action was withdrawn')
                else:
                    ob.violate(rel, qual, src(c)[:60] + "  ('deliver' still on record)", 'delete is recorded for a bundle whose earlier action stays on record: its status report asserts delivered (or forwarded) and deleted '
                               'at the same time, for a bundle the application refused', c)
    ob.require(n >= 5, 'delete records found: {}'.format(n))


def c19k(tree, ob):
    from .. import absint
    rel = 'bp/encoding/fields.py'
    cls = tree.klass(rel, 'DtnTimeField')
    m = one([x for x in cls.body if isinstance(x, ast.FunctionDef) and x.name == 'any2i'], 'DtnTimeField.any2i', ob)
    out = absint.run(m.body, {m.args.args[2].arg: None}, {})
    if out.kind == 'return' and out.value is None:
        ob.site(rel, m, 'any2i(None) is None')
    else:
        ob.violate(rel, 'DtnTimeField.any2i', 'any2i(None)', 'an absent time is converted into a value (DTN time 0): status items whose time was not requested are sent as [true, 0] instead of [true]', out.node or m)



def c19m(tree, ob):
    UTIL = 'bp/util.py'
    fv = FuncView(tree, UTIL, 'BundleContainer.log_name')
    allowed = ('format', 'bundle_ident', 'str', 'repr')
    bad = [c for c in calls_in(fv.func) if (c.func.attr if isinstance(c.func, ast.Attribute) else (call_name(c) or '')) not in allowed]
    subs = [n for n in walk_local(fv.func) if isinstance(n, ast.Subscript)]
    if bad or subs:
        ob.violate(UTIL, fv.qual, src((bad or subs)[0])[:60], 'log_name() computes more than the destination and the identity: where that raises (the length of payload data that fragmentation has taken '
                   'out is len(None)) it raises on the success arm of _do_fwd and again inside its failure arm, _finish_bundle() is never reached and a bundle forwarded as fragments gets no report', (bad or subs)[0])
    else:
        ob.site(UTIL, fv.func, 'log_name() formats destination and identity only')
    fa = FuncView(tree, AGENT, 'Agent._do_fwd')
    fin = one(method_calls(fa.func, '_finish_bundle', 'self'), '_finish_bundle in _do_fwd', ob)
    if enclosing(fin, (ast.Try, ast.If, ast.For, ast.While)) is None:
        ob.site(AGENT, fin, '_finish_bundle() follows the try of the forwarder unconditionally')
    else:
        ob.violate(AGENT, fa.qual, src(fin), 'the report opportunity of the forwarder is conditional', fin)


def c19n(tree, ob):
    fr = FuncView(tree, AGENT, 'Agent.recv_bundle')
    apps = [c for c in calls_in(fr.func) if pm('self._fwd_queue.append($c)', c) is not None]
    ob.require(apps, 'forwarding queue append in recv_bundle')
    from ..core import parent, enclosing_stmt
    for a in apps:
        st = enclosing_stmt(a)
        par = parent(st)
        sibs = []
        for fld in ('body', 'orelse', 'finalbody'):
            blk = getattr(par, fld, None)
            if isinstance(blk, list) and st in blk:
                sibs = blk
        idle = [x for x in sibs if isinstance(x, ast.Expr) and isinstance(x.value, ast.Call) and (call_name(x.value) or '') == 'glib.idle_add' and [src(y) for y in x.value.args] == ['self._do_fwd']]
        if idle:
            ob.site(AGENT, a, 'queue append and idle call side by side')
        else:
            ob.violate(AGENT, fr.qual, src(a) + '  (no unconditional glib.idle_add(self._do_fwd) beside it)', 'a bundle is put on the forwarding queue without an idle call of its own: _do_fwd() handles one bundle and '
                       'returns False, so a bundle that arrives while another is queued stays there -- not forwarded, never reported', a)
    fd = FuncView(tree, AGENT, 'Agent._do_fwd')
    pops = [c for c in calls_in(fd.func) if pm('self._fwd_queue.pop(0)', c) is not None]
    if len(pops) == 1 and enclosing(pops[0], (ast.For, ast.While)) is None:
        ob.site(AGENT, pops[0], '_do_fwd() takes one bundle per call')
