''' C05 — BP fragmentation keeps every fragment within the route MTU and loses nothing (structural clauses). '''
import ast
from ..core import AnalysisError, walk_local, calls_in, call_name, dotted, src, self_attr, kwarg, enclosing, const_int
from ..lib import (FuncView, pm, method_calls, one, at_least, stores_to_self_attr, const_str, path_text)
from ..cfg import handler_names
from .. import norm
from .common import chain_steps, tiling, linear

FRAG = 'bp/app/fragment.py'
AGENT = 'bp/agent.py'
BLOCKS = 'bp/encoding/blocks.py'
Q = 'Fragment._create'


def check(chk, thorough=False):
    tree = chk.tree
    chk.run('C05.a', 'R-GUARD', 'fragmentation only when an MTU exists, the bundle exceeds it, and it is neither do-not-fragment nor already a fragment; otherwise untouched', lambda ob: c05a(tree, ob), floor=3)
    chk.run('C05.b', 'R-GUARD', 'payload ranges tile from 0 by the budget: slice [off, off+size), advance by the same size, size > 0 guaranteed before slicing', lambda ob: c05b(tree, ob), floor=2)
    chk.run('C05.c', 'R-FLOW', 'each fragment: copy of the primary with the fragment flag, its own offset, the original payload length; blocks copied iff first / replicate / payload', lambda ob: c05c(tree, ob), floor=5)
    chk.run('C05.d', 'R-LINEAR', 'data budget = mtu - N + 1 - h with N measured on the filled, empty-payload fragment and h the head size of the total payload length', lambda ob: c05d(tree, ob), floor=3)
    chk.run('C05.j', 'R-FLOW', 'every fragment handed to a convergence-layer adaptor reaches the CL or waits for its session: none is dropped on the way (= C11.h)', lambda ob: __import__('sa.props.c11', fromlist=['c11h']).c11h(tree, ob), floor=6)
    chk.run('C05.k', 'R-FLOW', 'the route whose MTU sizes the fragments is the route they are sent on: one routing decision per bundle, the first matching transmit route in table order, kept in ctr.route', lambda ob: c05k(tree, ob), floor=3)
    chk.run('C05.l', 'R-GUARD', 'fragments pass the TX chain again: no step other than the cutter edits the blocks of a fragment, and only the cutter may take a transmission over', lambda ob: __import__('sa.props.common', fromlist=['tx_steps_discipline']).tx_steps_discipline(tree, ob), floor=4)
    chk.run('C05.e', 'R-SCHEMA', 'security TX steps run before fragment creation; fragments re-enter through Agent.send_bundle', lambda ob: c05e(tree, ob), floor=3)
    chk.run('C05.f', 'R-NOPATH', 'when fragmentation is impossible nothing altered is transmitted: no mutation of the original before a raise; a failed TX step never reaches the sender', lambda ob: c05f(tree, ob), floor=2)
    chk.run('C05.h', 'R-ORDER', 'sizes seen by the TX steps include the CRC fields: the bundle is filled before the TX chain runs, and block filling always reaches the CRC placeholder step', lambda ob: c05h(tree, ob), floor=3)
    chk.run('C05.i', 'R-FLOW', 'functions scheduled once with glib.idle_add (send_bundle for fragments and reports, recv_bundle) never return a truthy value, which would make GLib call them again', lambda ob: c05i(tree, ob), floor=3)
    chk.run('C05.m', 'R-ORDER', 'the primary block is complete (creation time filled whenever zero) before the cutter measures it: fragments are not completed one by one afterwards', lambda ob: c05m(tree, ob), floor=2)
    chk.run('C05.n', 'R-WHO', 'what was measured against the MTU is what is sent: the CRC update on the way out recomputes values, it never changes which blocks carry a CRC', lambda ob: c05n(tree, ob), floor=1)
    chk.run('C05.o', 'R-WHO', 'the route tables are only appended to at run time: a configured route (pattern order, MTU) is never replaced or dropped by discovery', lambda ob: __import__('sa.props.common', fromlist=['route_tables_append_only']).route_tables_append_only(tree, ob), floor=1)
    chk.run('C05.g', 'R-PAIR', 'deleting a block encoded data also drops its parsed payload (else it is regenerated and the "empty" measurement is full size)', lambda ob: c05g(tree, ob), floor=1)


def _gate(fv):
    conds = [n for n in fv.cfg.nodes if n.kind == 'cond' and norm.atom(n.ast) == ('should_fragment', True)]
    return conds


def _flags_survive(tree, ob):
    ''' the do-not-fragment mark the decision reads must be the one the bundle came with.  The one place on the way that
    rewrites the flags of a bundle is Bundle._update_from_admin() (run at every build of a bundle that carries an
    administrative record): it may only add the admin flag to what is there. '''
    BN = 'bp/encoding/bundle.py'
    fv = FuncView(tree, BN, 'Bundle._update_from_admin')
    sets = [c for c in calls_in(fv.func) if isinstance(c.func, ast.Attribute) and c.func.attr == 'setfieldval' and c.args and const_str(c.args[0]) == 'bundle_flags']
    sets += [n for n in walk_local(fv.func) if isinstance(n, (ast.Assign, ast.AugAssign)) and any(src(t).endswith('.bundle_flags') for t in (n.targets if isinstance(n, ast.Assign) else [n.target]))]
    ob.require(sets, 'flag update in _update_from_admin')
    for st in sets:
        if isinstance(st, ast.Call):
            val = fv.value_at(st.args[1], st, depth=4)
            ok = src(val) in ("self.primary.getfieldval('bundle_flags') | PrimaryBlock.Flag.PAYLOAD_ADMIN", "PrimaryBlock.Flag.PAYLOAD_ADMIN | self.primary.getfieldval('bundle_flags')")
        else:
            ok = isinstance(st, ast.AugAssign) and isinstance(st.op, ast.BitOr) and src(st.value) == 'PrimaryBlock.Flag.PAYLOAD_ADMIN'
        if ok:
            ob.site(BN, st, 'admin bundles: the admin flag is added, every other flag stays')
        else:
            ob.violate(BN, fv.qual, src(st)[:90], 'the flags of a bundle that carries an administrative record are rewritten (masked to a list, replaced) when it is built: a do-not-fragment mark is lost on the '
                       'way, so the bundle is fragmented although it was marked', st)


def c05a(tree, ob):
    _flags_survive(tree, ob)
    fv = FuncView(tree, FRAG, Q)
    defs = norm.local_assigns(fv.func, 'should_fragment')
    d = one(defs, 'should_fragment definition', ob)
    val = norm.strip(fv.value_at(d[1], d[0], keep=('bundle_flags', 'mtu', 'orig_size')))
    if not (isinstance(val, ast.BoolOp) and isinstance(val.op, ast.And)):
        ob.violate(FRAG, Q, src(d[0])[:120], 'the fragmentation decision is not a conjunction', d[0])
        return
    atoms = norm.all_atoms(val)
    mtu_ok = ('mtu is None', False) in atoms
    size_ok = ('orig_size > mtu', True) in atoms or ('mtu < orig_size', True) in atoms
    # the part of the decision that looks at the bundle flags, evaluated (by the checker's own little interpreter, constants
    # folded from the Flag enumeration) for the four combinations of NO_FRAGMENT and IS_FRAGMENT: it must hold for "neither"
    # only.  In whatever way the test is spelt.
    flagparts = [v for v in val.values if 'bundle_flags' in src(v)]
    direct_flags = any('ctr.bundle.primary.bundle_flags' in src(v) for v in flagparts)

    def ev(node, flags):
        if isinstance(node, ast.BoolOp):
            vals = [ev(v, flags) for v in node.values]
            return all(vals) if isinstance(node.op, ast.And) else any(vals)
        if isinstance(node, ast.UnaryOp) and isinstance(node.op, ast.Not):
            return not ev(node.operand, flags)
        if isinstance(node, ast.UnaryOp) and isinstance(node.op, ast.Invert):
            return ~ev(node.operand, flags)
        if isinstance(node, ast.BinOp) and isinstance(node.op, (ast.BitAnd, ast.BitOr, ast.BitXor)):
            (a, b) = (ev(node.left, flags), ev(node.right, flags))
            return a & b if isinstance(node.op, ast.BitAnd) else (a | b if isinstance(node.op, ast.BitOr) else a ^ b)
        if isinstance(node, ast.Compare) and len(node.ops) == 1:
            (a, b) = (ev(node.left, flags), ev(node.comparators[0], flags))
            op = node.ops[0]
            if isinstance(op, ast.Eq):
                return a == b
            if isinstance(op, ast.NotEq):
                return a != b
            if isinstance(op, ast.In):
                return a in b
            if isinstance(op, ast.NotIn):
                return a not in b
        if isinstance(node, ast.Tuple):
            return tuple(ev(e, flags) for e in node.elts)
        if (isinstance(node, ast.Name) and node.id == 'bundle_flags') or src(node) in ('ctr.bundle.primary.bundle_flags', "ctr.bundle.primary.getfieldval('bundle_flags')"):
            return flags
        if isinstance(node, ast.Name):
            return ev(fv.value_at(node, d[0], depth=3, keep=('bundle_flags',)), flags) if src(fv.value_at(node, d[0], depth=3, keep=('bundle_flags',))) != node.id else _fail(node)
        v = const_int(tree, FRAG, node)
        if v is None:
            _fail(node)
        return v

    def _fail(node):
        raise AnalysisError('C05.a: cannot evaluate ' + src(node)[:60])
    NOF, ISF = 0x4, 0x1
    truth = {}
    for combo in (0, NOF, ISF, NOF | ISF):
        truth[combo] = all(bool(ev(v, combo | 0x40)) for v in flagparts) if flagparts else True
    mask = (0 if truth[NOF] else 0x4) | (0 if truth[ISF] else 0x1)
    if not truth[0]:
        ob.violate(FRAG, Q, ' and '.join(src(v) for v in flagparts)[:100], 'a bundle that may be fragmented (neither do-not-fragment nor a fragment) is never fragmented', d[0])
    if truth[NOF | ISF] and not (truth[NOF] or truth[ISF]):
        mask = 0x5
    if not mtu_ok:
        ob.violate(FRAG, Q, 'mtu is not None', 'fragmentation decision does not require a route MTU', d[0])
    if not size_ok:
        ob.violate(FRAG, Q, 'orig_size > mtu', 'fragmentation decision does not require the bundle to exceed the MTU (a bundle that fits exactly must be sent whole)', d[0])
    if not mask & 0x4:
        ob.violate(FRAG, Q, 'not bundle_flags & NO_FRAGMENT', 'a bundle marked do-not-fragment can be fragmented', d[0])
    if not mask & 0x1:
        ob.violate(FRAG, Q, 'not bundle_flags & IS_FRAGMENT', 'an existing fragment can be fragmented again (offsets restart at 0)', d[0])
    if mtu_ok and size_ok and (mask & 0x5) == 0x5:
        ob.site(FRAG, d[0], 'decision = mtu present and size > mtu and not NO_FRAGMENT and not IS_FRAGMENT')
    osz = fv.value_at(ast.parse('orig_size', mode='eval').body, d[0])
    if src(osz) != 'len(ctr.bundle)':
        ob.violate(FRAG, Q, 'orig_size = ' + src(osz), 'the size compared with the MTU is not the encoded bundle size', d[0])
    bfl = fv.value_at(ast.parse('bundle_flags', mode='eval').body, d[0])
    if src(bfl) != 'ctr.bundle.primary.bundle_flags' and not direct_flags:
        ob.violate(FRAG, Q, 'bundle_flags = ' + src(bfl), 'flags tested are not the bundle flags', d[0])
    mt = fv.value_at(ast.parse('mtu', mode='eval').body, d[0])
    if src(mt) != 'ctr.route.mtu':
        ob.violate(FRAG, Q, 'mtu = ' + src(mt), 'MTU is not that of the chosen route', d[0])
    else:
        ob.site(FRAG, d[0], 'mtu = route MTU, size = len(bundle)')
    gates = _gate(fv)
    g = one(gates, 'if not should_fragment', ob)
    # (the cond node is the un-negated test: its False edge is the "must not be fragmented" way)
    tsucc = [s for (s, lab) in g.succ if lab is False][0]
    if not (tsucc is fv.cfg.exit or (tsucc.kind == 'stmt' and isinstance(tsucc.ast, ast.Return) and
                                     (tsucc.ast.value is None or (isinstance(tsucc.ast.value, ast.Constant) and not tsucc.ast.value.value)))):
        ob.violate(FRAG, Q, 'if not should_fragment: return', 'a bundle that must not be fragmented does not simply pass through', g.ast)
    else:
        ob.site(FRAG, tsucc.ast or g.ast, 'pass-through return')
    # nothing touched before the decision
    before = [n for n in fv.cfg.nodes if n.kind == 'stmt' and g in fv.cfg.reachable([n]) ]
    for n in before:
        wr = [w for w in norm.written_names(n.ast) if w.startswith('ctr') or '.' in w and not w.startswith('LOGGER')]
        muts = [c for c in calls_in(n.ast) if isinstance(c.func, ast.Attribute) and c.func.attr in ('delfieldval', 'setfieldval', 'remove_block', 'add_block', 'remove_payload')]
        if wr or muts:
            ob.violate(FRAG, Q, n.text()[:70], 'the bundle is modified before it is decided whether to fragment', n.ast)


def _loop(fv, ob):
    loops = [n for n in walk_local(fv.func) if isinstance(n, ast.While)]
    return one(loops, 'fragment loop', ob)


def c05b(tree, ob):
    fv = FuncView(tree, FRAG, Q)
    loop = _loop(fv, ob)
    til = tiling(fv, loop, ob, FRAG, 'fragment tiling')
    ob.site(FRAG, loop, 'tiling loop over {} by {}'.format(src(til.data), src(til.step)))
    if not til.total_is_len:
        ob.violate(FRAG, Q, 'while ' + src(loop.test), 'loop bound is not the length of the payload being cut', loop)
    data = fv.value_at(til.data, loop.test)
    if pm("$b.getfieldval('btsd')", data) is None:
        ob.violate(FRAG, Q, src(til.data) + ' = ' + src(data), 'what is cut into fragments is not the payload block data', loop)
    step = src(til.step)
    facts = fv.facts(til.slice) or frozenset()
    if (step + ' > 0', True) in facts or ('0 < ' + step, True) in facts or (step + ' >= 1', True) in facts:
        ob.site(FRAG, til.slice, 'size > 0 guaranteed before slicing (else raise)')
    else:
        ob.violate(FRAG, Q, 'no guard {} > 0'.format(step), 'the fragment size can be zero or negative: the loop never terminates / pieces overlap', til.slice)


def c05c(tree, ob):
    fv = FuncView(tree, FRAG, Q)
    loop = _loop(fv, ob)
    til = tiling(fv, loop, _Mute(), FRAG, 'fragment tiling')
    pri = [n for n in walk_local(loop) if isinstance(n, ast.Assign) and src(n.targets[0]) == 'fctr.bundle.primary']
    p = one(pri, 'fragment primary block', ob)
    if pm('ctr.bundle.primary.copy()', p.value) is None:
        ob.violate(FRAG, Q, src(p), 'fragment primary block is not a copy of the original', p)
    else:
        ob.site(FRAG, p, 'primary copied from the original')
    new = [n for n in walk_local(loop) if isinstance(n, ast.Assign) and src(n.targets[0]) == 'fctr']
    if not new or pm('BundleContainer()', new[0].value) is None:
        ob.violate(FRAG, Q, 'fctr = BundleContainer()', 'fragments do not start from a fresh container', loop)
    flg = [n for n in walk_local(loop) if isinstance(n, ast.AugAssign) and src(n.target) == 'fctr.bundle.primary.bundle_flags']
    f = one(flg, 'fragment flag', ob)
    if not isinstance(f.op, ast.BitOr) or src(f.value) != 'PrimaryBlock.Flag.IS_FRAGMENT':
        ob.violate(FRAG, Q, src(f), 'fragment flag is not set on the fragment', f)
    else:
        ob.site(FRAG, f, 'fragment flag set')
    offs = [n for n in walk_local(loop) if isinstance(n, ast.Assign) and src(n.targets[0]) == 'fctr.bundle.primary.fragment_offset']
    o = one(offs, 'fragment offset', ob)
    if src(o.value) != til.off or fv.node(o) in fv.cfg.reachable([fv.node(til.advance)], avoid=[fv.node(loop.test)]):
        ob.violate(FRAG, Q, src(o), 'fragment offset is not the offset of the piece it carries', o)
    else:
        ob.site(FRAG, o, 'offset = loop offset before the advance')
    tot = [n for n in walk_local(loop) if isinstance(n, ast.Assign) and src(n.targets[0]) == 'fctr.bundle.primary.total_app_data_len']
    t = one(tot, 'total application data length', ob)
    tv = fv.value_at(t.value, t)
    if src(tv) != 'len({})'.format(src(fv.value_at(til.data, t))) and src(tv) != 'len({})'.format(src(til.data)):
        ob.violate(FRAG, Q, src(t), 'total length in the fragment is not the original payload length', t)
    else:
        ob.site(FRAG, t, 'total = original payload length')
    # block copy rule
    fors = [n for n in walk_local(loop) if isinstance(n, ast.For)]
    fl = one(fors, 'block copy loop', ob)
    if src(fl.iter) != 'ctr.bundle.blocks':
        ob.violate(FRAG, Q, 'for ... in ' + src(fl.iter), 'fragment blocks are not taken from the original bundle', fl)
    apps = [c for c in calls_in(fl) if pm('fctr.bundle.blocks.append($b.copy())', c) is not None]
    a = one(apps, 'block copy', ob)
    conds = [n for n in walk_local(fl) if isinstance(n, ast.If)]
    c = one(conds, 'block copy condition', ob)
    test = norm.strip(c.test)
    blk = src(fl.target)
    want = {('{} == 0'.format(til.off), True), ('{}.block_flags & CanonicalBlock.Flag.REPLICATE_IN_FRAGMENT'.format(blk), True)}
    pay = {('{}.block_num == Bundle.BLOCK_NUM_PAYLOAD'.format(blk), True), ('{}.block_num == 1'.format(blk), True), ('{}.type_code == Bundle.BLOCK_TYPE_PAYLOAD'.format(blk), True)}
    atoms = set(norm.all_atoms(test)) if isinstance(test, ast.BoolOp) and isinstance(test.op, ast.Or) else set()
    if not (want <= atoms and atoms & pay and len(atoms) == 3) or a not in list(ast.walk(c)):
        ob.violate(FRAG, Q, 'if ' + src(test)[:120], 'a block is not copied exactly when (first fragment or replicate flag or payload block)', c)
    else:
        ob.site(FRAG, c, 'copy iff offset == 0 or REPLICATE or payload')
    # payload of the fragment = the piece
    sets = [x for x in calls_in(loop) if isinstance(x.func, ast.Attribute) and x.func.attr == 'setfieldval' and x.args and const_str(x.args[0]) == 'btsd']
    s = one(sets, 'fragment payload set', ob)
    piece = fv.value_at(s.args[1], s, keep=(src(til.data), til.off, src(til.step)))
    if src(piece) != src(til.slice):
        ob.violate(FRAG, Q, src(s), 'the fragment does not carry the piece that was cut for it', s)
    elif pm('fctr.block_num(Bundle.BLOCK_NUM_PAYLOAD)', s.func.value) is None and pm('fctr.block_num(1)', s.func.value) is None:
        ob.violate(FRAG, Q, src(s), 'the piece is not stored in the fragment payload block', s)
    else:
        ob.site(FRAG, s, 'fragment payload = the piece')


class _Mute:
    ''' Obligation stand-in that swallows violations (tiling is judged in C05.b). '''
    def violate(self, *a, **k):
        pass

    def site(self, *a, **k):
        pass


def _size_measure(tree, ob):
    ''' every size in the fragmentation arithmetic is len(<bundle>): the length of the encoding that is sent.  scapy gives
    len(pkt) == len(bytes(pkt)); a __len__ of the repository's own in the bundle classes replaces that measure (and one
    that forgets an octet -- the break of the indefinite array -- lets fragments out one octet over the MTU). '''
    n = 0
    for (rel, cname) in (('bp/encoding/bundle.py', 'Bundle'), ('scapy_cbor/packets.py', 'CborArray'), ('scapy_cbor/packets.py', 'AbstractCborStruct')):
        cls = tree.klass(rel, cname)
        defs = [m for m in cls.body if isinstance(m, ast.FunctionDef) and m.name == '__len__']
        n += 1
        if not defs:
            ob.site(rel, cls, cname + ': size is len(bytes(...)) (inherited)')
            continue
        rets = [r for r in walk_local(defs[0]) if isinstance(r, ast.Return)]
        if len(rets) == 1 and rets[0].value is not None and src(rets[0].value) in ('len(bytes(self))', 'len(self.__bytes__())'):
            ob.site(rel, defs[0], cname + '.__len__ is the length of the encoding')
        else:
            ob.violate(rel, cname + '.__len__', src(rets[0])[:70] if rets else '__len__', 'the size of a bundle is computed by other means than encoding it: wherever the two differ (an octet of framing '
                       'left out) a bundle one octet over the MTU is sent whole and fragments are cut one octet too long', defs[0])
    return n


def _absent_item_encodes(tree, ob):
    ''' the cutter measures the fragment with its block data taken away and counts one octet for the absent byte string
    ("N - 1").  That octet is the null BstrField.i2m(None) gives; CborArray.self_build() leaves a field out altogether
    when its encoder raises, so an encoder that refuses None makes the measurement one octet short. '''
    from .. import absint
    rel = 'scapy_cbor/fields.py'
    for cname in ('BstrField', 'UintField'):
        cls = tree.klass(rel, cname)
        ms = [x for x in cls.body if isinstance(x, ast.FunctionDef) and x.name == 'i2m']
        if not ms:
            ob.site(rel, cls, cname + ': i2m inherited')
            continue
        m = ms[0]
        try:
            out = absint.run(m.body, {m.args.args[2].arg: None}, {'self.name': 'field', 'self.maxval': None})
        except AnalysisError as err:
            ob.undetermined.append('{}.i2m(None) not folded: {}'.format(cname, err))
            continue
        if out.kind == 'raise':
            ob.violate(rel, cname + '.i2m', 'i2m(None)', 'the encoder refuses "no value" instead of encoding it as null: the array builder leaves the field out, so a block whose data was taken away '
                       'encodes one item (one octet) short, the cutter measures N one too small and every fragment whose byte-string head is as long as that of the total length leaves one octet over the MTU', out.node or m, sure=True)
        else:
            ob.site(rel, m, cname + '.i2m(None) gives an item (null), the field is never left out')


def c05d(tree, ob):
    _size_measure(tree, ob)
    _absent_item_encodes(tree, ob)
    fv = FuncView(tree, FRAG, Q)
    loop = _loop(fv, ob)
    til = tiling(fv, loop, _Mute(), FRAG, 'fragment tiling')
    ob.require(isinstance(til.step, ast.Name), 'step is not a local')
    sname = til.step.id
    defs = [d for d in norm.local_assigns(fv.func, sname)]
    if len(defs) != 1 or defs[0][1] is None:
        extra = [d for d in defs if d[1] is None or d is not defs[0]]
        ob.violate(FRAG, Q, '; '.join(src(d[0]) for d in defs)[:160], 'the fragment data budget is adjusted after being computed (the worst-case head reservation can be undone)', (extra or defs)[0][0])
        return
    (st, val) = defs[0]
    form = linear(val, ())
    # identify terms
    terms = {k: v for k, v in form.items() if k != 1}
    const = form.get(1, 0)
    names = {}
    for term in terms:
        tv = fv.value_at(ast.parse(term, mode='eval').body, st, keep=('fctr', 'ctr', 'payload_size', 'payload_data'))
        names[term] = src(tv)
    mtu_t = [t for t, v in names.items() if v == 'ctr.route.mtu']
    n_t = [t for t, v in names.items() if v == 'len(fctr.bundle)']
    h_t = [t for t, v in names.items() if v in ('len(cbor2.dumps(payload_size))', 'len(cbor2.dumps(len(payload_data)))')]
    ok = len(terms) == 3 and len(mtu_t) == 1 and len(n_t) == 1 and len(h_t) == 1 and \
        terms[mtu_t[0]] == 1 and terms[n_t[0]] == -1 and terms[h_t[0]] == -1 and const == 1
    if not ok:
        ob.violate(FRAG, Q, src(st), 'data budget is {} with {}; required mtu - N + 1 - h (N = encoded empty-payload fragment, h = head size of the total payload length), '
                   'otherwise a fragment can encode to more than the MTU'.format({**terms, 1: const}, names), st)
        return
    ob.site(FRAG, st, 'budget = mtu - N + 1 - h')
    # N is measured after fill_fields on the fragment with the empty payload
    nd = fv.reaching_defs(n_t[0], st)
    ob.require(len(nd) == 1 and nd[0][0] is not None, 'N has one definition')
    fills = [c for c in calls_in(loop) if pm('fctr.bundle.fill_fields()', c) is not None]
    if not fills or not fv.dominates(fills[0], nd[0][0])[0] or fv.node(fills[0]) not in fv.cfg.reachable([fv.node(loop.test)]):
        ob.violate(FRAG, Q, src(nd[0][0]), 'the fragment is measured before its CRC fields are filled in (the CRC octets are missing from N)', nd[0][0])
    else:
        ob.site(FRAG, nd[0][0], 'N measured after fill_fields')
    sets = [x for x in calls_in(loop) if isinstance(x.func, ast.Attribute) and x.func.attr == 'setfieldval' and x.args and const_str(x.args[0]) == 'btsd']
    if sets and fv.node(nd[0][0]) in fv.cfg.reachable([fv.node(sets[0])], avoid=[fv.node(loop.test)]):
        ob.violate(FRAG, Q, src(nd[0][0]), 'N is measured after the payload was already put in', nd[0][0])
    # h from the total payload length
    psz = fv.value_at(ast.parse('payload_size', mode='eval').body, st, keep=('payload_data',)) if 'payload_size' in src(ast.parse(names[h_t[0]], mode='eval')) else None
    if psz is not None and src(psz) != 'len(payload_data)':
        ob.violate(FRAG, Q, 'payload_size = ' + src(psz), 'h is not derived from the total payload length', st)
    else:
        ob.site(FRAG, st, 'h = head size of the total payload length')


def c05e(tree, ob):
    # every fragment re-enters through the whole TX chain: steps that add blocks must leave fragments alone, or each
    # fragment grows past the MTU it was cut for (and carries security blocks that were never part of the bundle)
    for meth in ('_apply_bib', '_apply_bcb'):
        if not tree.has_func('bp/app/bpsec.py', 'Bpsec.' + meth):
            continue
        fs = FuncView(tree, 'bp/app/bpsec.py', 'Bpsec.' + meth)
        work = [c for c in calls_in(fs.func) if isinstance(c.func, ast.Attribute) and c.func.attr in ('apply_bib', 'apply_bcb')]
        for c in work:
            facts = fs.facts(c) or frozenset()
            if any(p is False and t.endswith('bundle_flags & PrimaryBlock.Flag.IS_FRAGMENT') for (t, p) in facts):
                ob.site('bp/app/bpsec.py', c, meth + ': not applied to fragments')
            else:
                ob.violate('bp/app/bpsec.py', fs.qual, src(c)[:60], 'the security step also runs for every fragment when it re-enters the transmit chain: each fragment gets a further security block '
                           '(or is encrypted again), exceeds the MTU it was cut for, and the reassembled bundle fails verification', c)
    steps = [s for s in chain_steps(tree) if s['chain'] == 'tx']
    sec = [s for s in steps if s['cls'] == 'Bpsec']
    frag = [s for s in steps if s['cls'] == 'Fragment']
    f = one(frag, 'fragment creation step', ob)
    ob.require(len(sec) >= 2, 'security TX steps')
    for s in sec:
        if s['order'] < f['order']:
            ob.site(s['rel'], s['node'], 'security step {} (order {}) before fragmentation ({})'.format(s['action'], s['order'], f['order']))
        else:
            ob.violate(s['rel'], s['func'], 'order={} vs fragment order={}'.format(s['order'], f['order']), 'security step {} runs after fragmentation: fragments leave without it'.format(s['action']), s['node'])
    fa = FuncView(tree, AGENT, 'Agent.__init__')
    sorts = [c for c in calls_in(fa.func) if pm('self._tx_chain.sort()', c) is not None]
    if not sorts:
        ob.violate(AGENT, fa.qual, 'self._tx_chain.sort()', 'the TX chain is not ordered', fa.func)
    # ... by the order value (the comparison of ChainStep) and the sort comes after every application added its steps
    lt = tree.find_method('bp/util.py', 'ChainStep', '__lt__')
    ltr = [r for r in walk_local(lt[2]) if isinstance(r, ast.Return)] if lt else []
    if not lt or len(ltr) != 1 or (pm('self.order < other.order', ltr[0].value) is None and pm('other.order > self.order', ltr[0].value) is None):
        ob.violate('bp/util.py', 'ChainStep.__lt__', 'self.order < other.order', 'chain steps are not ordered by their order value: security and fragmentation steps run in another order than declared', lt[2] if lt else None)
    else:
        ob.site('bp/util.py', lt[2], 'ChainStep ordered by order')
    adders = [n for n in walk_local(fa.func) if isinstance(n, ast.For) and any(isinstance(c.func, ast.Attribute) and c.func.attr == 'add_chains' for c in calls_in(n))]
    if sorts and (not adders or fa.node(sorts[0]) not in fa.cfg.reachable([fa.node(adders[0].iter)]) or enclosing(sorts[0], (ast.For,)) is not None):
        ob.violate(AGENT, fa.qual, 'self._tx_chain.sort()', 'the TX chain is sorted before the applications have added their steps', sorts[0])
    fv = FuncView(tree, FRAG, Q)
    outs = [c for c in calls_in(fv.func) if call_name(c) == 'glib.idle_add']
    o = one(outs, 'fragment hand-off', ob)
    if [src(a) for a in o.args] != ['self._agent.send_bundle', 'fctr']:
        ob.violate(FRAG, Q, src(o), 'fragments do not re-enter through Agent.send_bundle (block numbers, CRCs, routing)', o)
    else:
        ob.site(FRAG, o, 'each fragment is sent through Agent.send_bundle')


def c05f(tree, ob):
    fv = FuncView(tree, FRAG, Q)
    raises = [r for r in walk_local(fv.func) if isinstance(r, ast.Raise)]
    muts = []
    for c in calls_in(fv.func):
        if isinstance(c.func, ast.Attribute) and c.func.attr in ('delfieldval', 'setfieldval', 'remove_block', 'add_block', 'remove_payload'):
            recv = fv.value_at(c.func.value, c, keep=('ctr', 'fctr'))
            if src(recv).startswith('ctr.'):
                muts.append(c)
    for n in walk_local(fv.func):
        if isinstance(n, ast.Assign) and any((dotted(t) or '').startswith('ctr.') for t in n.targets):
            muts.append(n)
    ob.site(FRAG, fv.func, '{} raise site(s), {} mutation(s) of the original'.format(len(raises), len(muts)))
    mutated_raises = []
    for r in raises:
        before = [m for m in muts if fv.node(r) in fv.cfg.reachable([fv.node(m)])]
        if before:
            mutated_raises.append((r, before[0]))
    # Agent.send_bundle: a failed TX step must not reach the sender
    fa = FuncView(tree, AGENT, 'Agent.send_bundle')
    loops = [n for n in walk_local(fa.func) if isinstance(n, ast.For) and src(n.iter) == 'self._tx_chain']
    lp = one(loops, 'TX chain loop', ob)
    hs = [h for h in walk_local(lp) if isinstance(h, ast.ExceptHandler)]
    h = one(hs, 'TX step exception handler', ob)
    snd = [c for c in calls_in(fa.func) if pm('ctr.sender($d)', c) is not None]
    s = one(snd, 'sender call', ob)
    hn = fa.cfg.node_of(h)
    ob.site(AGENT, h, 'TX step failure handler')
    wit = fa.cfg.path(hn, fa.node(s), include_exc=False)
    if wit is not None:
        ob.violate(AGENT, fa.qual, 'except Exception: ...; break -> ctr.sender(data)', 'after a TX step failed with an exception the bundle is still handed to the convergence layer '
                   '(e.g. whole and oversize when fragmentation raised, or unsigned when a security step raised)', h, path_text(wit))
        # only then does it matter that the step had already altered the bundle when it raised
        for (r, m) in mutated_raises:
            ob.violate(FRAG, Q, '{} ... raise {}'.format(src(m)[:50], src(r.exc)[:40]),
                       'the original bundle is already modified ({}) when fragmentation is found impossible, and it is then transmitted'.format(src(m)[:50]), r)
    else:
        ob.site(AGENT, h, 'a failed TX step stops the send ({} raise site(s) in the fragmenter after a mutation are therefore harmless)'.format(len(mutated_raises)))


def c05h(tree, ob):
    fa = FuncView(tree, AGENT, 'Agent.send_bundle')
    lp = one([n for n in walk_local(fa.func) if isinstance(n, ast.For) and src(n.iter) == 'self._tx_chain'], 'TX chain loop', ob)
    fills = [c for c in calls_in(fa.func) if pm('ctr.bundle.fill_fields()', c) is not None]
    pre = [c for c in fills if fa.dominates(c, lp)[0] and fa.node(c) not in fa.cfg.reachable([fa.node(lp.iter)])]
    if not pre:
        ob.violate(AGENT, fa.qual, 'ctr.bundle.fill_fields() before the TX chain', 'the TX steps (fits-the-MTU decision, fragment sizing) see the bundle without its CRC placeholders: '
                   'a bundle up to 8 octets over the MTU is handed to the convergence layer whole', lp)
    else:
        ob.site(AGENT, pre[0], 'bundle filled (CRC placeholders) before the TX chain')
    for (rel, qual) in ((BLOCKS, 'CanonicalBlock.fill_fields'),):
        fv = FuncView(tree, rel, qual)
        sup = [c for c in calls_in(fv.func) if isinstance(c.func, ast.Attribute) and c.func.attr == 'fill_fields' and isinstance(c.func.value, ast.Call) and dotted(c.func.value.func) == 'super']
        if not sup or not fv.cfg.must_pass(fv.cfg.entry, fv.cfg.exit, {fv.node(sup[0])}, include_exc=False)[0]:
            ob.violate(rel, qual, 'super().fill_fields()', 'a block can be "filled" without reserving its CRC field (e.g. when its data is already present): fragments with CRC-protected '
                       'extension blocks are measured too small and exceed the MTU', fv.func)
        else:
            ob.site(rel, sup[0], qual + ' always reaches the CRC placeholder step')
    fb = FuncView(tree, 'bp/encoding/bundle.py', 'Bundle.fill_fields')
    prim = [c for c in calls_in(fb.func) if pm('self.primary.fill_fields()', c) is not None]
    loops = [n for n in walk_local(fb.func) if isinstance(n, ast.For) and src(n.iter) == 'self.blocks' and any(pm('{}.fill_fields()'.format(src(n.target)), c) is not None for c in calls_in(n))]
    if not prim or not loops:
        ob.violate('bp/encoding/bundle.py', fb.qual, 'primary + every block', 'filling a bundle does not cover the primary block and every canonical block', fb.func)
    else:
        ob.site('bp/encoding/bundle.py', loops[0], 'Bundle.fill_fields covers primary and every block')
    fx = FuncView(tree, BLOCKS, 'AbstractBlock.fill_fields')
    sets = [n for n in walk_local(fx.func) if isinstance(n, ast.Assign) and pm('self.fields[self.crc_value_name]', n.targets[0]) is not None and
            pm("AbstractBlock.CRC_DEFN[crc_type]['encode'](0)", fx.value_at(n.value, n, depth=3, keep=('crc_type',))) is not None]
    if not sets or not fx.has(sets[0], 'crc_type', True):
        ob.violate(BLOCKS, fx.qual, "self.fields[crc_value_name] = defn['encode'](0)", 'a block with a CRC type does not get a placeholder of the right width', fx.func)


def c05i(tree, ob):
    ''' glib.idle_add(f, ...) re-runs f as long as it returns a truthy value. '''
    n = 0
    for rel in sorted(r for r in tree.modules if r.startswith('bp/')):
        for (r, qual, func) in tree.all_functions([rel]):
            for call in calls_in(func):
                if call_name(call) != 'glib.idle_add' or not call.args:
                    continue
                tgt = call.args[0]
                if not (isinstance(tgt, ast.Attribute) and tgt.attr in ('send_bundle', 'recv_bundle')):
                    continue
                fm = tree.find_method(AGENT, 'Agent', tgt.attr)
                ob.require(fm is not None, 'scheduled method not found')
                n += 1
                bad = [x for x in walk_local(fm[2]) if isinstance(x, ast.Return) and x.value is not None and not (isinstance(x.value, ast.Constant) and not x.value.value)]
                if bad:
                    ob.violate(AGENT, 'Agent.' + tgt.attr, src(bad[0]), 'Agent.{} is scheduled with glib.idle_add ({} in {}) and can return a non-false value: GLib then calls it again '
                               'with the same bundle (e.g. a stripped original is transmitted next to its fragments)'.format(tgt.attr, src(call)[:50], qual), bad[0])
                else:
                    ob.site(rel, call, '{} scheduled once: {} never returns a truthy value'.format(qual, tgt.attr))
    ob.require(n >= 3, 'idle-scheduled bundle functions')


def c05g(tree, ob):
    n = 0
    for rel in sorted(r for r in tree.modules if r.startswith('bp/')):
        for (r, qual, func) in tree.all_functions([rel]):
            dels = [c for c in calls_in(func) if isinstance(c.func, ast.Attribute) and c.func.attr == 'delfieldval' and c.args and const_str(c.args[0]) == 'btsd']
            dels += [x for x in walk_local(func) if isinstance(x, ast.Delete) and any("fields['btsd']" in src(t) for t in x.targets)]
            for d in dels:
                n += 1
                fv = FuncView(tree, rel, qual)
                recv = src(d.func.value) if isinstance(d, ast.Call) else None
                drops = [c for c in calls_in(func) if isinstance(c.func, ast.Attribute) and c.func.attr == 'remove_payload' and src(c.func.value) == recv]
                paired = drops and (fv.cfg.must_pass(fv.node(d), fv.cfg.exit, {fv.node(x) for x in drops}, include_exc=False)[0] or any(fv.dominates(x, d)[0] for x in drops))
                ob.site(rel, d, 'delete of block data in ' + qual)
                # the opposite intention: the delete follows an edit of the parsed payload of the same block,
                # so that the data IS regenerated from it (the C11.b pairing)
                edits = [x for x in walk_local(func) if isinstance(x, (ast.Assign, ast.AugAssign)) and
                         any(w.startswith(str(recv) + '.payload.') for w in norm.written_names(x))]
                if recv and edits and any(fv.dominates(x, d)[0] for x in edits):
                    continue
                if not paired:
                    ob.violate(rel, qual, src(d), 'the encoded block data is deleted but the parsed payload stays attached, so the data is regenerated on the next encode: '
                               'for a received bundle the "empty payload" fragment measures full size, the budget goes negative and fragmentation fails', d)
    ob.require(n >= 1, 'no delete of block data found')



def c05k(tree, ob):
    ''' fragments are cut for the MTU of ctr.route and come back through send_bundle() later, when routes may have been
    appended (reverse routes of new sessions).  They stay within "the route MTU" only if the search stops at the first
    match (a later, appended route must not win) and a container that has a route keeps it. '''
    fv = FuncView(tree, AGENT, 'Agent._do_tx_step')
    loops = [n for n in walk_local(fv.func) if isinstance(n, ast.For)]
    loop = one(loops, 'route loop in _do_tx_step', ob)
    if src(loop.iter) != 'self._config.tx_route_table':
        ob.violate(AGENT, fv.qual, 'for item in ' + src(loop.iter), 'transmit routes are not consulted in table order', loop)
    else:
        ob.site(AGENT, loop, 'transmit routes consulted in stored order')
    breaks = [n for n in walk_local(loop) if isinstance(n, ast.Break)]
    stores = [n for n in walk_local(loop) if isinstance(n, ast.Assign) and isinstance(n.targets[0], ast.Name)]
    hit = [b for b in breaks if fv.has(b, 'match is None', False) or fv.has(b, 'match', True)]
    if not hit:
        ob.violate(AGENT, fv.qual, 'for item in self._config.tx_route_table: (no break at the match)', 'the route search does not stop at the first match: the last matching route wins, so a route appended '
                   'after the fragments were cut (with a smaller MTU) carries them', loop)
    else:
        ob.site(AGENT, hit[0], 'search stops at the first matching route')
    # a routed container is not routed again: the decision is stored only where none was on record
    sets = [n for n in walk_local(fv.func) if isinstance(n, ast.Assign) and any(src(t) == 'ctr.route' for t in n.targets)]
    ob.require(sets, 'store of the routing decision')
    # ... and the decision is taken from the table as it is NOW: what is stored is None or the item the walk stopped at.  Taken
    # from a memo of earlier lookups, a destination that had no route once never gets the one that was added since (a report-to
    # node discovered after the first report failed gets none of the later reports).
    for st in sets:
        if isinstance(st.value, ast.Name) and isinstance(loop.target, ast.Name):
            for (dst, v) in fv.reaching_defs(st.value.id, st):
                if v is None or not isinstance(v, ast.AST):
                    continue
                if (isinstance(v, ast.Constant) and v.value is None) or (isinstance(v, ast.Name) and v.id == loop.target.id):
                    continue
                ob.violate(AGENT, fv.qual, '{} = {}'.format(st.value.id, src(v)[:50]), 'the transmit route is not (only) taken from a walk of the route table at the time of sending but from a remembered result: '
                           'routes added meanwhile (peer discovery, add_tx_route) are not seen for destinations that were looked up before', dst if isinstance(dst, ast.AST) else st, sure=True)
    for st in sets:
        if fv.has(st, 'ctr.route', False) or fv.has(st, 'ctr.route is None', True):
            ob.site(AGENT, st, 'a container that has a route keeps it')
        else:
            ob.violate(AGENT, fv.qual, src(st) + '  (also when ctr.route is set)', 'a container that already has a route is routed again: its fragments, cut for the first route, can leave on another one', st)


def c05m(tree, ob):
    ''' fragments are cut from a bundle whose primary block is complete: every fragment repeats it, so a field that is still
    unset when the cutter measures is filled in later, once per fragment -- differently (each fragment gets its own creation
    time, and an identity of its own) and longer (a one-octet zero becomes a nine-octet time: the fragment outgrows the MTU
    it was cut for).  The creation time is filled whenever it is zero, whatever else the bundle carries. '''
    fv = FuncView(tree, 'bp/agent.py', 'Agent._apply_primary')
    sets = [n for n in walk_local(fv.func) if isinstance(n, ast.Assign) and len(n.targets) == 1 and src(n.targets[0]).endswith('.create_ts') and pm('self.timestamp()', n.value) is not None]
    st = one(sets, 'default creation time in _apply_primary', ob)
    base = src(st.targets[0])
    facts = [(t, p) for (t, p) in (fv.facts(st) or ()) if not t.startswith('isinstance(')]
    own = [(t, p) for (t, p) in facts if t in ("{}.getfieldval('dtntime') == 0".format(base), "{}.dtntime == 0".format(base)) and p is True]
    extra = [(t, p) for (t, p) in facts if (t, p) not in own and 'report' not in t and 'source' not in t and 'bundle_flags' not in t]
    if own and not extra:
        ob.site('bp/agent.py', st, 'a zero creation time is always filled before the bundle is measured and cut')
    else:
        ob.violate('bp/agent.py', fv.qual, '{} under {}'.format(src(st), ' and '.join(('' if p else 'not ') + t for (t, p) in (extra or facts))[:100]),
                   'the creation time of an originated bundle stays zero for some bundles (here: when another test also holds): the fragments cut from it are completed one by one afterwards, '
                   'each with its own time -- they exceed the MTU they were cut for and no longer belong to one bundle', st, sure=bool(extra))
    # the time put in is the clock reading as it is: clamped at the epoch (max(0, ...)) a node whose clock is not set gets "zero"
    # back and the field is filled again for every fragment
    fd = FuncView(tree, 'bp/encoding/fields.py', 'DtnTimeField.datetime_to_dtntime')
    clamps = [c for c in calls_in(fd.func) if call_name(c) in ('max', 'min', 'abs')]
    if clamps:
        ob.violate('bp/encoding/fields.py', fd.qual, src(clamps[0])[:60], 'the DTN time of an instant is clamped: a clock before the epoch yields the value that means "no creation time", '
                   'which is then filled in again for every fragment (each its own identity)', clamps[0], sure=True)
    else:
        ob.site('bp/encoding/fields.py', fd.func, 'DTN time is the plain difference to the epoch')
    # ... and the completion comes before the TX chain (where the cutter runs)
    fs = FuncView(tree, 'bp/agent.py', 'Agent.send_bundle')
    calls = method_calls(fs.func, '_apply_primary', 'self')
    loops = [n for n in walk_local(fs.func) if isinstance(n, ast.For) and 'self._tx_chain' in src(n.iter)]
    c = one(calls, '_apply_primary call in send_bundle', ob)
    lp = one(loops, 'TX chain loop in send_bundle', ob)
    if fs.node(lp.iter) in fs.cfg.reachable([fs.node(c)]) and fs.node(c) not in fs.cfg.reachable([fs.node(lp.iter)]):
        ob.site('bp/agent.py', c, 'primary block defaults are applied before the TX chain')
    else:
        ob.violate('bp/agent.py', fs.qual, src(c), 'primary block defaults are applied after (or inside) the TX chain: the cutter measures an incomplete primary block', c)


def c05n(tree, ob):
    ''' the size the cutter (and the "fits the MTU" test) worked with is the size that is sent: between the TX chain and the
    encode only the CRC VALUES are recomputed.  A CRC update that also decides which blocks HAVE a CRC (gives a CRC-less primary
    block CRC-32 "because RFC 9171 wants one") adds 4-5 octets to every fragment after it was measured. '''
    n = 0
    for rel in ('bp/encoding/blocks.py', 'bp/encoding/bundle.py'):
        for (r, qual, func) in tree.all_functions([rel]):
            for node in walk_local(func):
                hit = None
                if isinstance(node, (ast.Assign, ast.AugAssign)):
                    for t in (node.targets if isinstance(node, ast.Assign) else [node.target]):
                        if isinstance(t, ast.Attribute) and t.attr == 'crc_type':
                            hit = t
                        if isinstance(t, ast.Subscript) and isinstance(t.slice, ast.Constant) and t.slice.value == 'crc_type':
                            hit = t
                        if isinstance(t, ast.Subscript) and src(t.slice).endswith('crc_type_name'):
                            hit = t
                if isinstance(node, ast.Call) and isinstance(node.func, ast.Attribute) and node.func.attr in ('setfieldval', '__setattr__', 'setattr') and node.args and \
                        ((isinstance(node.args[0], ast.Constant) and node.args[0].value == 'crc_type') or src(node.args[0]).endswith('crc_type_name')):
                    hit = node
                if hit is not None:
                    n += 1
                    ob.violate(rel, qual, src(node)[:70], 'the encoding layer changes the CRC type of a block (on the way to the wire, after the bundle was measured against the MTU and cut): '
                               'every fragment grows by the CRC field and its array head', node, sure=True)
    fs = FuncView(tree, 'bp/agent.py', 'Agent.send_bundle')
    ob.site('bp/agent.py', fs.func, 'CRC updates recompute values only: no write of a CRC type in the encoding layer ({} found)'.format(n))
