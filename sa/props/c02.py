''' C02 — BPv7 bundle encoding round-trips and is RFC 9171 well-formed (structural clauses). '''
import ast
from ..core import AnalysisError, walk_local, calls_in, call_name, dotted, src, self_attr, kwarg, enclosing, const_int, enum_members
from ..lib import (FuncView, pm, method_calls, one, at_least, stores_to_self_attr, const_str, path_text)
from .. import norm, schema

BLOCKS = 'bp/encoding/blocks.py'
BUNDLE = 'bp/encoding/bundle.py'
FIELDS = 'bp/encoding/fields.py'
ADMIN = 'bp/encoding/admin.py'
BPSEC = 'bp/encoding/bpsec.py'
UTIL = 'bp/util.py'
CPKT = 'scapy_cbor/packets.py'
CFLD = 'scapy_cbor/fields.py'


def check(chk, thorough=False):
    tree = chk.tree
    chk.run('C02.a', 'R-SCHEMA', 'primary and canonical block layouts, flag / CRC / block-type / EID-scheme code points equal RFC 9171 and RFC 9172', lambda ob: c02a(tree, ob), floor=12)
    chk.run('C02.b', 'R-FLOW', 'a bundle encodes as 0x9f, each block item encoded on its own, 0xff; primary first; new blocks go before the payload, which is number 1', lambda ob: c02b(tree, ob), floor=4)
    chk.run('C02.c', 'sibling', 'encoder and decoder of every field / wrapper / packet kind are defined together and agree (order, frames, scheme tables)', lambda ob: c02c(tree, ob), floor=15)
    chk.run('C02.e', 'R-TRUTH', 'conversions preserve values: no truthiness test on a converted value, decoded flag/enum integers wrapped unchanged, plain IntFlag enums, unnormalised EID parts, exact time arithmetic', lambda ob: c02e(tree, ob), floor=20)
    chk.run('C02.f', 'sibling', 'checking a CRC leaves the block as it was: update_crc / check_crc agree and the received value is restored (= C08.c)', lambda ob: __import__('sa.props.c08', fromlist=['c08c']).c08c(tree, ob), floor=8)
    chk.run('C02.g', 'R-SCHEMA', 'every CBOR structure is built as one packet (no expansion over array content), and an arity test in the bundle decoder admits every legal block size (8 to 11, 5 or 6)', lambda ob: c02g(tree, ob), floor=2)
    chk.run('C02.h', 'R-ESCAPE', 'an administrative payload that cannot be parsed stays opaque block data: the handler around the parse is broad (any failure), the bundle still decodes', lambda ob: c02h(tree, ob), floor=1)
    chk.run('C02.d', 'R-PAIR', 'encoded block data wins and is regenerated from the parsed payload only when absent; builders ensure it; admin records are reflected in flag, type and data and re-attached only under the admin flag', lambda ob: c02d(tree, ob), floor=7)


KIND = {'UintField': 'uint', 'FlagsField': 'uint', 'EnumField': 'uint', 'EidField': 'eid', 'PacketField': 'array', 'BstrField': 'bstr', 'DtnTimeField': 'uint'}

PRIMARY = [('uint', None), ('uint', None), ('uint', None), ('eid', None), ('eid', None), ('eid', None), ('array', None), ('uint', None),
           ('uint', 'frag'), ('uint', 'frag'), ('bstr', 'crc')]
CANON = [('uint', None), ('uint', None), ('uint', None), ('uint', None), ('bstr', None), ('bstr', 'crc')]


def _layout(tree, rel, cls, ob):
    out = []
    flds = schema.fields_desc(tree, rel, cls, inherit=False)
    names = [f.name for f in flds]
    for f in flds:
        kind = KIND.get(f.kind)
        if kind is None:
            raise AnalysisError('C02.a: unknown field kind {} in {}'.format(f.kind, cls))
        cond = None
        if f.cond is not None:
            atom = schema.lambda_atoms(f.cond)
            if atom is None or atom[0] not in names:
                raise AnalysisError('C02.a: unrecognised predicate on {}.{}'.format(cls, f.name))
            subj = flds[names.index(atom[0])]
            val = const_int(tree, rel, atom[2]) if atom[2] is not None else None
            if atom[1] == '&' and val == 0x1 and names.index(atom[0]) == 1:
                cond = 'frag'
            elif atom[1] == 'NotEq' and val == 0 and names.index(atom[0]) in (2, 3) and subj.kind == 'EnumField':
                cond = 'crc'
            else:
                cond = 'other:{}{}{}'.format(atom[0], atom[1], val)
        out.append((kind, cond))
    return out, flds


def c02a(tree, ob):
    for (cls, want, items) in (('PrimaryBlock', PRIMARY, '8 to 11'), ('CanonicalBlock', CANON, '5 or 6')):
        got, flds = _layout(tree, BLOCKS, cls, ob)
        if got != want:
            diffs = [i for i in range(max(len(got), len(want))) if i >= len(got) or i >= len(want) or got[i] != want[i]]
            i = diffs[0]
            ob.violate(BLOCKS, cls, 'fields_desc[{}] = {}'.format(i, flds[i].name if i < len(flds) else 'missing'),
                       '{} layout differs from RFC 9171 at item {}: found {}, required {} (array of {} items)'.format(cls, i, got[i] if i < len(got) else None, want[i] if i < len(want) else None, items), tree.klass(BLOCKS, cls))
        else:
            ob.site(BLOCKS, tree.klass(BLOCKS, cls), '{} layout = RFC 9171 ({} items)'.format(cls, items))
    ver = [f for f in schema.fields_desc(tree, BLOCKS, 'PrimaryBlock', inherit=False)][0]
    if const_int(tree, BLOCKS, ver.default) != 7:
        ob.violate(BLOCKS, 'PrimaryBlock', 'bp_version default', 'protocol version is not 7', ver.node)
    ts = schema.fields_desc(tree, BLOCKS, 'Timestamp', inherit=False)
    if [(KIND.get(f.kind), f.cond) for f in ts] != [('uint', None), ('uint', None)]:
        ob.violate(BLOCKS, 'Timestamp', 'fields_desc', 'creation timestamp is not [time, sequence]', tree.klass(BLOCKS, 'Timestamp'))
    else:
        ob.site(BLOCKS, tree.klass(BLOCKS, 'Timestamp'), 'timestamp = [uint time, uint seq]')
    tables = {
        ('PrimaryBlock.Flag', BLOCKS): {'NONE': 0, 'REQ_DELETION_REPORT': 0x040000, 'REQ_DELIVERY_REPORT': 0x020000, 'REQ_FORWARDING_REPORT': 0x010000,
                                        'REQ_RECEPTION_REPORT': 0x004000, 'REQ_STATUS_TIME': 0x40, 'USER_APP_ACK': 0x20, 'NO_FRAGMENT': 0x4, 'PAYLOAD_ADMIN': 0x2, 'IS_FRAGMENT': 0x1},
        ('CanonicalBlock.Flag', BLOCKS): {'NONE': 0, 'REMOVE_IF_NO_PROCESS': 0x10, 'DELETE_IF_NO_PROCESS': 0x04, 'STATUS_IF_NO_PROCESS': 0x02, 'REPLICATE_IN_FRAGMENT': 0x01},
        ('AbstractBlock.CrcType', BLOCKS): {'NONE': 0, 'CRC16': 1, 'CRC32': 2},
        ('EidField.TypeCode', FIELDS): {'dtn': 1, 'ipn': 2},
        ('EidField.WellKnownSsp', FIELDS): {'none': 0},
        ('AbstractSecurityBlock.Flag', BPSEC): {'NONE': 0, 'PARAMETERS_PRESENT': 1},
    }
    for (name, rel), want in tables.items():
        node = tree.klass(rel, name)
        got = enum_members(tree, rel, node)
        if sorted(got.values()) != sorted(want.values()) or any(got.get(k) != v for k, v in want.items() if k in got):
            ob.violate(rel, name, 'enum', 'code points {} differ from RFC 9171/9172 {}'.format(got, want), node)
        else:
            ob.site(rel, node, name + ' code points')
    want_types = {'PreviousNodeBlock': 6, 'BundleAgeBlock': 7, 'HopCountBlock': 10}
    got_types = {up: kws.get('type_code') for (lo, up, kws, node) in schema.bindings(tree, BLOCKS) if lo == 'CanonicalBlock'}
    sec_types = {up: kws.get('type_code') for (lo, up, kws, node) in schema.bindings(tree, BPSEC) if lo == 'CanonicalBlock'}
    if got_types != want_types or sec_types != {'BlockIntegrityBlock': 11, 'BlockConfidentialityBlock': 12}:
        ob.violate(BLOCKS, '<module>', 'bind_type', 'block type codes {} {} differ from RFC 9171 (6, 7, 10) / RFC 9172 (11, 12)'.format(got_types, sec_types), None)
    else:
        ob.site(BLOCKS, tree.klass(BLOCKS, 'HopCountBlock'), 'block type codes 6/7/10/11/12')
    hop = [f.name for f in schema.fields_desc(tree, BLOCKS, 'HopCountBlock', inherit=False)]
    if hop != ['limit', 'count']:
        ob.violate(BLOCKS, 'HopCountBlock', 'fields_desc', 'hop count block is not [limit, count]', tree.klass(BLOCKS, 'HopCountBlock'))
    bnd = tree.klass(BUNDLE, 'Bundle')
    consts = {src(n.targets[0]): const_int(tree, BUNDLE, n.value) for n in bnd.body if isinstance(n, ast.Assign) and isinstance(n.targets[0], ast.Name)}
    if consts.get('BLOCK_TYPE_PAYLOAD') != 1 or consts.get('BLOCK_NUM_PAYLOAD') != 1:
        ob.violate(BUNDLE, 'Bundle', 'BLOCK_TYPE_PAYLOAD / BLOCK_NUM_PAYLOAD', 'payload block is not type 1 number 1', bnd)
    else:
        ob.site(BUNDLE, bnd, 'payload block type 1 number 1')
    asb = schema.fields_desc(tree, BPSEC, 'AbstractSecurityBlock', inherit=False)
    shape = [(f.name, bool(f.wrap), f.cond is not None) for f in asb]
    if shape != [('targets', True, False), ('context_id', False, False), ('context_flags', False, False), ('source', False, False), ('parameters', True, True), ('results', True, False)]:
        ob.violate(BPSEC, 'AbstractSecurityBlock', 'fields_desc', 'abstract security block is not [targets], context id, flags, source, ([parameters]), [results]', tree.klass(BPSEC, 'AbstractSecurityBlock'))
    else:
        atom = schema.lambda_atoms(asb[4].cond)
        if atom is None or atom[0] != 'context_flags' or atom[1] != '&' or const_int(tree, BPSEC, atom[2]) != 1:
            ob.violate(BPSEC, 'AbstractSecurityBlock', 'parameters predicate', 'parameters are not present exactly when the parameters-present flag is set', asb[4].node)
        else:
            ob.site(BPSEC, tree.klass(BPSEC, 'AbstractSecurityBlock'), 'ASB layout per RFC 9172')


def c02b(tree, ob):
    fv = FuncView(tree, BUNDLE, 'Bundle.__bytes__')
    r = one([x for x in walk_local(fv.func) if isinstance(x, ast.Return)], 'return in Bundle.__bytes__', ob)
    val = fv.value_at(r.value, r, keep=('item',))
    got = pm("b'\\x9f' + b''.join((cbor2.dumps($p) for $p in item)) + b'\\xff'", val) or pm("b'\\x9f' + b''.join([cbor2.dumps($p) for $p in item]) + b'\\xff'", val)
    it = fv.value_at(ast.parse('item', mode='eval').body, r)
    if got is None or pm('self.build()', it) is None:
        ob.violate(BUNDLE, fv.qual, src(r.value)[:120], 'a bundle is not encoded as 0x9f, then each block item encoded separately, then 0xff '
                   '(an indefinite-length array whatever the number of blocks)', r)
    else:
        ob.site(BUNDLE, r, 'indefinite array framing, one item per block')
    flds = schema.fields_desc(tree, BUNDLE, 'Bundle', inherit=False)
    if [(f.name, f.kind, f.kwargs.get('cls') and src(f.kwargs['cls'])) for f in flds] != [('primary', 'PacketField', 'PrimaryBlock'), ('blocks', 'PacketListField', 'CanonicalBlock')]:
        ob.violate(BUNDLE, 'Bundle', 'fields_desc', 'bundle is not (primary block, canonical blocks...)', tree.klass(BUNDLE, 'Bundle'))
    else:
        ob.site(BUNDLE, tree.klass(BUNDLE, 'Bundle'), 'primary first, then canonical blocks')
    fa = FuncView(tree, UTIL, 'BundleContainer.add_block')
    ins = [c for c in calls_in(fa.func) if pm('self.bundle.blocks.insert(-1, blk)', c) is not None]
    if len(ins) != 1:
        ob.violate(UTIL, fa.qual, 'self.bundle.blocks.insert(-1, blk)', 'a new block is not inserted before the payload block', fa.func)
    else:
        ob.site(UTIL, ins[0], 'payload stays last')
    ff = FuncView(tree, UTIL, 'BundleContainer._fix_blk_num')
    pay = [n for n in walk_local(ff.func) if isinstance(n, ast.Assign) and src(n.targets[0]) == 'blk_num' and src(n.value) in ('Bundle.BLOCK_NUM_PAYLOAD', '1')]
    if not pay:
        ob.violate(UTIL, ff.qual, 'blk_num = Bundle.BLOCK_NUM_PAYLOAD', 'the payload block is not numbered 1', ff.func)
    else:
        ob.site(UTIL, pay[0], 'payload block number 1')


def _defined(tree, rel, cls, meth):
    return meth in tree.methods(rel, cls)


def _plain_encoder(tree, ob):
    ''' decode followed by encode gives the octets that arrived only if the encoder keeps what the decoder produced: map
    entries in arrival order, values as they are.  Every cbor2.dumps() of the encoding layer is the plain call; an option
    such as canonical=True re-orders the maps of payloads this code merely carries (unknown administrative records,
    extension blocks), and a forwarded block no longer matches its CRC. '''
    n = 0
    for rel in sorted(r for r in tree.modules if r.startswith('scapy_cbor/') or r.startswith('bp/encoding/')):
        for (r, qual, func) in tree.all_functions([rel]):
            for c in calls_in(func):
                if (call_name(c) or '') in ('cbor2.dumps', 'dumps', 'cbor2.dump'):
                    n += 1
                    if c.keywords or len(c.args) != 1:
                        ob.violate(rel, qual, src(c)[:70], 'the encoder of the encoding layer is called with options ({}): what was decoded is not written back as it was '
                                   '(canonical ordering re-sorts maps inside data the node only carries)'.format(', '.join(k.arg or '**' for k in c.keywords) or 'extra arguments'), c, sure=True)
                    else:
                        ob.site(rel, c, qual + ': plain cbor2.dumps')
    ob.require(n >= 5, 'cbor2.dumps calls in the encoding layer: {}'.format(n))


def _generic_layer(tree, ob):
    ''' the pieces of the generic CBOR layer that every structure relies on:
    * CborItem encodes through the i2m() of its one field and decodes through its m2i() (a Previous Node block is a CborItem
      with an EID field: without i2m() it leaves as the text "dtn://..." instead of the EID array);
    * CborArray.do_dissect stores a field when an item was consumed for it, whatever the decoded value (null is a value:
      judged by "value is not None" a null in place of a default-valued field decodes as the default and re-encodes as it);
    * the enumeration / flags fields wrap the integer that arrived, nothing else (no fallback to a default). '''
    from ..cfg import handler_names
    fb = FuncView(tree, CPKT, 'CborItem.self_build')
    rets = [r for r in walk_local(fb.func) if isinstance(r, ast.Return) and r.value is not None and not (isinstance(r.value, ast.Constant) and r.value.value is None)]
    good = [r for r in rets if isinstance(fb.value_at(r.value, r, depth=3), ast.Call) and src(fb.value_at(r.value, r, depth=3)).startswith('self.fields_desc[0].i2m(self, ')]
    if rets and len(good) == len(rets):
        ob.site(CPKT, rets[0], 'CborItem.self_build encodes through the i2m() of its field')
    else:
        ob.violate(CPKT, fb.qual, src((rets or [fb.func])[0])[:70], 'a CborItem is built from its internal value without the i2m() of its field: an item whose internal form differs from its '
                   'CBOR form (an EID kept as text) is encoded in the internal form', (rets or [fb.func])[0])
    fd = FuncView(tree, CPKT, 'CborItem.do_dissect')
    st = [n for n in walk_local(fd.func) if isinstance(n, ast.Assign) and pm('self.fields[$n]', n.targets[0]) is not None]
    if st and all('.m2i(self, ' in src(fd.value_at(x.value, x, depth=3)) for x in st):
        ob.site(CPKT, st[0], 'CborItem.do_dissect decodes through the m2i() of its field')
    else:
        ob.violate(CPKT, fd.qual, src((st or [fd.func])[0])[:70], 'a CborItem is dissected without the m2i() of its field', (st or [fd.func])[0])
    fa = FuncView(tree, CPKT, 'CborArray.do_dissect')
    stores = [n for n in walk_local(fa.func) if isinstance(n, ast.Assign) and pm('self.fields[$n]', n.targets[0]) is not None]
    sa_ = one(stores, 'field store in CborArray.do_dissect', ob)
    facts = fa.facts(sa_) or frozenset()
    consumed = any(('orig_s' in t and (('==' in t and p_ is False) or ('!=' in t and p_ is True))) for (t, p_) in facts)
    vname = sa_.value.id if isinstance(sa_.value, ast.Name) else 'data_val'
    by_value = any(norm.mentions(t, [vname]) or ('data_val' in t) for (t, p_) in facts)
    if consumed and not by_value:
        ob.site(CPKT, sa_, 'a field is stored exactly when an item was consumed for it')
    elif not by_value:
        # some other test that does not look at the decoded value (a count of the items taken, the length of what is left)
        ob.site(CPKT, sa_, 'whether a field is stored does not depend on the decoded value ({})'.format(', '.join(sorted(t for (t, p_) in facts))[:60] or 'unconditional'))
    else:
        ob.violate(CPKT, fa.qual, src(sa_)[:60] + '  under ' + ', '.join(sorted(t for (t, p_) in facts if 'data_val' in t or 'orig_s' in t))[:60], 'whether a decoded field is stored depends on its value, not on whether an item '
                   'was consumed: a null item in place of a field with a default decodes as the default and is re-encoded as the default (a corrupted block re-encodes as the original)', sa_, sure=True)
    for cname in ('EnumField', 'FlagsField'):
        fm = FuncView(tree, CFLD, cname + '.m2i')
        hs = [h for h in walk_local(fm.func) if isinstance(h, ast.ExceptHandler)]
        dflt = [n for n in walk_local(fm.func) if isinstance(n, ast.Attribute) and n.attr == 'default']
        if hs or dflt:
            ob.violate(CFLD, fm.qual, 'except / self.default', '{} replaces a value it does not know by something else (a default) instead of failing the decode: the re-encoded structure carries '
                       'another value than arrived (an unknown status reason becomes 0)'.format(cname), (hs or dflt)[0])
        else:
            ob.site(CFLD, fm.func, cname + '.m2i wraps the integer that arrived or fails')


def c02c(tree, ob):
    _plain_encoder(tree, ob)
    _generic_layer(tree, ob)
    from .c12 import decode_fails_loudly
    decode_fails_loudly(tree, ob)
    # field classes: i2m/m2i overridden together
    for rel in (CFLD, FIELDS):
        for node in tree.module(rel).tree.body:
            if not isinstance(node, ast.ClassDef):
                continue
            meths = {n.name for n in node.body if isinstance(n, ast.FunctionDef)}
            if ('i2m' in meths) != ('m2i' in meths):
                if node.name in ('FieldListField',):
                    # list field: elements are converted by the inner field in addfield/getfield
                    ob.site(rel, node, node.name + ': list wrapper (element conversion delegated)')
                    continue
                other = 'm2i' if 'i2m' in meths else 'i2m'
                inh = tree.find_method(rel, node.name, other)
                if inh is not None and inh[1].name != 'CborField':
                    ob.site(rel, node, '{} refines {} and inherits {} from {}'.format(node.name, 'i2m' if other == 'm2i' else 'm2i', other, inh[1].name))
                    continue
                ob.violate(rel, node.name, 'i2m / m2i', '{} overrides only one of i2m/m2i: values do not convert back the way they were encoded'.format(node.name), node)
            elif 'i2m' in meths:
                ob.site(rel, node, node.name + ' defines i2m and m2i')
            if ('addfield' in meths) != ('getfield' in meths):
                # a guard in front of the inherited codec (refuse, else hand the same arguments to the base method) changes
                # no conversion: the pair is still the inherited one
                only = [n for n in node.body if isinstance(n, ast.FunctionDef) and n.name in ('addfield', 'getfield')][0]
                rets = [r for r in walk_local(only) if isinstance(r, ast.Return)]
                params = [a.arg for a in only.args.args]
                stores = [n for n in walk_local(only) if isinstance(n, ast.Name) and isinstance(n.ctx, ast.Store)]

                def delegates(r):
                    c = r.value
                    if not (isinstance(c, ast.Call) and isinstance(c.func, ast.Attribute) and c.func.attr == only.name):
                        return False
                    base = src(c.func.value)
                    args = [src(a) for a in c.args]
                    return (base == 'super()' and args == params[1:]) or (base in [src(b) for b in node.bases] and args == params)
                if rets and all(delegates(r) for r in rets) and not stores:
                    ob.site(rel, only, '{}.{}: a guard in front of the inherited {}'.format(node.name, only.name, only.name))
                    continue
                ob.violate(rel, node.name, 'addfield / getfield', '{} overrides only one of addfield/getfield'.format(node.name), node)
            elif 'addfield' in meths:
                ob.site(rel, node, node.name + ' defines addfield and getfield')
    # CborArray: both directions walk fields_desc in order
    fb = FuncView(tree, CPKT, 'CborArray.self_build')
    fd = FuncView(tree, CPKT, 'CborArray.do_dissect')
    for fv, call in ((fb, 'addfield'), (fd, 'getfield')):
        lp = [n for n in walk_local(fv.func) if isinstance(n, ast.For) and src(n.iter) == 'self.fields_desc']
        if len(lp) != 1 or not any(isinstance(c.func, ast.Attribute) and c.func.attr == call and src(c.func.value) == src(lp[0].target) for c in calls_in(lp[0])):
            ob.violate(CPKT, fv.qual, 'for defn in self.fields_desc: defn.{}'.format(call), 'fields are not processed in declaration order', fv.func)
        else:
            ob.site(CPKT, lp[0], fv.qual + ' walks fields_desc in order with ' + call)
    # base field: append / pop from the front
    fa = FuncView(tree, CFLD, 'CborField.addfield')
    fg = FuncView(tree, CFLD, 'CborField.getfield')
    if not [c for c in calls_in(fa.func) if pm('s.append(self.i2m(pkt, val))', c) is not None]:
        ob.violate(CFLD, fa.qual, 's.append(self.i2m(pkt, val))', 'a field is not appended at the end of the item list', fa.func)
    else:
        ob.site(CFLD, fa.func, 'addfield appends i2m(value)')
    pops = [c for c in calls_in(fg.func) if pm('s.pop(0)', c) is not None]
    conv = [c for c in calls_in(fg.func) if pm('self.m2i(pkt, $x)', c) is not None]
    if not pops or not conv:
        ob.violate(CFLD, fg.qual, 's.pop(0) / self.m2i', 'a field is not taken from the front of the item list and converted with m2i', fg.func)
    else:
        ob.site(CFLD, fg.func, 'getfield pops the first item and applies m2i')
    # optional field symmetric
    oa = FuncView(tree, CFLD, 'OptionalField.addfield')
    og = FuncView(tree, CFLD, 'OptionalField.getfield')
    adds = [c for c in calls_in(oa.func) if pm('self.fld.addfield(pkt, s, val)', c) is not None]
    gets = [c for c in calls_in(og.func) if pm('self.fld.getfield(pkt, s)', c) is not None]
    if not adds or not oa.has(adds[0], 'val in self.missing', False) or not gets or not og.has(gets[0], 's', True):
        ob.violate(CFLD, 'OptionalField', 'addfield / getfield', 'optional trailing field is not (omitted when the value is a non-value / absent when no item is left)', tree.klass(CFLD, 'OptionalField'))
    else:
        ob.site(CFLD, tree.klass(CFLD, 'OptionalField'), 'optional field omitted iff non-value; absent iff no item left')
    # sequence framing
    cs = FuncView(tree, CPKT, 'CborSequence.dissect')
    cb = FuncView(tree, CPKT, 'CborSequence.__bytes__')
    wraps = [n for n in walk_local(cs.func) if isinstance(n, ast.Assign) and pm("b'\\x9f' + s + b'\\xff'", n.value) is not None]
    rr = [r for r in walk_local(cb.func) if isinstance(r, ast.Return)]
    okb = rr and pm("b''.join((cbor2.dumps($i) for $i in $a))", cb.value_at(rr[0].value, rr[0], keep=('array',))) is not None
    if not wraps or not okb:
        ob.violate(CPKT, 'CborSequence', 'dissect / __bytes__', 'sequence encoder and decoder do not add/remove the same array frame', tree.klass(CPKT, 'CborSequence'))
    else:
        ob.site(CPKT, tree.klass(CPKT, 'CborSequence'), 'sequence: items concatenated / wrapped in 9f..ff to decode')
    # type-value head wraps one item both ways
    tb = FuncView(tree, CPKT, 'TypeValueHead.do_build_payload')
    td = FuncView(tree, CPKT, 'TypeValueHead.do_dissect_payload')
    rb = [r for r in walk_local(tb.func) if isinstance(r, ast.Return)]
    un = [n for n in walk_local(td.func) if isinstance(n, ast.Assign) and pm('s[0]', n.value) is not None]
    if not rb or pm('[s]', rb[0].value) is None or not un:
        ob.violate(CPKT, 'TypeValueHead', 'do_build_payload / do_dissect_payload', 'type-value pair does not wrap / unwrap exactly one item', tree.klass(CPKT, 'TypeValueHead'))
    else:
        ob.site(CPKT, tree.klass(CPKT, 'TypeValueHead'), 'type-value: [type, item] both ways')
    # the value is null only when there is no payload at all: a payload that builds to an empty item (h'', '') is a value
    nulls = [n for n in walk_local(tb.func) if (isinstance(n, ast.Assign) and isinstance(n.value, ast.Constant) and n.value.value is None)
             or (isinstance(n, ast.Return) and pm('[None]', n.value) is not None)]
    for n in nulls:
        if tb.has(n, 'isinstance(self.payload, scapy.packet.NoPayload)', True) or tb.has(n, 'isinstance(self.payload, NoPayload)', True):
            ob.site(CPKT, n, 'type-value: the value is null only for NoPayload')
        else:
            ob.violate(CPKT, tb.qual, src(n)[:60], 'the value of a type-value pair is encoded as null under another condition than "there is no payload" (e.g. the payload built '
                       "to an empty item): [type, h''] is re-encoded as [type, null], the block no longer round-trips and fails its CRC after re-encoding", n, sure=True)
    # EID: same scheme table, same separator, dtn:none <-> [1, 0]
    ei = FuncView(tree, FIELDS, 'EidField.i2m')
    em = FuncView(tree, FIELDS, 'EidField.m2i')

    def schemes(fv):
        out = set()
        for n in fv.cfg.nodes:
            if n.kind == 'cond':
                got = pm('scheme_type == EidField.TypeCode.$x', n.ast)
                if got is None and isinstance(n.ast, ast.Compare) and src(n.ast).startswith('scheme_type == EidField.TypeCode.'):
                    out.add(src(n.ast).split('.')[-1])
        return out

    si, sm = schemes(ei), schemes(em)
    if si != sm or not si:
        ob.violate(FIELDS, 'EidField', 'i2m schemes {} vs m2i schemes {}'.format(sorted(si), sorted(sm)), 'encoder and decoder handle different EID schemes', tree.klass(FIELDS, 'EidField'))
    else:
        ob.site(FIELDS, tree.klass(FIELDS, 'EidField'), 'EID schemes handled both ways: {}'.format(sorted(si)))
    sep_i = [c for c in calls_in(ei.func) if isinstance(c.func, ast.Attribute) and c.func.attr == 'split' and c.args and isinstance(c.args[0], ast.Constant)]
    sep_m = [c for c in calls_in(em.func) if isinstance(c.func, ast.Attribute) and c.func.attr == 'join' and isinstance(c.func.value, ast.Constant)]
    if not sep_i or not sep_m or sep_i[0].args[0].value != sep_m[0].func.value.value:
        ob.violate(FIELDS, 'EidField', 'ipn separator', 'ipn parts are split and joined with different separators', tree.klass(FIELDS, 'EidField'))
    else:
        ob.site(FIELDS, sep_i[0], 'ipn separator {!r} both ways'.format(sep_m[0].func.value.value))
    none_i = [r for r in walk_local(ei.func) if isinstance(r, ast.Return) and pm('[EidField.TypeCode.dtn, EidField.WellKnownSsp.none]', r.value) is not None]
    if not none_i or not ei.holds_any(none_i[0], [("x == 'dtn:none'", True), ('x is None', True), ("(x is None or x == 'dtn:none')", True)]):
        ob.violate(FIELDS, ei.qual, 'dtn:none', 'dtn:none is not encoded as [1, 0]', ei.func)
    wk = [n for n in walk_local(em.func) if isinstance(n, ast.Assign) and pm('EidField.WellKnownSsp(ssp).name', n.value) is not None]
    if not wk or not em.has(wk[0], 'isinstance(ssp, int)', True):
        ob.violate(FIELDS, em.qual, 'integer ssp', '[1, 0] is not decoded to dtn:none', em.func)
    else:
        ob.site(FIELDS, wk[0], 'dtn:none <-> [1, 0]')


def _own_type_accepted(tree, ob):
    ''' reserved flag bits and unassigned enumeration values are carried, not refused: FlagsField / EnumField set maxval from
    the members they know, and a received integer above it is still an integer of the field.  The guards of UintField's
    decode path are folded for such items (maxval taken as 7): none may refuse. '''
    from .. import absint
    rel = 'scapy_cbor/fields.py'
    cls = tree.klass(rel, 'UintField')
    meths = {m.name: m for m in cls.body if isinstance(m, ast.FunctionDef)}
    for item in (8, 0x20, 1 << 21, (1 << 64) - 1):
        refused = None
        for mname in ('getfield', 'm2i'):
            m = meths.get(mname)
            if m is None or len(m.args.args) != 3:
                continue
            env = {m.args.args[2].arg: [item] if mname == 'getfield' else item}
            out = absint.run(m.body, env, {'self.maxval': 7, 'self.name': 'field'})
            if out.kind == 'raise' or (out.kind == 'return' and out.value is None):
                refused = (m, out)
                break
        if refused:
            ob.violate(rel, 'UintField.' + refused[0].name, 'item {:#x} with maxval 7'.format(item), 'an integer above the largest known flag / enumeration value is refused on decode: a block or bundle that '
                       'carries a reserved flag bit cannot be decoded at all, let alone re-encoded unchanged', refused[1].node or refused[0])
        else:
            ob.site(rel, cls, 'UintField decodes {:#x} whatever the known maximum'.format(item))


def c02e(tree, ob):
    _own_type_accepted(tree, ob)
    # an EID is text with its own grammar (RFC 9171: the dtn demux is any visible characters), not a URL to be taken apart
    # and put together again: URL splitting drops the query and fragment parts and removes control characters
    for meth in ('i2m', 'm2i'):
        got = tree.find_method(FIELDS, 'EidField', meth)
        if not got or got[1].name != 'EidField':
            continue
        lossy = [c for c in calls_in(got[2]) if (call_name(c) or '').split('.')[-1] in ('urlsplit', 'urlparse', 'urlunsplit', 'urlunparse')]
        recode = [c for c in calls_in(got[2]) if (call_name(c) or '').split('.')[-1] in ('unquote', 'quote', 'unquote_plus', 'quote_plus', 'unquote_to_bytes', 'quote_from_bytes', 'normalize', 'idna', 'casefold')]
        if meth == 'm2i':
            recode += [c for c in calls_in(got[2]) if isinstance(c.func, ast.Attribute) and c.func.attr in ('lower', 'upper', 'casefold', 'strip', 'lstrip', 'rstrip', 'replace', 'translate')]
        for c in recode:
            ob.violate(FIELDS, 'EidField.' + meth, src(c)[:60], 'the text of an EID is re-coded on its way ({}): EIDs that differ on the wire become equal (or the other way round), so a destination matches '
                       'another route, two sources collapse into one bundle identity, and a re-encoded block no longer matches its CRC'.format((call_name(c) or '').split('.')[-1]), c)
        if lossy:
            ob.violate(FIELDS, 'EidField.' + meth, src(lossy[0])[:60], "the EID is rebuilt from the parts of a URL split: 'dtn://node/app?x=1' is encoded as '//node/app' (the bundle is forwarded to "
                       'another destination; with a primary CRC the valid received bundle fails its CRC after re-encoding)', lossy[0])
        else:
            ob.site(FIELDS, got[2], 'EidField.{} keeps the scheme specific part as it is'.format(meth))
    from .common import encoders_do_not_mask
    encoders_do_not_mask(tree, ob, [CFLD, FIELDS])
    # the numbers of an ipn SSP are taken as they are (one text part per array member): no arithmetic re-splits or merges them
    ARITH = (ast.RShift, ast.LShift, ast.BitAnd, ast.BitOr, ast.BitXor, ast.FloorDiv, ast.Mod, ast.Div, ast.Mult, ast.Pow)
    for meth in ('i2m', 'm2i'):
        got = tree.find_method(FIELDS, 'EidField', meth)
        if not got or got[1].name != 'EidField':
            continue
        ar = [b for b in walk_local(got[2]) if (isinstance(b, ast.BinOp) and isinstance(b.op, ARITH) and not (isinstance(b.left, ast.Constant) and isinstance(b.left.value, str)))
              or (isinstance(b, ast.AugAssign) and isinstance(b.op, ARITH))]
        for b in ar:
            ob.violate(FIELDS, 'EidField.' + meth, src(b)[:60], 'a number of an EID is taken apart or merged by arithmetic on its way: the text form gets another number of parts than the '
                       'item has members, so the normal-form comparison refuses a legitimate EID (or two different items decode alike)', b, sure=True)
        if not ar:
            ob.site(FIELDS, got[2], 'EidField.{} does no arithmetic on the parts of an EID'.format(meth))
    ''' Conversions must preserve values: no truthiness tests on a converted value (0, b'', '' and False are values),
    no normalising URL accessors for EID parts, integer time arithmetic, no masking of decoded flag bits. '''
    n = 0
    for rel in (CFLD, FIELDS):
        for node in tree.module(rel).tree.body:
            if not isinstance(node, ast.ClassDef):
                continue
            for meth in node.body:
                if not (isinstance(meth, ast.FunctionDef) and meth.name in ('i2m', 'm2i') and len(meth.args.args) >= 3):
                    continue
                val = meth.args.args[2].arg
                qual = node.name + '.' + meth.name
                fv = FuncView(tree, rel, qual)
                n += 1
                bad = None
                for cn in fv.cfg.nodes:
                    if cn.kind == 'cond':
                        for (text, pol) in norm.all_atoms(cn.ast):
                            if text == val:
                                bad = cn
                for sub in walk_local(meth):
                    if isinstance(sub, ast.IfExp):
                        if any(t == val for (t, p) in norm.all_atoms(sub.test)):
                            bad = sub
                if bad is not None:
                    ob.violate(rel, qual, 'if {}{}'.format('' if True else 'not ', val), 'the converted value is tested by truthiness: 0, an empty string / byte string and False are '
                               'legitimate values and are encoded or decoded as "absent"', bad.ast if hasattr(bad, 'ast') else bad)
                else:
                    ob.site(rel, meth, qual + ' does not test its value by truthiness')
    # decoded enum / flag values are wrapped unmodified
    for cname in ('FlagsField', 'EnumField'):
        fv = FuncView(tree, CFLD, cname + '.m2i')
        wraps = [c for c in calls_in(fv.func) if isinstance(c.func, ast.Attribute) and dotted(c.func.value) == 'self' and c.func.attr in ('flags', 'enum')]
        w = one(wraps, 'enum wrap in ' + cname + '.m2i', ob)
        arg = fv.value_at(w.args[0], w, depth=1)
        if not (isinstance(w.args[0], ast.Name) and pm('UintField.m2i(self, pkt, $v)', arg) is not None):
            ob.violate(CFLD, fv.qual, src(w), 'the decoded integer is altered (masked / converted) before being wrapped: reserved bits of a received value are lost', w)
        else:
            ob.site(CFLD, w, cname + '.m2i wraps the decoded integer unchanged')
    for (rel, cname) in ((BLOCKS, 'PrimaryBlock.Flag'), (BLOCKS, 'CanonicalBlock.Flag'), (BPSEC, 'AbstractSecurityBlock.Flag')):
        cn = tree.klass(rel, cname)
        if [src(b) for b in cn.bases] != ['enum.IntFlag'] or cn.keywords:
            ob.violate(rel, cname, 'class {}({})'.format(cn.name, ', '.join([src(b) for b in cn.bases] + ['{}={}'.format(k.arg, src(k.value)) for k in cn.keywords])),
                       'flag enumeration is not a plain IntFlag: with a boundary policy unknown (reserved) bits of a received value are dropped or rejected', cn)
        else:
            ob.site(rel, cn, cname + ' is a plain IntFlag (unknown bits are kept)')
    # EID text parts come from urlsplit() unnormalised
    fv = FuncView(tree, FIELDS, 'EidField.i2m')
    okacc = {'scheme', 'netloc', 'path'}
    for sub in walk_local(fv.func):
        if isinstance(sub, ast.Attribute) and isinstance(sub.value, ast.Name) and sub.value.id == 'parts':
            if sub.attr in okacc:
                ob.site(FIELDS, sub, 'EID part parts.' + sub.attr)
            else:
                ob.violate(FIELDS, fv.qual, 'parts.' + sub.attr, 'an EID component is read through urlsplit().{}, which normalises it (lower-cases the host, drops port / user info): '
                           'the encoded EID differs from the given one'.format(sub.attr), sub)
        elif isinstance(sub, ast.Subscript) and isinstance(sub.value, ast.Name) and sub.value.id == 'parts':
            ob.site(FIELDS, sub, 'EID part ' + src(sub))
    # the scheme specific part reaches the wire as given: cut and joined, never re-spelt (only the scheme name, which is
    # looked up in the code table and not encoded as text, may be case-folded)
    RESPELL = {'lower', 'upper', 'casefold', 'title', 'capitalize', 'swapcase', 'strip', 'lstrip', 'rstrip', 'replace', 'translate', 'normalize', 'expandtabs', 'zfill'}
    nres = 0
    for c in calls_in(fv.func):
        if isinstance(c.func, ast.Attribute) and c.func.attr in RESPELL:
            recv = c.func.value
            if isinstance(recv, ast.Name) and recv.id == 'scheme':
                continue
            nres += 1
            ob.violate(FIELDS, fv.qual, src(c)[:60], 'a part of the EID is re-spelt ({}) on its way to the wire: the encoded EID differs from the given one (e.g. an upper-case node name is '
                       'sent lower-cased, so destination / source / report-to of a forwarded bundle change)'.format(c.func.attr), c)
    if not nres:
        ob.site(FIELDS, fv.func, 'EidField.i2m only cuts and joins the text of the EID')
    # DTN time <-> datetime uses exact (timedelta / integer) arithmetic
    for meth in ('datetime_to_dtntime', 'dtntime_to_datetime'):
        fv = FuncView(tree, FIELDS, 'DtnTimeField.' + meth)
        floaty = [c for c in calls_in(fv.func) if isinstance(c.func, ast.Attribute) and c.func.attr in ('total_seconds', 'timestamp')] + \
                 [c for c in walk_local(fv.func) if isinstance(c, ast.Constant) and isinstance(c.value, float)]
        if floaty:
            ob.violate(FIELDS, fv.qual, src(floaty[0])[:60], 'DTN time is converted through floating point: some millisecond values come out one short', floaty[0])
        else:
            ob.site(FIELDS, fv.func, meth + ' uses exact timedelta arithmetic')
    ob.require(n >= 10, 'field conversion methods')


def c02d(tree, ob):
    # block-type-specific data that does not dissect as its block type stays opaque (it may be ciphertext): the handler
    # must not let the error out under any configuration
    fp = FuncView(tree, BLOCKS, 'CanonicalBlock.post_dissect')
    hs = [h for h in walk_local(fp.func) if isinstance(h, ast.ExceptHandler)]
    inner = [h for h in hs if any(isinstance(c.func, ast.Name) and c.func.id == 'cls' for st in enclosing(h, (ast.Try,)).body for c in calls_in(st))]
    for h in inner:
        rr = [r for r in walk_local(h) if isinstance(r, ast.Raise)]
        if rr:
            ob.violate(BLOCKS, fp.qual, 'except: ... raise', 'a failed dissection of block-type-specific data can be re-raised: a bundle whose extension block of a known type carries ciphertext (a BCB '
                       'target) then fails to decode at all', rr[0])
        else:
            ob.site(BLOCKS, h, 'undissectable block data stays opaque')
    # a type/value record keeps every content item, also one that is falsy in Python (0, false, h'', [], {})
    if tree.has_func('scapy_cbor/packets.py', 'TypeValueHead.do_dissect_payload'):
        ft = FuncView(tree, 'scapy_cbor/packets.py', 'TypeValueHead.do_dissect_payload')
        adds = [c for c in calls_in(ft.func) if pm('self.add_payload(CborItem(item=$s))', c) is not None]
        inherited = [c for c in calls_in(ft.func) if isinstance(c.func, ast.Attribute) and c.func.attr == 'do_dissect_payload' and c is not ft.func]
        dl = one(inherited, 'inherited do_dissect_payload call in TypeValueHead', ob)
        item = src(dl.args[-1])
        # scapy's own do_dissect_payload does nothing for a falsy value, and dissect() takes a byte string for an encoding
        # still to be decoded: neither may reach it; both get the explicit opaque payload instead
        if adds and (ft.has(dl, item, True) or any(ft.has(a, item, False) for a in adds)):
            ob.site('scapy_cbor/packets.py', adds[0], 'falsy content items get an explicit payload')
        else:
            ob.violate('scapy_cbor/packets.py', ft.qual, 'if not s: self.add_payload(CborItem(item=s))', 'a record whose content item is falsy (0, false, empty string / list / map) gets no payload object and is '
                       're-encoded as [type, null]', ft.func)
        if adds and ft.has(dl, 'isinstance({}, bytes)'.format(item), False):
            ob.site('scapy_cbor/packets.py', dl, 'a byte string content item is kept as an item')
        else:
            ob.violate('scapy_cbor/packets.py', ft.qual, src(dl) + '  (reached with a byte string)', 'a content item that is a byte string is handed to dissect(), which decodes bytes as an encoding: '
                       '[type, h\'05\'] becomes [type, 5], so a forwarded record leaves with another payload than it arrived with', dl)
    # the payload is decoded as an administrative record only when it is a whole one, and a record this node cannot
    # interpret stays opaque (as undecodable block-type-specific data does) instead of making the bundle undecodable
    fb = FuncView(tree, BUNDLE, 'Bundle.post_dissect')
    for c in calls_in(fb.func):
        if (call_name(c) or '').split('.')[-1] == 'AdminRecord':
            facts = fb.facts(c) or frozenset()
            if not any(p is False and t.endswith('PrimaryBlock.Flag.IS_FRAGMENT') for (t, p) in facts):
                ob.violate(BUNDLE, fb.qual, src(c) + ' for a fragment', 'the payload of a fragment, which is only a part of the record, is decoded as an administrative record: decoding raises (the fragment '
                           'is lost and a fragmented status report never reassembles) or mis-parses and replaces the payload', c)
            else:
                ob.site(BUNDLE, c, 'admin record decoded for whole bundles only')
            tr = enclosing(c, (ast.Try,))
            if tr is None or not tr.handlers:
                ob.violate(BUNDLE, fb.qual, src(c) + ' unguarded', 'a record this node cannot interpret (reason code outside the local enumeration, more status items) raises out of Bundle(data): the '
                           'exception leaves the convergence layer callback and a node that only forwards the report loses it', c)
            else:
                ob.site(BUNDLE, tr, 'an uninterpretable record stays opaque')
    fe = FuncView(tree, BLOCKS, 'CanonicalBlock.ensure_block_type_specific_data')
    stores = [n for n in walk_local(fe.func) if isinstance(n, ast.Assign) and pm("self.fields['btsd']", n.targets[0]) is not None]
    s = one(stores, 'regeneration of the encoded block data', ob)
    facts = fe.facts(s) or frozenset()
    if ("self.fields.get('btsd') is None", True) not in facts:
        ob.violate(BLOCKS, fe.qual, src(s), 'the encoded block data is regenerated from the parsed payload even when it is present: received bytes are replaced by a re-encoding (round trip and CRC of foreign encodings break)', s)
    elif ('isinstance(self.payload, scapy.packet.NoPayload)', False) not in facts:
        ob.violate(BLOCKS, fe.qual, src(s), 'data is regenerated from a missing payload', s)
    else:
        ob.site(BLOCKS, s, 'block data regenerated only when absent and a payload exists')
    for qual in ('CanonicalBlock.self_build', 'CanonicalBlock.fill_fields'):
        fv = FuncView(tree, BLOCKS, qual)
        ens = [c for c in calls_in(fv.func) if pm('self.ensure_block_type_specific_data()', c) is not None]
        sup = [c for c in calls_in(fv.func) if isinstance(c.func, ast.Attribute) and isinstance(c.func.value, ast.Call) and dotted(c.func.value.func) == 'super']
        if not ens or not sup or not fv.dominates(ens[0], sup[0])[0]:
            ob.violate(BLOCKS, qual, 'self.ensure_block_type_specific_data()', 'block is built / sized without making sure its data field exists', fv.func)
        elif not fv.cfg.must_pass(fv.cfg.entry, fv.cfg.exit, {fv.node(sup[0])}, include_exc=False)[0]:
            ob.violate(BLOCKS, qual, src(sup[0]), 'the base-class step (CRC placeholder / field building) is skipped on some path, e.g. when the block data is already present: '
                       'a CRC-protected block is then measured or built without its CRC field', sup[0])
        else:
            ob.site(BLOCKS, ens[0], qual + ' ensures block data first')
    for qual in ('Bundle.self_build', 'Bundle.fill_fields', 'Bundle.update_all_crc'):
        fv = FuncView(tree, BUNDLE, qual)
        ups = [c for c in calls_in(fv.func) if pm('self._update_from_admin()', c) is not None]
        others = [c for c in calls_in(fv.func) if c not in ups]
        if not ups or any(not fv.dominates(ups[0], c)[0] for c in others):
            ob.violate(BUNDLE, qual, 'self._update_from_admin()', 'an administrative-record payload is not reflected (flag, type, data) before the bundle is built', fv.func)
        else:
            ob.site(BUNDLE, ups[0], qual + ' refreshes admin payload first')
    fu = FuncView(tree, BUNDLE, 'Bundle._update_from_admin')
    body = src(fu.func)
    need = ["PrimaryBlock.Flag.PAYLOAD_ADMIN", "blk.setfieldval('type_code', Bundle.BLOCK_TYPE_PAYLOAD)", "blk.setfieldval('btsd', bytes(blk.payload))"]
    sets = [c for c in calls_in(fu.func) if isinstance(c.func, ast.Attribute) and c.func.attr == 'setfieldval']
    if not all(n in body for n in need) or not all(fu.has(c, 'isinstance(blk.payload, AdminRecord)', True) for c in sets):
        ob.violate(BUNDLE, fu.qual, 'admin payload -> flag, type 1, data', 'an AdminRecord payload does not set the admin flag, payload type and encoded data together (only for admin payloads)', fu.func)
    else:
        ob.site(BUNDLE, fu.func, 'admin payload sets flag, type 1 and data')
    fp = FuncView(tree, BUNDLE, 'Bundle.post_dissect')
    adds = [c for c in calls_in(fp.func) if pm('blk.add_payload($p)', c) is not None]
    a = one(adds, 'admin payload re-attachment', ob)
    facts = fp.facts(a) or frozenset()
    if not any(p and t.endswith('& PrimaryBlock.Flag.PAYLOAD_ADMIN') for (t, p) in facts) or ('blk.type_code == Bundle.BLOCK_TYPE_PAYLOAD', True) not in facts:
        ob.violate(BUNDLE, fp.qual, src(a), 'payload data is parsed as an administrative record without the admin flag / outside the payload block', a)
    else:
        ob.site(BUNDLE, a, 'AdminRecord re-attached only under the admin flag, on the payload block')


def c02g(tree, ob):
    ''' two things the round-trip of every structure relies on and that no field rule sees:
    * scapy expands a packet whose field holds a list into one packet per member when it is built through iteration
      (Packet.__iter__): the base class of every CBOR structure switches that off (yield self / length 1).  Moved down to the
      array class, an item structure with array content ([9, [1, 2, 3]]) re-encodes as its first expansion ([9, 1]);
    * an arity test in the bundle decoder admits every legal size: the primary block has 8 to 11 items (11 = fragment with CRC),
      a canonical block 5 or 6. '''
    cls = tree.klass(CPKT, 'AbstractCborStruct')
    meths = {m.name: m for m in cls.body if isinstance(m, ast.FunctionDef)}
    it = meths.get('__iter__')
    ln = meths.get('__iterlen__')
    ok_it = it is not None and [src(n.value) for n in ast.walk(it) if isinstance(n, ast.Yield) and n.value is not None] == ['self'] and not any(isinstance(n, (ast.For, ast.While, ast.YieldFrom)) for n in ast.walk(it))
    ok_ln = ln is not None and [src(r.value) for r in ast.walk(ln) if isinstance(r, ast.Return) and r.value is not None] == ['1']
    if ok_it and ok_ln:
        ob.site(CPKT, it, 'every CBOR structure is one packet (no expansion over list-valued fields)')
    else:
        ob.violate(CPKT, 'AbstractCborStruct', '__iter__ / __iterlen__ (no iteration)', 'the base class of the CBOR structures does not switch off the expansion of list-valued fields: a structure that is '
                   'not an array packet but holds array content is built as its first expansion, [9, [1, 2, 3]] re-encodes as [9, 1]', cls)
    # arity tests against constants in the bundle decoder
    LEGAL = ({8, 9, 10, 11}, {5, 6})
    n = 0
    for qual in ('Bundle.dissect', 'Bundle.do_dissect', 'Bundle.post_dissect', 'PrimaryBlock.do_dissect', 'CanonicalBlock.do_dissect'):
        rel = BUNDLE if qual.startswith('Bundle.') else BLOCKS
        if not tree.has_func(rel, qual):
            continue
        func = tree.func(rel, qual)
        for cmp_ in [x for x in walk_local(func) if isinstance(x, ast.Compare) and len(x.ops) == 1 and isinstance(x.ops[0], (ast.In, ast.NotIn))]:
            if not (isinstance(cmp_.left, ast.Call) and call_name(cmp_.left) == 'len'):
                continue
            c = cmp_.comparators[0]
            allowed = None
            if isinstance(c, (ast.Tuple, ast.List, ast.Set)) and all(isinstance(e, ast.Constant) and isinstance(e.value, int) for e in c.elts):
                allowed = {e.value for e in c.elts}
            elif isinstance(c, ast.Call) and call_name(c) == 'range' and all(isinstance(a, ast.Constant) and isinstance(a.value, int) for a in c.args) and 1 <= len(c.args) <= 3:
                allowed = set(range(*[a.value for a in c.args]))
            if allowed is None:
                continue
            n += 1
            for legal in LEGAL:
                if allowed & legal and not legal <= allowed:
                    ob.violate(rel, qual, src(cmp_), 'the arity test admits {} but not {}: a well-formed block of that size (11 = a fragment that also carries a CRC) is refused'.format(sorted(allowed & legal), sorted(legal - allowed)), cmp_, sure=True)
                    break
            else:
                ob.site(rel, cmp_, 'arity test admits every legal size')
    if not n:
        ob.site(BUNDLE, tree.klass(BUNDLE, 'Bundle'), 'the bundle decoder makes no arity test against constants (field decoding decides)')


def c02h(tree, ob):
    ''' "payloads of known and unknown type": the payload of a bundle flagged as administrative record is parsed as one on
    decode; whatever that parse raises -- a reason code outside the enumeration is a ValueError inside a TypeError path, an
    unknown record type a KeyError ... -- the payload just stays opaque block data.  The handler around the parse is therefore
    the broad one; narrowed to a list of "decode errors", the ones not on the list make the whole bundle undecodable. '''
    from ..cfg import handler_names
    fv = FuncView(tree, BUNDLE, 'Bundle.post_dissect')
    tries = [t for t in walk_local(fv.func) if isinstance(t, ast.Try) and any(isinstance(c, ast.Call) and (call_name(c) or '').endswith('AdminRecord') for st in t.body for c in ast.walk(st))]
    tr = one(tries, 'try around the administrative record parse in Bundle.post_dissect', ob)
    names = [(nm or 'BaseException').split('.')[-1] for h in tr.handlers for nm in handler_names(h)]
    if any(nm in ('Exception', 'BaseException') for nm in names):
        ob.site(BUNDLE, tr, 'an unparsable administrative payload stays opaque (broad handler)')
    else:
        ob.violate(BUNDLE, fv.qual, 'except ({}) around AdminRecord(...)'.format(', '.join(names))[:90], 'the parse of an administrative payload is guarded against a list of exception types only: a record that fails '
                   'in another way (an unassigned reason code, an unknown record layout) makes the whole bundle undecodable instead of keeping its payload as opaque data', tr.handlers[0] if tr.handlers else tr, sure=True)
