''' C04 — TCPCL endpoints only emit RFC 9174-legal message sequences (structural clauses). '''
import ast
from ..core import AnalysisError, walk_local, calls_in, call_name, dotted, src, self_attr, const_int
from ..lib import (FuncView, pm, method_calls, one, at_least, stores_to_self_attr, const_str, path_text)
from .. import norm, schema

SESS = 'tcpcl/session.py'
MSGS = 'tcpcl/messages.py'

# RFC 9174 section 4.5 .. 6: message type code -> (class anchor, [(kind, octets) by position])
RFC9174_MESSAGES = {
    1: ('TransferSegment', [('flags', 1), ('uint', 8), ('len?', 4), ('list?', None), ('len', 8), ('data', None)]),
    2: ('TransferAck', [('flags', 1), ('uint', 8), ('uint', 8)]),
    3: ('TransferRefuse', [('uint', 1), ('uint', 8)]),
    4: ('Keepalive', []),
    5: ('SessionTerm', [('flags', 1), ('uint', 1)]),
    6: ('RejectMsg', [('uint', 1), ('uint', 1)]),
    7: ('SessionInit', [('uint', 2), ('uint', 8), ('uint', 8), ('len', 2), ('data', None), ('len', 4), ('list', None)]),
}


def check(chk, thorough=False):
    tree = chk.tree
    chk.run('C04.a', 'R-GUARD', 'send_xfer_* only in session; SESS_TERM only in session, once, flag set before sending', lambda ob: c04a(tree, ob), floor=4)
    chk.run('C04.b', 'R-WHO', 'contact header / SESS_INIT / SESS_TERM are built and sent only from their one sender, called from the negotiated places', lambda ob: c04b(tree, ob), floor=6)
    chk.run('C04.c', 'R-NOPATH', 'no transfer is taken from the queue while terminating', lambda ob: c04c(tree, ob), floor=1)
    chk.run('C04.c2', 'R-PAIR', 'on a received SESS_TERM every not-started bundle leaves the queue (so none can start afterwards) and is reported not sent (= C09.c)', lambda ob: _c09c(tree, ob), floor=1)
    chk.run('C04.d', 'R-GUARD', 'Transfer-Length extension goes with START only; extensions refused outside START', lambda ob: c04d(tree, ob), floor=2)
    chk.run('C04.e', 'R-CLAMP', 'every write of the send segment size is clamped by the peer segment MRU; only it sizes a segment', lambda ob: c04e(tree, ob), floor=2)
    chk.run('C04.f', 'R-FLOW', 'each XFER_ACK echoes the segment id, the flags and the length after the write', lambda ob: c04f(tree, ob), floor=2)
    chk.run('C04.g', 'R-WHO', 'transfer ids come from a counter that only increases', lambda ob: c04g(tree, ob), floor=3)
    chk.run('C04.i', 'R-FLOW', 'the octets written are exactly the encoded messages in order: byte buffers only appended and prefix-dropped by what was accepted (= C01.b)', lambda ob: _c01b(tree, ob), floor=7)
    chk.run('C04.j', 'R-SCHEMA', 'a message is complete only with all of its length-prefixed data, also when the data has not arrived yet (= C07.c)', lambda ob: __import__('sa.props.c07', fromlist=['c07c']).c07c(tree, ob), floor=6)
    chk.run('C04.k', 'R-ORDER', 'a transfer is announced with the length it will really send: the file is measured at its end and read from its start (= C01.c, measurement)', lambda ob: __import__('sa.props.c01', fromlist=['tx_measure']).tx_measure(tree, ob), floor=1)
    chk.run('C04.l', 'R-FRESH', 'transfer IDs are unique per connection because the queues and maps are per connection: created per instance (= C01.g, first part)', lambda ob: __import__('sa.props.common', fromlist=['per_instance_state']).per_instance_state(tree, ob, 'tcpcl/session.py', ('Connection', 'Messenger', 'ContactHandler')), floor=3)
    chk.run('C04.m', 'R-GUARD', 'a direction ends on a message boundary: the idle indication that gates the close covers every octet buffer down to the socket (= C09.i = C18.d)', lambda ob: __import__('sa.props.c18', fromlist=['c18d']).c18d(tree, ob), floor=7)
    chk.run('C04.n', 'R-FLOW', 'a started transfer gets its END segment: the final XFER_ACK or a refusal of one transfer does not tear down another one that is being sent (= C17.e)', lambda ob: __import__('sa.props.c17', fromlist=['c17e']).c17e(tree, ob), floor=3)
    chk.run('C04.h', 'R-SCHEMA', 'message type codes and field layouts equal RFC 9174', lambda ob: c04h(tree, ob), floor=7)


def _c01b(tree, ob):
    from .c01 import c01b
    return c01b(tree, ob)


def _c09c(tree, ob):
    from .c09 import c09c   # c09 imports this module: resolve late
    # For C04 the flush matters only as far as a leftover bundle could still be STARTED after SESS_TERM.  When the queue pump
    # refuses to dequeue while terminating (C04.c) nothing can start, whatever the flush leaves behind; the flush itself is
    # then C09's concern (reporting, closing), not C04's.
    from ..report import Obligation
    probe = Obligation('C04.c', 'R-NOPATH', '')
    c04c(tree, probe)
    if not probe.findings and not probe.error:
        ob.site(SESS, tree.func(SESS, 'ContactHandler._process_queue'), 'nothing can start while terminating (C04.c): what the SESS_TERM flush leaves queued cannot break the message sequence')
        return
    return c09c(tree, ob)


def c04a(tree, ob):
    for name in ('send_xfer_data', 'send_xfer_ack', 'send_xfer_refuse'):
        fv = FuncView(tree, SESS, 'Messenger.' + name)
        sends = at_least(method_calls(fv.func, 'send_message', 'self'), 1, 'send_message in ' + name, ob)
        for call in sends:
            if fv.has(call, 'self._in_sess', True):
                ob.site(SESS, call, name + ' sends only under _in_sess')
            else:
                ob.violate(SESS, fv.qual, src(call)[:80], 'message can be sent outside an established session', call)
    fv = FuncView(tree, SESS, 'Messenger.send_sess_term')
    sets = [st for (_f, st, _k, val) in stores_to_self_attr(tree.klass(SESS, 'Messenger'), '_in_term')
            if _f is fv.func and isinstance(val, ast.Constant) and val.value is True]
    mark = one(sets, 'self._in_term = True in send_sess_term', ob)
    if not fv.has(mark, 'self._in_sess', True):
        ob.violate(SESS, fv.qual, src(mark), 'SESS_TERM can be sent outside an established session', mark)
    if not fv.has(mark, 'self._in_term', False):
        ob.violate(SESS, fv.qual, src(mark), 'a second SESS_TERM is not refused (no "already terminating" guard)', mark)
    for call in at_least(method_calls(fv.func, 'send_message', 'self'), 1, 'send_message in send_sess_term', ob):
        ok, wit = fv.dominates(mark, call)
        if not ok:
            ob.violate(SESS, fv.qual, src(call)[:80], 'SESS_TERM is sent without the terminating flag having been set', call, path_text(wit))
        else:
            ob.site(SESS, call, 'SESS_TERM sent after _in_term = True under (_in_sess, not _in_term)')
        # flags: REPLY iff is_reply
        built = [c for c in calls_in(fv.func) if (call_name(c) or '').endswith('SessionTerm')]
        one(built, 'SessionTerm construction', ob)
    reps = [n for n in walk_local(fv.func) if isinstance(n, ast.AugAssign) and 'Flag.REPLY' in src(n.value)]
    rep = one(reps, 'REPLY flag set', ob)
    if not fv.has(rep, 'is_reply', True):
        ob.violate(SESS, fv.qual, src(rep), 'REPLY flag is not conditional on is_reply', rep)


def _ctor_sites(tree, rel, suffix):
    ''' (func qualname, call) for every construction of a class by dotted suffix. '''
    res = []
    for (r, qual, func) in tree.all_functions([rel]):
        for call in calls_in(func):
            name = call_name(call) or ''
            if name == suffix or name.endswith('.' + suffix):
                res.append((qual, func, call))
    return res


def _callers(tree, rel, clsname, meth):
    res = []
    for (r, qual, func) in tree.all_functions([rel]):
        for call in method_calls(func, meth):
            res.append((qual, func, call))
    return res


def c04b(tree, ob):
    # nothing but the contact header precedes SESS_INIT: the keepalive timer runs on a NEGOTIATED interval, which does not
    # exist before both SESS_INITs were seen
    msgr = tree.klass(SESS, 'Messenger')
    for (func, st, _k, val) in stores_to_self_attr(msgr, '_keepalive_time'):
        if func.name == 'merge_session_params':
            ob.site(SESS, st, 'keepalive interval set by negotiation')
        elif isinstance(val, ast.Constant) and val.value in (0, None):
            ob.site(SESS, st, 'keepalive interval is 0 until negotiated ({})'.format(func.name))
        else:
            ob.violate(SESS, 'Messenger.' + func.name, src(st), 'the keepalive interval is set before negotiation: a KEEPALIVE can be written between the contact header and SESS_INIT', st)
    expect = {
        'contact.Head': ('Messenger.send_contact_header', 'send_contact_header'),
        'messages.SessionInit': ('Messenger.send_sess_init', 'send_sess_init'),
        'messages.SessionTerm': ('Messenger.send_sess_term', 'send_sess_term'),
    }
    for ctor, (owner, meth) in expect.items():
        sites = _ctor_sites(tree, SESS, ctor)
        ob.require(sites, 'no construction of ' + ctor)
        for (qual, func, call) in sites:
            if qual != owner:
                ob.violate(SESS, qual, src(call)[:80], '{} is built outside {}'.format(ctor, owner), call)
            else:
                ob.site(SESS, call, ctor + ' built only in ' + owner)
    # callers of send_contact_header
    fv_rm = FuncView(tree, SESS, 'Messenger.recv_message')
    for (qual, func, call) in _callers(tree, SESS, 'Messenger', 'send_contact_header'):
        fv = FuncView(tree, SESS, qual)
        if qual == 'Messenger.start':
            if fv.has(call, 'self._as_passive', False):
                ob.site(SESS, call, 'active side sends the contact header in start()')
            else:
                ob.violate(SESS, qual, src(call), 'contact header sent from start() without being the active side', call)
        elif qual == 'Messenger.recv_message':
            if fv.has(call, 'self._as_passive', True) and fv.has(call, 'isinstance(pkt, contact.Head)', True):
                ob.site(SESS, call, 'passive side replies with its contact header on receiving one')
                marks = [fv.node(st) for (_f, st, _k, val) in stores_to_self_attr(tree.klass(SESS, 'Messenger'), '_in_conn')
                         if _f is fv.func and isinstance(val, ast.Constant) and val.value is True]
                ok, wit = fv.cfg.must_pass(fv.node(call), fv.cfg.exit, set(marks), include_exc=False)
                if not ok:
                    ob.violate(SESS, qual, src(call), 'after replying the endpoint can stay in the contact phase (a second contact header would be answered again)', call, path_text(wit))
            else:
                ob.violate(SESS, qual, src(call), 'contact header reply is not restricted to the passive side receiving a contact header', call)
        else:
            ob.violate(SESS, qual, src(call), 'contact header sent from an unexpected place', call)
    # callers of send_sess_init
    for (qual, func, call) in _callers(tree, SESS, 'Messenger', 'send_sess_init'):
        fv = FuncView(tree, SESS, qual)
        if qual != 'Messenger.recv_message':
            ob.violate(SESS, qual, src(call), 'SESS_INIT sent from an unexpected place', call)
            continue
        facts = fv.facts(call) or frozenset()
        active = ('self._as_passive', False) in facts and ('isinstance(pkt, contact.Head)', True) in facts
        passive = ('self._as_passive', True) in facts and ('msgcls == messages.SessionInit', True) in facts
        if active or passive:
            ob.site(SESS, call, 'SESS_INIT sent {}'.format('by the active side after contact negotiation' if active else 'by the passive side in reply'))
        else:
            ob.violate(SESS, qual, src(call), 'SESS_INIT is sent outside the two negotiated places', call)
    # contact branch is entered only before _in_conn (recv_raw picks the class)
    fv = FuncView(tree, SESS, 'Messenger.recv_raw')
    picks = [n for n in walk_local(fv.func) if isinstance(n, ast.Assign) and src(n.targets[0]) == 'msgcls']
    for st in picks:
        if src(st.value) == 'contact.Head':
            if fv.has(st, 'self._in_conn', False):
                ob.site(SESS, st, 'contact header is only parsed before _in_conn')
            else:
                ob.violate(SESS, fv.qual, src(st), 'contact header can be parsed after contact negotiation', st)
        elif src(st.value) == 'messages.MessageHead':
            if not fv.has(st, 'self._in_conn', True):
                ob.violate(SESS, fv.qual, src(st), 'messages can be parsed before contact negotiation', st)
    ob.require(len(picks) >= 2, 'probe class selection not found in recv_raw')


def c04c(tree, ob):
    fv = FuncView(tree, SESS, 'ContactHandler._process_queue')
    takes = [st for (_f, st, _k, val) in stores_to_self_attr(tree.klass(SESS, 'ContactHandler'), '_tx_tmp')
             if _f is fv.func and not (isinstance(val, ast.Constant) and val.value is None)]
    ob.require(takes, 'no dequeue site in _process_queue')
    for st in takes:
        ob.site(SESS, st, 'dequeue of the next transfer')
        if not fv.has(st, 'self._in_term', False):
            ob.violate(SESS, fv.qual, src(st), 'a queued bundle is started although SESS_TERM was already sent/received '
                       '(no _in_term test on the path to the dequeue)', st)


def c04d(tree, ob):
    fv = FuncView(tree, SESS, 'ContactHandler._process_queue')
    apps = [c for c in calls_in(fv.func) if isinstance(c.func, ast.Attribute) and c.func.attr == 'append' and 'TransferTotalLength' in src(c)]
    app = one(apps, 'Transfer-Length extension append', ob)
    starts = [n for n in walk_local(fv.func) if isinstance(n, ast.AugAssign) and src(n.value).endswith('Flag.START')]
    sst = one(starts, 'START set', ob)
    send = one(method_calls(fv.func, 'send_xfer_data', 'self'), 'send_xfer_data call', ob)
    na, ns, nd = fv.node(app), fv.node(sst), fv.node(send)

    def visits_without(a, b):
        ''' some path entry -> send visits a but not b '''
        return (a in fv.cfg.reachable([fv.cfg.entry], avoid=[b])) and (nd in fv.cfg.reachable([a], avoid=[b]))

    if visits_without(ns, na):
        ob.violate(SESS, fv.qual, src(sst), 'a START segment can be sent without the Transfer-Length extension', sst)
    elif visits_without(na, ns):
        ob.violate(SESS, fv.qual, src(app)[:90], 'the Transfer-Length extension can be attached to a segment without START', app)
    else:
        ob.site(SESS, app, 'length extension on exactly the paths that set START')
    # every other extension item (the private test item) goes with START as well: send_xfer_data refuses items elsewhere,
    # and a refusal out of the pump stalls the transfer behind its first segment
    for c in calls_in(fv.func):
        if pm('ext_items.append($x)', c) is not None and c is not app:
            if fv.has(c, 'self._tx_length == 0', True):
                ob.site(SESS, c, 'extension item appended for the START segment only')
            else:
                ob.violate(SESS, fv.qual, src(c)[:90], 'an extension item is attached to every segment, but items are refused outside START: a transfer of more than one segment '
                           'stops after its first segment and blocks the queue', c)
    got = pm('$a.TransferTotalLength(total_length=self._tx_tmp.total_length)', app.args[0].right if isinstance(app.args[0], ast.BinOp) else app.args[0])
    if got is None:
        ob.violate(SESS, fv.qual, src(app)[:120], 'Transfer-Length extension does not carry the total length of the active transfer', app)
    fx = FuncView(tree, SESS, 'Messenger.send_xfer_data')
    guard = [n for n in walk_local(fx.func) if isinstance(n, ast.Raise)]
    ok = False
    for r in guard:
        facts = fx.facts(r) or frozenset()
        if ('ext_items', True) in facts and ('flg & messages.TransferSegment.Flag.START', False) in facts:
            ok = True
            ob.site(SESS, r, 'extension items outside START are refused')
    if not ok:
        ob.violate(SESS, fx.qual, 'ext_items and not START', 'extension items can be sent on a non-START segment', fx.func)


def c04e(tree, ob):
    owners = [('Messenger', tree.klass(SESS, 'Messenger')), ('ContactHandler', tree.klass(SESS, 'ContactHandler'))]
    nwr = 0
    for (cname, cls) in owners:
        for (func, stmt, kind, val) in stores_to_self_attr(cls, '_send_segment_size'):
            qual = cname + '.' + func.name
            if func.name == '__init__' and isinstance(val, ast.Constant):
                continue
            nwr += 1
            ok = False
            if kind == 'assign' and isinstance(val, ast.Call) and dotted(val.func) == 'min' and len(val.args) == 2 and not val.keywords:
                if any(src(a) == 'self._sessinit_peer.segment_mru' for a in val.args):
                    ok = True
                else:
                    # the bound given a name first (a local that holds the peer's MRU)
                    fvw = FuncView(tree, SESS, qual)
                    if any(isinstance(a, ast.Name) and src(fvw.value_at(a, stmt, depth=2)) == 'self._sessinit_peer.segment_mru' for a in val.args):
                        ok = True
            # the size is a whole number of octets (it is handed to file.read()): no true division on the way, unless inside int()
            if ok:
                fvw2 = FuncView(tree, SESS, qual)
                full = fvw2.value_at(val, stmt, depth=5)
                inside_int = {id(x) for c in ast.walk(full) if isinstance(c, ast.Call) and call_name(c) in ('int', 'round', 'math.floor', 'math.ceil') for x in ast.walk(c)}
                divs = [b for b in ast.walk(full) if isinstance(b, ast.BinOp) and isinstance(b.op, ast.Div) and id(b) not in inside_int]
                if divs:
                    ob.violate(SESS, qual, src(divs[0])[:60] + '  flows into the send segment size', 'the send segment size can become a float (a true division on the way, not inside int()): '
                               'file.read(size) raises TypeError and the transfer stalls in mid-bundle', divs[0], sure=True)
                    continue
            if ok:
                ob.site(SESS, stmt, 'write is min(..., peer segment MRU) in ' + qual)
            else:
                ob.violate(SESS, qual, src(stmt), 'send segment size is written without the peer segment MRU as the outermost upper bound', stmt)
    ob.require(nwr >= 2, 'expected the negotiation write and the modulation write')
    # only reader that sizes a segment
    fv = FuncView(tree, SESS, 'ContactHandler._process_queue')
    reads = [c for c in calls_in(fv.func) if isinstance(c.func, ast.Attribute) and c.func.attr == 'read']
    for c in reads:
        if [src(a) for a in c.args] != ['self._send_segment_size']:
            ob.violate(SESS, fv.qual, src(c), 'segment data is read with a size other than the clamped send segment size', c)


def c04f(tree, ob):
    fv = FuncView(tree, SESS, 'ContactHandler.recv_xfer_data')
    acks = at_least(method_calls(fv.func, 'send_xfer_ack', 'self'), 2, 'send_xfer_ack calls', ob)
    writes = [c for c in calls_in(fv.func) if isinstance(c.func, ast.Attribute) and c.func.attr == 'write']
    write = one(writes, 'file write', ob)
    for ack in acks:
        args = list(ack.args)
        ob.require(len(args) == 3 and not ack.keywords, 'send_xfer_ack call shape')
        bad = []
        if src(args[0]) != 'transfer_id' or fv.reaching_defs('transfer_id', ack) != [(None, None)]:
            bad.append('id is not the segment\'s transfer id')
        if src(args[2]) != 'flags' or fv.reaching_defs('flags', ack) != [(None, None)]:
            bad.append('flags are not the segment\'s flags')
        lval = fv.value_at(args[1], ack)
        if pm('self._rx_tmp.file.tell()', lval) is None:
            bad.append('length is not the file position')
        else:
            if isinstance(args[1], ast.Name):
                rd = fv.reaching_defs(args[1].id, ack)
                if len(rd) != 1 or rd[0][0] is None or not fv.dominates(write, rd[0][0])[0]:
                    bad.append('length is measured before the write')
        if bad:
            ob.violate(SESS, fv.qual, src(ack), 'XFER_ACK does not echo the segment: ' + '; '.join(bad), ack)
        else:
            ob.site(SESS, ack, 'ACK(transfer_id, tell() after write, flags)')


def c04g(tree, ob):
    cls = tree.klass(SESS, 'ContactHandler')
    for (func, stmt, kind, val) in stores_to_self_attr(cls, '_tx_next_id'):
        qual = 'ContactHandler.' + func.name
        if func.name == '__init__' and kind == 'assign' and isinstance(val, ast.Constant):
            ob.site(SESS, stmt, 'counter initialised')
        elif kind == 'aug' and isinstance(stmt.op, ast.Add) and isinstance(val, ast.Constant) and isinstance(val.value, int) and val.value >= 1:
            ob.site(SESS, stmt, 'counter += {}'.format(val.value))
        else:
            ob.violate(SESS, qual, src(stmt), 'transfer id counter is written other than by a positive increment', stmt)
    fv = FuncView(tree, SESS, 'ContactHandler.next_id')
    rets = [r for r in walk_local(fv.func) if isinstance(r, ast.Return)]
    ret = one(rets, 'return in next_id', ob)
    val = fv.value_at(ret.value, ret)
    incs = [st for (f, st, k, v) in stores_to_self_attr(cls, '_tx_next_id') if f is fv.func and k == 'aug']
    if src(val) != 'self._tx_next_id' or not incs or not fv.cfg.must_pass(fv.cfg.entry, fv.cfg.exit, {fv.node(i) for i in incs}, include_exc=False)[0]:
        ob.violate(SESS, fv.qual, src(ret), 'next_id does not hand out the counter and advance it on every call', ret)
    else:
        ob.site(SESS, ret, 'next_id returns the counter and advances it')
    # who assigns transfer_id on the TX side
    fq = FuncView(tree, SESS, 'ContactHandler._add_queue_item')
    sets = [n for n in walk_local(fq.func) if isinstance(n, ast.Assign) and src(n.targets[0]) == 'item.transfer_id']
    st = one(sets, 'transfer_id assignment in _add_queue_item', ob)
    if pm('self.next_id()', st.value) is None:
        ob.violate(SESS, fq.qual, src(st), 'queued item gets an id that does not come from next_id()', st)
    else:
        ob.site(SESS, st, 'item id from next_id()')


def _kind(fld):
    base = fld.kind
    if base == 'FlagsField':
        return 'flags'
    if base.endswith('FieldLenField') or base.endswith('LenField') and 'Str' not in base:
        return 'len'
    if base in ('StrLenFieldUtf8', 'BlobField', 'StrLenField'):
        return 'data'
    if base in ('ExtensionListField', 'PacketListField'):
        return 'list'
    return 'uint'


def _transfer_length_ext(tree, ob):
    ''' RFC 9174 4.3.3 / 9.4: the Transfer Length extension is transfer extension type 0x0001 and its value is one 64-bit
    unsigned total length; the extension item header is flags (1 octet), type (2), length (2). '''
    EXT = 'tcpcl/extend.py'
    binds = [(lo, up, kws, node) for (lo, up, kws, node) in schema.bindings(tree, EXT) if up == 'TransferTotalLength']
    if len(binds) != 1 or binds[0][0] != 'TransferExtendHeader' or binds[0][2].get('type') != 1:
        ob.violate(EXT, 'TransferTotalLength', 'bind_extension(...)', 'the Transfer Length extension is not bound to transfer extension type 0x0001', binds[0][3] if binds else tree.klass(EXT, 'TransferTotalLength'), sure=True)
    else:
        ob.site(EXT, binds[0][3], 'Transfer Length = transfer extension type 0x0001')
    flds = schema.fields_desc(tree, EXT, 'TransferTotalLength')
    if len(flds) != 1 or flds[0].name != 'total_length' or flds[0].width != 8:
        ob.violate(EXT, 'TransferTotalLength', 'fields_desc', 'the Transfer Length value is not one 64-bit unsigned integer: {}'.format([(f.name, f.width) for f in flds]), tree.klass(EXT, 'TransferTotalLength'), sure=True)
    else:
        ob.site(EXT, tree.klass(EXT, 'TransferTotalLength'), 'Transfer Length value: one 64-bit integer')
    hdr = schema.fields_desc(tree, MSGS, 'TransferExtendHeader')
    shape = [(f.name, f.width) for f in hdr if f.width is not None][:3]
    if [w for (n_, w) in shape] != [1, 2, 2]:
        ob.violate(MSGS, 'TransferExtendHeader', 'fields_desc', 'the extension item header is not flags(1) type(2) length(2): {}'.format(shape), tree.klass(MSGS, 'TlvHead') if tree.has_class(MSGS, 'TlvHead') else None, sure=True)
    else:
        ob.site(MSGS, tree.klass(MSGS, 'TransferExtendHeader'), 'extension item header 1/2/2 octets')


def c04h(tree, ob):
    _transfer_length_ext(tree, ob)
    binds = [(lo, up, kws, node) for (lo, up, kws, node) in schema.bindings(tree, MSGS) if lo == 'MessageHead']
    table = {}
    for (lo, up, kws, node) in binds:
        if set(kws) != {'msg_id'} or kws['msg_id'] is None:
            raise AnalysisError('C04.h: unrecognised MessageHead binding {}'.format(src(node)))
        if kws['msg_id'] in table:
            ob.violate(MSGS, '<module>', src(node), 'two message classes bound to type code {}'.format(kws['msg_id']), node, sure=True)
        table[kws['msg_id']] = (up, node)
    for code, (anchor, layout) in sorted(RFC9174_MESSAGES.items()):
        if code not in table:
            ob.violate(MSGS, '<module>', 'msg_id={}'.format(code), 'RFC 9174 message type {} ({}) is not bound'.format(code, anchor), None, sure=True)
            continue
        (up, node) = table[code]
        if up != anchor:
            ob.violate(MSGS, '<module>', src(node), 'type code {} is bound to {} but RFC 9174 assigns it to {}'.format(code, up, anchor), node, sure=True)
            continue
        flds = schema.fields_desc(tree, MSGS, anchor, inherit=False)
        got = []
        for fld in flds:
            kind = _kind(fld)
            if fld.cond is not None:
                kind += '?'
            got.append((kind, int(fld.width) if fld.width is not None and kind.rstrip('?') in ('flags', 'uint', 'len') else None))
        if got != layout:
            ob.violate(MSGS, anchor, 'fields_desc', 'field layout {} differs from RFC 9174 {}'.format(got, layout), tree.klass(MSGS, anchor), sure=True)
        else:
            ob.site(MSGS, node, 'type {} = {} layout {}'.format(code, anchor, got))
    # MSG_REJECT: both fields are one octet, so the table above cannot tell their order.  RFC 9174 (figure "Format of
    # MSG_REJECT Messages") has the Reason Code first and the Rejected Message Header second; the field bound to the
    # Reason enumeration is the reason, the one send_reject() fills from pkt.msg_id is the rejected header.
    rej = schema.fields_desc(tree, MSGS, 'RejectMsg', inherit=False)
    names = [f.name for f in rej]
    if 'reason' in names and len(names) == 2:
        if names[0] == 'reason':
            ob.site(MSGS, tree.klass(MSGS, 'RejectMsg'), 'MSG_REJECT = (reason code, rejected message header)')
        else:
            ob.violate(MSGS, 'RejectMsg', 'fields_desc order ({}, {})'.format(*names), 'MSG_REJECT is encoded and decoded as (rejected message header, reason code); RFC 9174 has the reason code first: an '
                       'independent peer reads the rejected type as the reason and vice versa', tree.klass(MSGS, 'RejectMsg'), sure=True)
    for code in sorted(set(table) - set(RFC9174_MESSAGES)):
        ob.violate(MSGS, '<module>', src(table[code][1]), 'type code {} is not an RFC 9174 message type'.format(code), table[code][1], sure=True)
    # header is one octet
    head = schema.fields_desc(tree, MSGS, 'MessageHead', inherit=False)
    if [(f.name, f.width) for f in head] != [('msg_id', 1)]:
        ob.violate(MSGS, 'MessageHead', 'fields_desc', 'message header is not a single type octet', tree.klass(MSGS, 'MessageHead'), sure=True)
    # flag code points
    want = {('TransferSegment', 'Flag'): {'END': 1, 'START': 2}, ('SessionTerm', 'Flag'): {'REPLY': 1},
            ('SessionTerm', 'Reason'): {'UNKNOWN': 0, 'IDLE_TIMEOUT': 1, 'VERSION_MISMATCH': 2, 'BUSY': 3, 'CONTACT_FAILURE': 4, 'RESOURCE_EXHAUSTION': 5},
            ('TlvHead', 'Flag'): {'CRITICAL': 1}}
    from ..core import enum_members
    for (cname, ename), members in want.items():
        enode = tree.klass(MSGS, cname + '.' + ename)
        got = enum_members(tree, MSGS, enode)
        if got != members:
            ob.violate(MSGS, cname + '.' + ename, 'enum', 'code points {} differ from RFC 9174 {}'.format(got, members), enode, sure=True)
    # FlagsField names are listed LSB first from the enum: the names list must be ordered by value
    for cname in ('TransferSegment', 'SessionTerm', 'TlvHead'):
        enode = tree.klass(MSGS, cname + '.Flag')
        vals = [const_int(tree, MSGS, n.value) for n in enode.body if isinstance(n, ast.Assign)]
        exp = [1 << i for i in range(len(vals))]
        if vals != exp:
            ob.violate(MSGS, cname + '.Flag', 'enum order', 'flag members {} are not declared in LSB-first order, which FlagsField(names=[...]) relies on'.format(vals), enode, sure=True)
