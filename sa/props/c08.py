''' C08 — block CRCs are always valid on output and always checked on input (structural clauses). '''
import ast
from ..core import AnalysisError, walk_local, calls_in, call_name, dotted, src, self_attr, is_logging_stmt, enum_members, const_int
from ..lib import (FuncView, pm, method_calls, one, at_least, stores_to_self_attr, const_str, path_text)
from .. import norm, schema

AGENT = 'bp/agent.py'
UTIL = 'bp/util.py'
BLOCKS = 'bp/encoding/blocks.py'
BUNDLE = 'bp/encoding/bundle.py'


def check(chk, thorough=False):
    tree = chk.tree
    chk.run('C08.a', 'R-ORDER', 'the CRC update precedes the encode which precedes the one transmission site, with nothing in between that can change the bundle', lambda ob: c08a(tree, ob), floor=3)
    chk.run('C08.b', 'R-ORDER', 'on receive the CRC gate (check, return on failure) dominates the seen-set add, every recorded action, the chain, reporting and forwarding', lambda ob: c08b(tree, ob), floor=6)
    chk.run('C08.c', 'sibling', 'update_crc and check_crc compute the CRC the same way (zeroed field of the right width, whole block, same algorithm table); both all-block loops cover primary and every canonical block', lambda ob: c08c(tree, ob), floor=8)
    chk.run('C08.e', 'R-SCHEMA', 'the decode is faithful to the CBOR type of every item (integer, byte string and endpoint ID fields refuse items of another type), so the re-encoding the CRC check signs is the block that arrived', lambda ob: c08e(tree, ob), floor=30)
    chk.run('C08.f', 'R-TRUTH', 'decoding keeps every bit of flags and values, so the re-encoding that the CRC check signs is the block that arrived (= C02.e)', lambda ob: __import__('sa.props.c02', fromlist=['c02e']).c02e(tree, ob), floor=20)
    chk.run('C08.g', 'R-NOPATH', 'a block that cannot be decoded fails the bundle instead of vanishing from it (list decoder does not skip; every block indexed) (= C12.j)', lambda ob: __import__('sa.props.c12', fromlist=['c12j']).c12j(tree, ob), floor=2)
    chk.run('C08.h', 'R-GUARD', 'the received block data is what the CRC check sees: parsed payloads are not written back over it (= C02.d)', lambda ob: __import__('sa.props.c02', fromlist=['c02d']).c02d(tree, ob), floor=3)
    chk.run('C08.i', 'sibling', 'the generic layer decodes what arrived: a field is stored when an item was consumed (null is a value), enumerations do not fall back, nothing undecodable is skipped (= C02.c)', lambda ob: __import__('sa.props.c02', fromlist=['c02c']).c02c(tree, ob), floor=10)
    chk.run('C08.j', 'R-GUARD', 'every block is asked for its CRC: no filter on the CRC type in front of check_crc() (a type damaged into null must not mean "nothing to check")', lambda ob: c08j(tree, ob), floor=2)
    chk.run('C08.d', 'R-SCHEMA', 'CRC types 1/2 are CRC-16/X.25 big-endian 2 octets and CRC-32C big-endian 4 octets; the CRC field exists iff the type is non-zero', lambda ob: c08d(tree, ob), floor=6)


def c08a(tree, ob):
    fv = FuncView(tree, AGENT, 'Agent.send_bundle')
    senders = [c for c in calls_in(fv.func) if pm('ctr.sender($d)', c) is not None]
    snd = one(senders, 'ctr.sender(...) call in send_bundle', ob)
    # no other transmission site in bp/
    for rel in sorted(r for r in tree.modules if r.startswith('bp/')):
        for (r, qual, func) in tree.all_functions([rel]):
            for call in calls_in(func):
                if isinstance(call.func, ast.Attribute) and call.func.attr == 'sender' and call is not snd:
                    ob.violate(rel, qual, src(call)[:80], 'a bundle is handed to the convergence layer outside Agent.send_bundle (no CRC update on this path)', call)
    ob.site(AGENT, snd, 'single transmission site')
    ups = [c for c in calls_in(fv.func) if pm('ctr.bundle.update_all_crc()', c) is not None]
    if not ups:
        ob.violate(AGENT, fv.qual, 'ctr.bundle.update_all_crc()', 'bundles are transmitted without updating their CRCs', snd)
        return
    up = ups[-1]
    val = fv.value_at(snd.args[0], snd)
    if pm('bytes(ctr.bundle)', val) is None:
        ob.violate(AGENT, fv.qual, src(snd), 'what is transmitted is not the encoding of the bundle', snd)
        return
    enc = fv.reaching_defs(snd.args[0].id, snd)[0][0] if isinstance(snd.args[0], ast.Name) else snd
    ok, wit = fv.dominates(up, enc)
    if not ok:
        ob.violate(AGENT, fv.qual, src(enc), 'the bundle can be encoded without its CRCs having been updated', enc, path_text(wit))
        return
    ob.site(AGENT, up, 'update_all_crc dominates the encode')
    # nothing but logging between the update and the send
    between = fv.cfg.reachable([fv.node(up)], avoid=[fv.node(snd)])
    reach_send = {n for n in between if fv.node(snd) in fv.cfg.reachable([n]) or n is fv.node(snd)}
    for n in reach_send:
        if n.kind != 'stmt' or n is fv.node(enc) or n is fv.node(snd):
            continue
        if is_logging_stmt(n.ast):
            continue
        # a pure local computation (plain local target, no call other than bytes()/len()) cannot change the bundle
        if isinstance(n.ast, ast.Assign) and all(isinstance(t, ast.Name) for t in n.ast.targets) and \
                all((call_name(c) or '') in ('bytes', 'len') for c in calls_in(n.ast)):
            continue
        ob.violate(AGENT, fv.qual, n.text()[:80], 'a statement between the CRC update and the transmission may change the bundle after its CRCs were computed', n.ast)
    ob.site(AGENT, snd, 'only logging between CRC update, encode and send')


def c08b(tree, ob):
    fv = FuncView(tree, AGENT, 'Agent.recv_bundle')
    checks = [n for n in walk_local(fv.func) if isinstance(n, ast.Assign) and pm('ctr.bundle.check_all_crc()', n.value) is not None]
    if not checks:
        ob.violate(AGENT, fv.qual, 'ctr.bundle.check_all_crc()', 'received bundles are not CRC-checked', fv.func)
        return
    chk_st = checks[0]
    var = src(chk_st.targets[0])
    # what is checked is what arrived: nothing ahead of the check builds the bundle (a build re-generates block data from
    # parsed payloads, e.g. a leniently parsed administrative record, so a corrupted payload is "repaired" before its CRC
    # is looked at).  Ahead of the check the receive path only logs repr(ctr): BundleContainer.__repr__ must not build.
    BUILDERS = ('show2', 'build', 'do_build', '__bytes__', 'fill_fields', 'update_all_crc', 'update_crc', 'command', 'psdump', 'pdfdump', 'canvas_dump', 'hexdump', 'ensure_block_type_specific_data')
    before = [c for c in calls_in(fv.func) if fv.node(c) is not None and fv.dominates(c, chk_st)[0] and c is not chk_st.value]
    for c in before:
        nm = (call_name(c) or '').split('.')[-1]
        if nm in BUILDERS or nm == 'bytes':
            ob.violate(AGENT, fv.qual, src(c)[:60] + ' ahead of the CRC check', 'the bundle is built before its CRCs are checked: block data is regenerated from parsed payloads and the check no '
                       'longer sees the octets that arrived', c)
    for (rel, cname) in ((UTIL, 'BundleContainer'),):
        for m in [x for x in tree.klass(rel, cname).body if isinstance(x, ast.FunctionDef) and x.name in ('__repr__', '__str__')]:
            bad = [c for c in calls_in(m) if (call_name(c) or '').split('.')[-1] in BUILDERS or (call_name(c) or '') == 'bytes']
            if bad:
                ob.violate(rel, cname + '.' + m.name, src(bad[0])[:60], 'the text form of a container, logged for every received bundle ahead of the CRC check, builds the bundle: block data is '
                           'regenerated from parsed payloads, so a corrupted administrative payload is re-encoded to its signed form before check_all_crc() looks at it', bad[0])
            else:
                ob.site(rel, m, '{}.{} does not build the bundle'.format(cname, m.name))
    sites = []
    sites += [c for c in calls_in(fv.func) if pm('self._seen_bundle_ident.add($i)', c) is not None]
    sites += method_calls(fv.func, 'record_action')
    sites += method_calls(fv.func, '_finish_bundle', 'self')
    sites += [c for c in calls_in(fv.func) if pm('self._fwd_queue.append($c)', c) is not None]
    sites += [c for c in calls_in(fv.func) if pm('step.action($c)', c) is not None]
    sites += [c for c in calls_in(fv.func) if call_name(c) == 'glib.idle_add']
    ob.require(len(sites) >= 6, 'side-effect sites of recv_bundle')
    for site in sites:
        if fv.has(site, var, False) and fv.dominates(chk_st, site)[0]:
            ob.site(AGENT, site, 'after the CRC gate: ' + src(site)[:50])
        else:
            ob.violate(AGENT, fv.qual, src(site)[:80], 'reachable for a bundle whose CRC check failed or was not yet made', site)
    # who else touches the seen set / runs the RX chain
    cls = tree.klass(AGENT, 'Agent')
    for item in cls.body:
        if isinstance(item, ast.FunctionDef) and item.name not in ('recv_bundle', '__init__'):
            for call in calls_in(item):
                if isinstance(call.func, ast.Attribute) and self_attr(call.func.value) == '_seen_bundle_ident' and call.func.attr in ('add', 'update', 'discard', 'remove', 'clear'):
                    ob.violate(AGENT, 'Agent.' + item.name, src(call), 'seen-identity set is written outside recv_bundle', call)
            for node in walk_local(item):
                if isinstance(node, ast.For) and src(node.iter) == 'self._rx_chain':
                    ob.violate(AGENT, 'Agent.' + item.name, 'for ... in self._rx_chain', 'receive chain is run outside recv_bundle (no CRC gate)', node)
    # check_all_crc returns the failing set
    fb = FuncView(tree, BUNDLE, 'Bundle.check_all_crc')
    rets = [r for r in walk_local(fb.func) if isinstance(r, ast.Return)]
    r = one(rets, 'return in check_all_crc', ob)
    adds = [c for c in calls_in(fb.func) if isinstance(c.func, ast.Attribute) and c.func.attr == 'add' and src(c.func.value) == src(r.value)]
    if len(adds) < 2:
        ob.violate(BUNDLE, fb.qual, src(r), 'failed blocks are not collected into the returned set', r)
    for a in adds:
        facts = fb.facts(a) or frozenset()
        if not any(t.endswith('.check_crc()') and p is False for (t, p) in facts):
            ob.violate(BUNDLE, fb.qual, src(a), 'a block is reported as failed independently of its CRC check', a)


FULL = "defn['encode'](defn['func'](cbor2.dumps(self.build())))"


def _crc_core(tree, ob, meth):
    ''' The CRC computation core of update_crc / check_crc, read on fully inlined expressions (whether the encoding, the
    integer CRC and its packed form are given names on the way is irrelevant). '''
    fv = FuncView(tree, BLOCKS, 'AbstractBlock.' + meth)
    func = fv.func
    zero = [n for n in walk_local(func) if isinstance(n, ast.Assign) and pm("self.fields[self.crc_value_name]", n.targets[0]) is not None
            and pm("defn['encode'](0)", fv.value_at(n.value, n, depth=2, keep=('defn',))) is not None]
    # the statement that evaluates the encoding of the block
    pre = [n for n in walk_local(func) if isinstance(n, (ast.Assign, ast.Expr, ast.Return)) and n.value is not None and 'cbor2.dumps(self.build())' in src(n.value)]
    # statements whose value, inlined, is (or compares with) the packed CRC of that encoding
    full = []
    for n in walk_local(func):
        if isinstance(n, ast.Assign) or (isinstance(n, ast.Return) and n.value is not None):
            v = fv.value_at(n.value, n, depth=6, keep=('defn', 'crc_value'))
            if pm(FULL, v) is not None or (isinstance(v, ast.Compare) and len(v.ops) == 1 and isinstance(v.ops[0], ast.Eq) and
                                           (pm(FULL, v.comparators[0]) is not None or pm(FULL, v.left) is not None)):
                full.append((n, v))
    defn = [n for n in walk_local(func) if isinstance(n, ast.Assign) and src(n.targets[0]) == 'defn']
    return fv, zero, pre, full, defn


def c08c(tree, ob):
    cores = {}
    for meth in ('update_crc', 'check_crc'):
        fv, zero, pre, full, defn = _crc_core(tree, ob, meth)
        cores[meth] = (fv, zero, pre, full, defn)
        qual = fv.qual
        if not pre:
            ob.violate(BLOCKS, qual, 'cbor2.dumps(self.build())', 'the CRC is not computed over the encoding of the whole block', fv.func)
            continue
        p = pre[0]
        zs = [z for z in zero if fv.dominates(z, p)[0]]
        if not zs:
            ob.violate(BLOCKS, qual, "self.fields[self.crc_value_name] = defn['encode'](0)", 'the block is encoded for the CRC without first placing a zeroed CRC field of the right width '
                       '(a block that already carries a CRC gets the new one computed over the old value)', p)
        else:
            between = [n for n in fv.cfg.reachable([fv.node(zs[-1])], avoid=[fv.node(p)]) if n.kind == 'stmt' and fv.node(p) in fv.cfg.reachable([n])]
            rew = [n for n in between if any('self.fields' in w for w in norm.written_names(n.ast))]
            if rew:
                ob.violate(BLOCKS, qual, rew[0].text()[:70], 'the zeroed CRC field is overwritten again before the block is encoded', rew[0].ast)
            else:
                ob.site(BLOCKS, zs[-1], meth + ': zeroed CRC field, then encode the whole block')
        if not full:
            ob.violate(BLOCKS, qual, "defn['func'](pre_crc)", 'the CRC function is not applied to that encoding', p)
        else:
            ob.site(BLOCKS, full[0][0], meth + ': CRC over the zero-field encoding')
        d = [x for x in defn if pm('AbstractBlock.CRC_DEFN[crc_type]', x.value) is not None or pm('self.CRC_DEFN[crc_type]', x.value) is not None]
        if len(d) != len(defn) or not d:
            ob.violate(BLOCKS, qual, src(defn[0]) if defn else 'defn', 'algorithm is not selected from CRC_DEFN by the block CRC type', fv.func)
        ctype = [n for n in walk_local(fv.func) if isinstance(n, ast.Assign) and src(n.targets[0]) == 'crc_type']
        if not ctype or pm('self.getfieldval(self.crc_type_name)', ctype[0].value) is None:
            ob.violate(BLOCKS, qual, 'crc_type', 'CRC type is not read from the block CRC-type field', fv.func)
    # update stores the computed value; check compares and restores
    fv, zero, pre, full, defn = cores['update_crc']
    comp = [(n, v) for (n, v) in full if not isinstance(v, ast.Compare) and isinstance(n, ast.Assign)]
    if comp:
        (cn, _v) = comp[0]
        # the computed value reaches the field: stored directly, or through the local it was assigned to
        tgt = src(cn.targets[0])
        finals = [n for n in walk_local(fv.func) if isinstance(n, ast.Assign) and pm('self.fields[self.crc_value_name]', n.targets[0]) is not None
                  and (n is cn or src(n.value) == tgt)]
        if not finals or not (cn in finals or fv.cfg.must_pass(fv.node(cn), fv.cfg.exit, {fv.node(f) for f in finals}, include_exc=False)[0]):
            ob.violate(BLOCKS, fv.qual, 'self.fields[self.crc_value_name] = crc_value', 'the computed CRC is not stored in the block', fv.func)
        else:
            ob.site(BLOCKS, finals[0], 'update_crc stores encode(crc)')
    elif pre:
        ob.violate(BLOCKS, fv.qual, 'self.fields[self.crc_value_name] = crc_value', 'the computed CRC is not stored in the block', fv.func)
    fv, zero, pre, full, defn = cores['check_crc']
    if pre:
        cmps = [(n, v) for (n, v) in full if isinstance(v, ast.Compare) and (src(v.left) == 'crc_value' or src(v.comparators[0]) == 'crc_value')]
        if not cmps:
            ob.violate(BLOCKS, fv.qual, "valid = crc_value == defn['encode'](crc_int)", 'the received CRC is not compared with the recomputed one', fv.func)
        else:
            cmpn = cmps[0][0]
            ob.site(BLOCKS, cmpn, 'check_crc compares received with recomputed')
            rest = [n for n in walk_local(fv.func) if isinstance(n, ast.Assign) and pm('self.fields[self.crc_value_name]', n.targets[0]) is not None and src(n.value) == 'crc_value']
            if not rest or fv.node(rest[0]) not in fv.cfg.reachable([fv.node(pre[0])]):
                ob.violate(BLOCKS, fv.qual, 'self.fields[self.crc_value_name] = crc_value', 'the received CRC value is not restored after the check', fv.func)
            cv = [n for n in walk_local(fv.func) if isinstance(n, ast.Assign) and src(n.targets[0]) == 'crc_value']
            if not cv or pm('self.fields.get(self.crc_value_name)', cv[0].value) is None or (zero and not fv.dominates(cv[0], zero[0])[0]):
                ob.violate(BLOCKS, fv.qual, 'crc_value = self.fields.get(self.crc_value_name)', 'the received CRC is not saved before the field is zeroed', fv.func)
            rets = [r for r in walk_local(fv.func) if isinstance(r, ast.Return) and r.value is not None and not isinstance(r.value, ast.Constant)]
            if isinstance(cmpn, ast.Return):
                # the comparison is returned directly; the other returns are the "no CRC" answers (c08d looks at those)
                others = [r for r in rets if r is not cmpn and not fv.has(r, 'crc_type == 0', True)]
                if others:
                    ob.violate(BLOCKS, fv.qual, src(others[0]), 'check_crc does not return the comparison result', others[0])
            elif not rets or any(src(r.value) != src(cmpn.targets[0]) for r in rets):
                ob.violate(BLOCKS, fv.qual, 'return valid', 'check_crc does not return the comparison result', fv.func)
    # all-block loops
    for meth, inner in (('update_all_crc', 'update_crc'), ('check_all_crc', 'check_crc')):
        fb = FuncView(tree, BUNDLE, 'Bundle.' + meth)
        prim = [c for c in calls_in(fb.func) if pm('self.primary.{}()'.format(inner), c) is not None]
        loops = [n for n in walk_local(fb.func) if isinstance(n, ast.For) and src(n.iter) in ('self.blocks', "self.getfieldval('blocks')")]
        blk = [c for l in loops for c in calls_in(l) if pm('{}.{}()'.format(src(l.target), inner), c) is not None]
        if not prim:
            ob.violate(BUNDLE, fb.qual, 'self.primary.{}()'.format(inner), 'the primary block is left out', fb.func)
        elif not blk:
            ob.violate(BUNDLE, fb.qual, 'for blk in self.blocks: blk.{}()'.format(inner), 'canonical blocks are left out', fb.func)
        else:
            l = loops[0]
            body0 = fb.node(l.body[0])
            okb = fb.cfg.must_pass(body0, fb.node(l.iter), {fb.node(blk[0])}, include_exc=False)[0] if body0 is not fb.node(blk[0]) else True
            if not okb:
                ob.violate(BUNDLE, fb.qual, src(blk[0]), 'some canonical blocks can be skipped', blk[0])
            else:
                ob.site(BUNDLE, blk[0], meth + ' covers primary and every canonical block')


def c08d(tree, ob):
    cls = tree.klass(BLOCKS, 'AbstractBlock')
    en = enum_members(tree, BLOCKS, tree.klass(BLOCKS, 'AbstractBlock.CrcType'))
    if en != {'NONE': 0, 'CRC16': 1, 'CRC32': 2}:
        ob.violate(BLOCKS, 'AbstractBlock.CrcType', 'enum', 'CRC type code points {} differ from RFC 9171 (0 none, 1 CRC-16, 2 CRC-32C)'.format(en), cls)
    else:
        ob.site(BLOCKS, cls, 'CRC type code points 0/1/2')
    defn = [n for n in cls.body if isinstance(n, ast.Assign) and src(n.targets[0]) == 'CRC_DEFN']
    d = one(defn, 'CRC_DEFN table', ob)
    if isinstance(d.value, ast.Call) and isinstance(d.value.func, ast.Name) and tree.has_func(BLOCKS, d.value.func.id):
        # the table is built by a helper: the one thing decided here is whether its closures capture the loop variable
        # (python binds names late: every 'encode' made in a loop packs with the format of the LAST entry)
        hf = tree.func(BLOCKS, d.value.func.id)
        late = []
        for loop in [n for n in ast.walk(hf) if isinstance(n, (ast.For, ast.comprehension))]:
            tgt = {x.id for x in ast.walk(loop.target) if isinstance(x, ast.Name)}
            body = loop.body if isinstance(loop, ast.For) else []
            for st in body:
                for lam in [x for x in ast.walk(st) if isinstance(x, (ast.Lambda, ast.FunctionDef))]:
                    params = {a.arg for a in lam.args.args + lam.args.kwonlyargs}
                    free = {x.id for x in ast.walk(lam.body if isinstance(lam, ast.Lambda) else lam) if isinstance(x, ast.Name) and isinstance(x.ctx, ast.Load)} - params
                    if free & tgt:
                        late.append((lam, sorted(free & tgt)))
        if late:
            ob.violate(BLOCKS, d.value.func.id, src(late[0][0])[:60], 'the CRC table is built in a loop and its encode function refers to the loop variable {} when it is CALLED, not when it was made: every CRC '
                       'type packs its value with the format of the last entry (CRC-16 blocks leave with a 4-octet CRC field)'.format('/'.join(late[0][1])), late[0][0])
            return
    ob.require(isinstance(d.value, ast.Dict), 'CRC_DEFN is not a dict literal')
    want = {1: ('x-25', '>H'), 2: ('crc-32c', '>L')}
    alt_fmt = {'>H': ('>H', '!H'), '>L': ('>L', '!L', '>I', '!I')}
    seen = set()
    for (k, v) in zip(d.value.keys, d.value.values):
        code = const_int(tree, BLOCKS, k)
        if code is None and isinstance(k, ast.Attribute):
            code = en.get(k.attr)
        if code not in want:
            ob.violate(BLOCKS, 'AbstractBlock.CRC_DEFN', src(k), 'unexpected CRC type {}'.format(src(k)), k)
            continue
        seen.add(code)
        ob.require(isinstance(v, ast.Dict), 'CRC_DEFN entry is not a dict literal')
        ent = {kk.value: vv for (kk, vv) in zip(v.keys, v.values) if isinstance(kk, ast.Constant)}
        alg = pm("crcmod.predefined.mkPredefinedCrcFun($n)", ent.get('func'))
        algn = alg['n'].value if alg and isinstance(alg['n'], ast.Constant) else None
        enc = ent.get('encode')
        fmt = None
        if isinstance(enc, ast.Lambda):
            got = pm('struct.pack($f, $v)', enc.body)
            if got and isinstance(got['f'], ast.Constant) and src(got['v']) == enc.args.args[0].arg:
                fmt = got['f'].value
        if algn != want[code][0] or fmt not in alt_fmt[want[code][1]]:
            ob.violate(BLOCKS, 'AbstractBlock.CRC_DEFN', 'type {}: {} / {}'.format(code, algn, fmt),
                       'CRC type {} must be {} packed as {} (RFC 9171 4.2.1), found {} / {}'.format(code, want[code][0], want[code][1], algn, fmt), k)
        else:
            ob.site(BLOCKS, k, 'type {} = {} {}'.format(code, algn, fmt))
    for code in set(want) - seen:
        ob.violate(BLOCKS, 'AbstractBlock.CRC_DEFN', 'type {}'.format(code), 'CRC type {} has no algorithm'.format(code), d)
    # conditional CRC field
    for cname in ('PrimaryBlock', 'CanonicalBlock'):
        flds = schema.fields_desc(tree, BLOCKS, cname, inherit=False)
        crcf = [f for f in flds if f.name == 'crc_value']
        f = one(crcf, 'crc_value field of ' + cname, ob)
        atom = schema.lambda_atoms(f.cond) if f.cond is not None else None
        if flds[-1] is not f or atom is None or atom[0] != 'crc_type' or atom[1] != 'NotEq' or const_int(tree, BLOCKS, atom[2]) != 0 or f.kind != 'BstrField':
            ob.violate(BLOCKS, cname, 'ConditionalField(BstrField(crc_value), crc_type != 0)', 'the CRC field is not the last item, present exactly when the CRC type is non-zero', f.node)
        else:
            ob.site(BLOCKS, f.node, cname + ': CRC bstr last, iff crc_type != 0')
    # surplus array items (e.g. a CRC item behind a CRC type corrupted to 0) must not be silently dropped: the block
    # classes rely on the inherited payload dissection, which fails on leftover items; an override that swallows them
    # turns such a block into an accepted "type 0" block
    for cname in ('AbstractBlock', 'PrimaryBlock', 'CanonicalBlock'):
        for m in tree.klass(BLOCKS, cname).body:
            if isinstance(m, ast.FunctionDef) and m.name in ('do_dissect_payload', 'extract_padding'):
                delegates = any(isinstance(c.func, ast.Attribute) and c.func.attr == m.name and c is not m for c in calls_in(m))
                raises = any(isinstance(x, ast.Raise) for x in walk_local(m))
                if not delegates and not raises:
                    ob.violate(BLOCKS, cname + '.' + m.name, 'def {}(self, s): (ignores s)'.format(m.name), 'items left over after the declared fields are silently ignored: a block whose CRC-type '
                               'octet is corrupted to 0 keeps its CRC item as a surplus item and is accepted unchecked', m)
    # ... and they do not rely on the inherited behaviour either: scapy hands leftover items to the payload class of the
    # block type, which fails for most types by accident but not for the single-item ones (Bundle Age, Hop Count take the
    # surplus as their own content).  Some class of the hierarchy must refuse a non-empty rest outright.
    refusers = []
    for cname in ('AbstractBlock', 'PrimaryBlock', 'CanonicalBlock'):
        for m in tree.klass(BLOCKS, cname).body:
            if isinstance(m, ast.FunctionDef) and m.name == 'do_dissect_payload' and len(m.args.args) >= 2:
                fm = FuncView(tree, BLOCKS, cname + '.do_dissect_payload')
                arg = m.args.args[1].arg
                if any(isinstance(x, ast.Raise) and fm.has(x, arg, True) for x in walk_local(m)):
                    refusers.append(cname)
    if 'AbstractBlock' in refusers or {'PrimaryBlock', 'CanonicalBlock'} <= set(refusers):
        ob.site(BLOCKS, tree.klass(BLOCKS, 'AbstractBlock'), 'items beyond the declared fields of a block are refused for every block type')
    else:
        ob.violate(BLOCKS, 'AbstractBlock', 'no do_dissect_payload that refuses leftover items', 'items left over after the declared fields are handed to the payload class of the block type: a Bundle Age or Hop '
                   'Count block takes them as its own content, so a CRC type octet corrupted to 0 (CRC item becomes surplus, never checked) or an enlarged array head is accepted',
                   tree.klass(BLOCKS, 'AbstractBlock'))
    ob.site(BLOCKS, tree.klass(BLOCKS, 'CanonicalBlock'), 'block classes do not swallow surplus array items')
    # the same one level up: what follows the decoded item in the input must not vanish.  cbor2.loads() decodes one item and
    # ignores the rest: an array head corrupted into a break (0xff) ends the bundle early, the remaining blocks are never
    # seen by the CRC check, and the truncated bundle is accepted
    fd = FuncView(tree, 'scapy_cbor/packets.py', 'AbstractCborStruct.dissect')
    loose = [c for c in calls_in(fd.func) if (call_name(c) or '') in ('cbor2.loads', 'loads')]
    strict = [c for c in calls_in(fd.func) if (call_name(c) or '') in ('cbor2.load', 'load') or (call_name(c) or '').endswith('.decode')]
    tells = [r for r in walk_local(fd.func) if isinstance(r, ast.Raise) and any('.tell()' in t and 'len(' in t for (t, p) in (fd.facts(r) or ()))]
    if loose or not (strict and tells):
        ob.violate('scapy_cbor/packets.py', fd.qual, src((loose or strict or [fd.func])[0])[:60], 'the input is decoded as one CBOR item and whatever follows it is silently dropped: a block whose array head is '
                   'corrupted into a break truncates the bundle, which is then accepted without its remaining blocks', (loose or [fd.func])[0])
    else:
        ob.site('scapy_cbor/packets.py', tells[0], 'input not consumed completely by the item is an error')
    # type 0: no CRC value on output, none accepted on input
    fu = FuncView(tree, BLOCKS, 'AbstractBlock.update_crc')
    nones = [n for n in walk_local(fu.func) if isinstance(n, ast.Assign) and src(n.targets[0]) in ('crc_value', 'self.fields[self.crc_value_name]') and isinstance(n.value, ast.Constant) and n.value.value is None]
    if not nones or not fu.has(nones[0], 'crc_type == 0', True):
        ob.violate(BLOCKS, fu.qual, 'crc_type == 0 -> crc_value = None', 'a block with CRC type 0 can carry a CRC value', fu.func)
    else:
        ob.site(BLOCKS, nones[0], 'type 0 -> no CRC value')
    fc = FuncView(tree, BLOCKS, 'AbstractBlock.check_crc')
    v0 = [n for n in walk_local(fc.func) if isinstance(n, (ast.Assign, ast.Return)) and n.value is not None and norm.atom(n.value) == ('crc_value is None', True)]
    if not v0 or not fc.has(v0[0], 'crc_type == 0', True):
        ob.violate(BLOCKS, fc.qual, 'crc_type == 0 -> valid = crc_value is None', 'a block with CRC type 0 that carries a CRC value is accepted', fc.func)
    else:
        ob.site(BLOCKS, v0[0], 'type 0 -> valid iff no CRC value')



def c08e(tree, ob):
    # check_crc() signs the re-encoding of the decoded block, so the decode has to be faithful to the CBOR type of every item:
    # a field that converts with int() / bytes() / indexing also takes a bool, a float, an array or a byte string, decodes it to
    # the value that was signed and re-encodes it as the signed item -- a burst that turns 0x01 into 0xf5, an array head into a
    # byte string head or 0x4n into 0x6n then passes the check.  Decided by folding the guards of the decode path over one
    # representative item per foreign CBOR type: each must be refused (raise, or None) before it is converted.
    from .. import absint
    rel = 'scapy_cbor/fields.py'
    FOREIGN = {
        'UintField': [True, False, 1.5, '5', b'\x01', [1], {1: 2}],
        'BstrField': [5, True, 1.5, 'ab', [1, 2], {1: 2}],
    }

    def refused(out):
        return out.kind == 'raise' or (out.kind == 'return' and out.value is None)

    for (cname, samples) in sorted(FOREIGN.items()):
        cls = tree.klass(rel, cname)
        meths = {m.name: m for m in cls.body if isinstance(m, ast.FunctionDef)}
        ob.require('m2i' in meths, '{}.m2i'.format(cname))
        for item in samples:
            ok = False
            where = meths.get('getfield') or meths['m2i']
            if 'getfield' in meths:
                g = meths['getfield']
                ob.require(len(g.args.args) == 3, '{}.getfield signature'.format(cname))
                ok = refused(absint.run(g.body, {g.args.args[2].arg: [item]}, {}))
            if not ok:
                m = meths['m2i']
                ob.require(len(m.args.args) == 3, '{}.m2i signature'.format(cname))
                ok = refused(absint.run(m.body, {m.args.args[2].arg: item}, {}))
            if ok:
                ob.site(rel, where, '{}: a {} item is refused'.format(cname, type(item).__name__))
            else:
                ob.violate(rel, cname + '.' + where.name, 'item of type {}'.format(type(item).__name__),
                           '{} converts a {} item ({!r}) instead of refusing it: the decoded value re-encodes as the item that was signed, so a burst '
                           'that changes the CBOR type of the item passes the CRC check'.format(cname, type(item).__name__, item), where)
    # a wrapped array hands its item to the inner field, which iterates it: only an array may get there
    aw = tree.klass(rel, 'ArrayWrapField')
    g = one([m for m in aw.body if isinstance(m, ast.FunctionDef) and m.name == 'getfield'], 'ArrayWrapField.getfield', ob)
    fg = FuncView(tree, rel, 'ArrayWrapField.getfield')
    inner = [c for c in calls_in(g) if pm('self.fld.getfield($p, $l)', c) is not None]
    ic = one(inner, 'inner getfield of ArrayWrapField', ob)
    lst = src(ic.args[1])
    if any(fg.has(ic, 'isinstance({}, {})'.format(lst, t), True) for t in ('(list, tuple)', 'list', '(tuple, list)')):
        ob.site(rel, ic, 'ArrayWrapField: only an array item is unwrapped')
    else:
        ob.violate(rel, 'ArrayWrapField.getfield', src(ic), 'the wrapped item is iterated whatever its type: a byte string in place of an array of integers (a target list) decodes to the same '
                   'values and re-encodes as the signed array', ic)
    # the endpoint ID is indexed out of whatever arrived
    frel = 'bp/encoding/fields.py'
    cls = tree.klass(frel, 'EidField')
    m = one([x for x in cls.body if isinstance(x, ast.FunctionDef) and x.name == 'm2i'], 'EidField.m2i', ob)
    en = enum_members(tree, frel, tree.klass(frel, 'EidField.TypeCode'))
    ob.require(en.get('dtn') == 1 and en.get('ipn') == 2, 'EID scheme codes')
    consts = {'EidField.TypeCode.dtn': 1, 'EidField.TypeCode.ipn': 2, 'self.TypeCode.dtn': 1, 'self.TypeCode.ipn': 2}
    arg = m.args.args[2].arg
    eid_foreign = [b'\x01\x00', [True, '//a/'], [1.0, '//a/'], [1, True], [1, False], [1, 1.5], [1, b'x'], [1, [1]], [2, b'\x01\x02'], [2, [True, 2]], [2, [1.0, 2]], [2, '12'], [2.0, [1, 2]]]
    # the same at the level of whole blocks: CBOR has several encodings for one value (a tag 2 bignum or a non-shortest head for
    # a small integer).  Decoded they are indistinguishable, re-encoded they take the deterministic form the sender's CRC was
    # computed over.  RFC 9171 4.1 prescribes the deterministic encoding; the bundle decoder refuses input that differs from
    # the encoding of the items it decoded from it, before anything is dissected.
    if not tree.has_func(BUNDLE, 'Bundle.dissect'):
        ob.violate(BUNDLE, 'Bundle', 'no dissect() that compares the input with its re-encoding', 'a bundle block in a non-deterministic encoding (bignum for a small integer) decodes to the signed values and '
                   're-encodes as the signed octets: a 16-bit burst passes the CRC check', tree.klass(BUNDLE, 'Bundle'))
    else:
        fb = FuncView(tree, BUNDLE, 'Bundle.dissect')
        sp = fb.func.args.args[1].arg
        checks = []
        for n in fb.cfg.nodes:
            if n.kind != 'cond' or not isinstance(n.ast, ast.Compare) or len(n.ast.ops) != 1 or not isinstance(n.ast.ops[0], (ast.NotEq, ast.Eq)):
                continue
            sides = [n.ast.left, n.ast.comparators[0]]
            if any(src(x) == sp for x in sides):
                other = [x for x in sides if src(x) != sp][0]
                full = fb.value_at(other, n.ast, depth=3) if isinstance(other, ast.Name) else other
                defs = [src(v) for (st_, v) in fb.reaching_defs(other.id, n.ast) if v is not None and isinstance(v, ast.AST)] if isinstance(other, ast.Name) else [src(full)]
                if defs and all('cbor2.dumps(' in d for d in defs):
                    checks.append(n)
        # the comparison is with the octets that ARRIVED: the parameter is not re-bound on a way that reaches a comparison with it
        # (normalised first -- "the same blocks in other framing" -- the input is compared with itself)
        cmps = [n for n in fb.cfg.nodes if n.kind == 'cond' and isinstance(n.ast, ast.Compare) and any(isinstance(x, ast.Name) and x.id == sp for x in [n.ast.left] + list(n.ast.comparators))]
        for st in [n for n in fb.cfg.nodes if n.kind == 'stmt' and isinstance(n.ast, (ast.Assign, ast.AugAssign, ast.AnnAssign))
                   and any(isinstance(x, ast.Name) and x.id == sp and isinstance(x.ctx, ast.Store) for x in ast.walk(n.ast))]:
            after = fb.cfg.reachable([st])
            hit = [c for c in cmps if c in after and c is not st]
            if hit:
                ob.violate(BUNDLE, fb.qual, '{}  ... then compared: {}'.format(st.text()[:50], hit[0].text()[:50]), 'the input of the bundle decoder is replaced before it is compared with the re-encoding of the decoded '
                           'items: what is compared is no longer what arrived, another encoding of the same values (non-shortest head, bignum) passes and re-encodes as the octets the CRC was computed over', st.ast, sure=True)
        raises = [r for r in walk_local(fb.func) if isinstance(r, ast.Raise) and any(('!= ' + sp in t and p_ is True) or ('== ' + sp in t and p_ is False) for (t, p_) in (fb.facts(r) or ()))]
        deleg = [c for c in calls_in(fb.func) if isinstance(c.func, ast.Attribute) and c.func.attr == 'dissect' and c is not fb.func]
        if checks and raises and deleg and all(fb.cfg.must_pass(fb.cfg.entry, fb.node(d), set(checks) | {n for n in fb.cfg.nodes if n.kind == 'cond' and 'isinstance({}, bytes)'.format(sp) in src(n.ast)}, include_exc=False)[0] for d in deleg):
            ob.site(BUNDLE, raises[0], 'encoded input that is not the deterministic encoding of its items is refused before dissection')
        else:
            ob.violate(BUNDLE, fb.qual, 'input vs. cbor2.dumps() of the decoded items', 'the bundle decoder does not compare its input with the encoding of the items decoded from it: another encoding of the '
                       'same values (tag 2 bignum, non-shortest head) decodes alike and re-encodes as the octets the CRC was computed over', fb.func)
    # ... and only the one spelling the encoder produces: a decoded EID is returned only behind the comparison of its
    # re-encoding with the item that arrived (surplus array members, "none" as text, a node name without its slash all decode
    # to an EID that is sent on as other octets -- the octets the sender's CRC was computed over)
    fe = FuncView(tree, frel, 'EidField.m2i')
    norm_checks = [n for n in fe.cfg.nodes if n.kind == 'cond' and (pm('self.i2m($p, $e) != list({})'.format(arg), n.ast) is not None or pm('list({}) != self.i2m($p, $e)'.format(arg), n.ast) is not None
                                                                   or pm('self.i2m($p, $e) != {}'.format(arg), n.ast) is not None)]
    decoded = [r for r in walk_local(fe.func) if isinstance(r, ast.Return) and r.value is not None and not (isinstance(r.value, ast.Constant) and r.value.value is None) and src(r.value) != arg]
    ob.require(decoded, 'EidField.m2i returns a decoded EID')
    for r in decoded:
        if norm_checks and fe.cfg.must_pass(fe.cfg.entry, fe.node(r), set(norm_checks), include_exc=False)[0] and any(isinstance(x, ast.Raise) and any('self.i2m(' in t for (t, p_) in (fe.facts(x) or ())) for x in walk_local(fe.func)):
            ob.site(frel, r, 'EidField.m2i: returned only when the re-encoding equals the item received')
        else:
            ob.violate(frel, 'EidField.m2i', src(r)[:60] + '  (no comparison of self.i2m(...) with the item)', 'an endpoint ID is decoded from an item that the encoder would spell differently (surplus array members ignored, '
                       '"none" as text, node name without its slash): the block re-encodes to the octets the sender protected although other octets arrived, so a burst of the CRC width passes', r)
    eid_null_refused(tree, ob)
    for item in eid_foreign:
        out = absint.run(m.body, {arg: item}, consts)
        if refused(out):
            ob.site(frel, m, 'EidField: {!r} is refused'.format(item))
        else:
            ob.violate(frel, 'EidField.m2i', 'item {!r}'.format(item), 'an endpoint ID is decoded from {!r}, which is not the encoding of an endpoint ID but indexes / compares like one: '
                       'it re-encodes as the signed EID, so a burst that changes an item type inside an EID passes the CRC check'.format(item), out.node or m)


def eid_null_refused(tree, ob):
    # null: inside the program None stands for "no value" (m2i(None) is None, i2m(None) is dtn:none), so on the wire it must not
    # get as far as m2i -- the decode path (getfield, then m2i) has to RAISE for a null item, returning None is the alias
    from .. import absint
    frel = 'bp/encoding/fields.py'
    cls = tree.klass(frel, 'EidField')
    m = one([x for x in cls.body if isinstance(x, ast.FunctionDef) and x.name == 'm2i'], 'EidField.m2i', ob)
    ob.require(len(m.args.args) == 3, 'EidField.m2i signature')
    arg = m.args.args[2].arg
    consts = {'EidField.TypeCode.dtn': 1, 'EidField.TypeCode.ipn': 2, 'self.TypeCode.dtn': 1, 'self.TypeCode.ipn': 2}
    gf = [x for x in cls.body if isinstance(x, ast.FunctionDef) and x.name == 'getfield']
    if gf and len(gf[0].args.args) == 3:
        out = absint.run(gf[0].body, {gf[0].args.args[2].arg: [None]}, consts)
        where = gf[0]
    else:
        out = absint.run(m.body, {arg: None}, consts)
        where = m
    if out.kind == 'raise':
        ob.site(frel, where, 'EidField: a null item is refused')
    else:
        ob.violate(frel, 'EidField.' + where.name, 'item None (CBOR null)', 'a null in the place of an endpoint ID decodes to None, which i2m() encodes as dtn:none ([1, 0]): the block re-encodes to '
                   'the octets the sender protected although other octets arrived, and passes the CRC check and the BPSec AAD', out.node or where, sure=True)


def c08j(tree, ob):
    ''' which blocks "have no CRC" is decided inside check_crc() (type 0: valid iff no value).  The loop over the blocks asks every
    block; a filter in front of the question (`if blk.crc_type and ...`) answers "nothing to check" for a CRC type that a burst
    turned into null or false -- the damaged block is accepted. '''
    fb = FuncView(tree, BUNDLE, 'Bundle.check_all_crc')
    calls = [c for c in calls_in(fb.func) if isinstance(c.func, ast.Attribute) and c.func.attr == 'check_crc']
    ob.require(len(calls) >= 2, 'check_crc() calls in check_all_crc')
    for c in calls:
        base = src(c.func.value)
        facts = [(t, p) for (t, p) in (fb.facts(c) or ()) if 'crc_type' in t or 'crc_value' in t]
        # a test inside the same boolean expression (short circuit) is a guard as well
        par = getattr(c, '_parent', None)
        while par is not None and not isinstance(par, ast.stmt):
            if isinstance(par, ast.BoolOp):
                for v in par.values:
                    if v is not c and not any(x is c for x in ast.walk(v)) and ('crc_type' in src(v) or 'crc_value' in src(v)):
                        facts.append((src(v), True))
            par = getattr(par, '_parent', None)
        if facts:
            ob.violate(BUNDLE, fb.qual, '{}.check_crc() only when {}'.format(base, facts[0][0])[:90], 'a block is asked for its CRC only when its CRC type looks set: a CRC type damaged into null / false '
                       '(a short burst on the type octet) makes the block pass unchecked', c, sure=True)
        else:
            ob.site(BUNDLE, c, '{} is always asked'.format(base))
