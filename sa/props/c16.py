''' C16 — COSE confidentiality blocks encrypt, bind context and decrypt exactly (structural clauses). '''
import ast
from ..core import AnalysisError, walk_local, calls_in, call_name, dotted, src, self_attr, kwarg, enclosing
from ..lib import (FuncView, pm, method_calls, one, at_least, stores_to_self_attr, const_str, path_text)
from ..cfg import handler_names
from .. import norm
from .c03 import c03a, c03b, c03g, _verdict_accumulation, _msg_ctors

SEC = 'bp/app/bpsec.py'
ENC = ('Enc0Message', 'EncMessage')


def check(chk, thorough=False):
    tree = chk.tree
    chk.run('C16.a', 'R-ORDER', 'for every result appended by apply_bcb the target block data was replaced by the ciphertext of an encryption message built over the target data with the external AAD', lambda ob: c16a(tree, ob), floor=2)
    chk.run('C16.b', 'R-FLOW', 'plaintext release is fail-closed: only a pycose decrypt() result, tested with "is not None" (empty plaintext is legitimate), written back only on acceptance; exceptions fail; failures accumulate', lambda ob: c16b(tree, ob), floor=8)
    chk.run('C16.c', 'sibling', 'the COSE message kinds apply_bcb can emit are the kinds verify_bcb_target handles', lambda ob: c16c(tree, ob), floor=2)
    chk.run('C16.e', 'R-WHO', 'the verifier binds scope and protected parameters as received (= C03.g)', lambda ob: c03g(tree, ob), floor=8)
    chk.run('C16.f', 'R-FRESH', 'one security operation object per target block: what the association hands out is copied anew for every target, so no two targets share (and overwrite) a block number', lambda ob: c16f(tree, ob), floor=2)
    chk.run('C16.g', 'R-TRUTH', 'the AAD is rebuilt from decoded blocks: decoding keeps every bit of flags and values (= C02.e)', lambda ob: __import__('sa.props.c02', fromlist=['c02e']).c02e(tree, ob), floor=20)
    chk.run('C16.h', 'R-ORDER', 'confidentiality is undone on the reassembled bundle: the security steps of the receive chain come after reassembly (= C12.a)', lambda ob: __import__('sa.props.c12', fromlist=['c12a']).c12a(tree, ob), floor=4)
    chk.run('C16.i', 'R-ITER', 'every confidentiality block of a bundle is verified: the loop over them is not invalidated when an accepted block is removed (= C12.e)', lambda ob: __import__('sa.props.c12', fromlist=['c12e']).c12e(tree, ob), floor=2)
    chk.run('C16.j', 'R-GUARD', 'a well-formed block with several targets is not refused: result ids are checked per target (= C12.g)', lambda ob: __import__('sa.props.c12', fromlist=['c12g']).c12g(tree, ob), floor=2)
    chk.run('C16.k', 'R-NOPATH', 'a confidentiality block that cannot be decoded is found (and fails the bundle): every block is indexed under its type code (= C12.j)', lambda ob: __import__('sa.props.c12', fromlist=['c12j']).c12j(tree, ob), floor=2)
    chk.run('C16.l', 'R-SCHEMA', 'a null in the place of an endpoint ID is refused on decode (the AAD re-encodes the primary block and the security source: null would re-encode as dtn:none and still decrypt) (= C08.e clause)', lambda ob: __import__('sa.props.c08', fromlist=['eid_null_refused']).eid_null_refused(tree, ob), floor=1)
    chk.run('C16.m', 'R-GUARD', 'block data is regenerated from a parsed payload only when there is none: a recovered (possibly empty) plaintext is not overwritten by a stale payload (= C02.d)', lambda ob: __import__('sa.props.c02', fromlist=['c02d']).c02d(tree, ob), floor=3)
    chk.run('C16.n', 'R-ORDER', 'CRCs are made final after the TX chain has encrypted the targets, directly before the encode (= C08.a)', lambda ob: __import__('sa.props.c08', fromlist=['c08a']).c08a(tree, ob), floor=3)
    chk.run('C16.p', 'R-SCHEMA', 'a bundle protected by a BCB is encrypted once, as a whole: the security steps do not run again for the fragments it is cut into (else reassembly never yields the ciphertext that was produced) (= C05.e)', lambda ob: __import__('sa.props.c05', fromlist=['c05e']).c05e(tree, ob), floor=3)
    chk.run('C16.q', 'R-PAIR', 'ciphertext in transit is left alone: the encoded data of a block is dropped only where its parsed payload was edited (an encrypted extension block has none) (= C05.g)', lambda ob: __import__('sa.props.c05', fromlist=['c05g']).c05g(tree, ob), floor=1)
    chk.run('C16.r', 'R-ESCAPE', 'a payload that is ciphertext under the admin flag stays opaque data whatever way it fails to parse: the handler around the record parse is broad (= C02.h)', lambda ob: __import__('sa.props.c02', fromlist=['c02h']).c02h(tree, ob), floor=1)
    chk.run('C16.s', 'R-WHO', 'the key a message is decrypted with is the one the stores hold now: key resolution keeps no memo of its own (a replaced or withdrawn key stops working at once)', lambda ob: key_resolution_stateless(tree, ob), floor=1)
    chk.run('C16.o', 'R-TYPE', 'ciphertext taken from a reassembled bundle reaches the COSE library as bytes: the byte-string field normalises a bytearray (folded m2i)', lambda ob: c16o(tree, ob), floor=1)
    chk.run('C16.d', 'R-FLOW', 'BCB uses the same external AAD construction as BIB (= C03.a/b on apply_bcb)', lambda ob: (c03a(tree, ob, 'apply_bcb'), c03b(tree, ob)), floor=8)


def c16a(tree, ob):
    fv = FuncView(tree, SEC, 'CoseContext.apply_bcb')
    apps = [c for c in calls_in(fv.func) if pm('target_result.append($r)', c) is not None]
    app = one(apps, 'result append in apply_bcb', ob)
    ctors = _msg_ctors(fv.func)
    ob.require(ctors, 'no COSE message construction in apply_bcb')
    for c in ctors:
        kind = call_name(c)
        stmt = c._parent
        ob.require(isinstance(stmt, ast.Assign), 'message construction is not bound to a local')
        # is this construction on a path to the append?
        if fv.node(app) not in fv.cfg.reachable([fv.node(stmt)]):
            continue
        if kind not in ENC:
            ob.violate(SEC, fv.qual, '{}(...) result inside a BCB'.format(kind),
                       'a confidentiality block is produced with a {} (signature/MAC, no encryption): the target block keeps its plaintext on the wire'.format(kind), c)
            continue
        # ciphertext moved into the target before the detached copy is blanked
        sets = [x for x in calls_in(fv.func) if pm("tgt_blk.setfieldval('btsd', $v)", x) is not None and fv.node(x) in fv.cfg.reachable([fv.node(stmt)], avoid=[fv.node(app)])]
        good = None
        for x in sets:
            v = pm("tgt_blk.setfieldval('btsd', $v)", x)['v']
            got = pm('$m[2]', v)
            if got is None:
                continue
            mdec = fv.value_at(got['m'], x, depth=2, keep=('msg_obj',))
            if pm('cbor2.loads(msg_obj.encode(tag=False))', mdec) is None and pm('cbor2.loads(msg_obj.encode())', mdec) is None:
                continue
            rdm = fv.reaching_defs('msg_obj', x)
            if any(rd[0] is stmt for rd in rdm) and all(isinstance(rd[1], ast.Call) and call_name(rd[1]) in ENC for rd in rdm):
                # this construction reaches the store (alone, or as one of the encrypting layouts that share it)
                good = x
        if good is None:
            ob.violate(SEC, fv.qual, '{}(...) without tgt_blk.setfieldval(\'btsd\', <ciphertext>)'.format(kind), 'the ciphertext of the {} is not written into the target block'.format(kind), c)
            continue
        # the encoded data wins only while no parsed payload is attached: the bundle's build step regenerates the data of a
        # block that has one (an administrative record), which would put the plaintext back on the wire
        drops = {fv.node(x) for x in calls_in(fv.func) if pm('tgt_blk.remove_payload()', x) is not None}
        if drops and fv.cfg.must_pass(fv.node(good), fv.node(app), drops, include_exc=False)[0]:
            ob.site(SEC, good, '{}: the parsed payload of the target is dropped with the plaintext'.format(kind))
        else:
            ob.violate(SEC, fv.qual, src(good)[:60] + ' (parsed payload kept)', 'the ciphertext is stored as block data but a parsed payload stays attached: for a payload block holding an administrative '
                       'record the build step regenerates the data from it, and the record leaves the node in the clear next to the BCB', good)
        # ... and what the payload class implied stays: scapy forgets the fields a payload overloaded (the block type code of
        # a block made as CanonicalBlock() / BundleAgeBlock(...)) when the payload is removed; the type code is written into the
        # block's own fields first, else the target goes on the wire with a null type code and cannot be decrypted
        for d in [x for x in calls_in(fv.func) if pm('tgt_blk.remove_payload()', x) is not None]:
            keeps = [x for x in calls_in(fv.func) if pm("tgt_blk.setfieldval('type_code', tgt_blk.getfieldval('type_code'))", x) is not None and fv.dominates(x, d)[0]]
            keeps += [x for x in walk_local(fv.func) if isinstance(x, ast.Assign) and src(x.targets[0]) in ("tgt_blk.fields['type_code']", 'tgt_blk.type_code') and 'type_code' in src(x.value) and fv.dominates(x, d)[0]]
            if keeps:
                ob.site(SEC, d, 'implied type code made explicit before the payload is removed')
            else:
                ob.violate(SEC, fv.qual, src(d) + '  (type_code not made explicit first)', 'removing the parsed payload of a target also removes the type code that payload implied: a target built as '
                           'CanonicalBlock() / <payload class> leaves with block type code null -- a malformed bundle whose AAD was computed with the real type', d)
        # on every path from this construction to the append the replacement happens
        ok, wit = fv.cfg.must_pass(fv.node(stmt), fv.node(app), {fv.node(good)}, include_exc=False)
        blanks = [n for n in walk_local(fv.func) if isinstance(n, ast.Assign) and pm('$m[2]', n.targets[0]) is not None and isinstance(n.value, ast.Constant) and n.value.value is None
                  and fv.node(n) in fv.cfg.reachable([fv.node(stmt)], avoid=[fv.node(app)])]
        early = [b for b in blanks if fv.node(good) in fv.cfg.reachable([fv.node(b)], avoid=[fv.node(app)])]
        if not ok:
            ob.violate(SEC, fv.qual, kind, 'a result can be appended without the target data having been replaced by ciphertext', c, path_text(wit))
        elif early:
            ob.violate(SEC, fv.qual, src(early[0]), 'the detached ciphertext slot is blanked before it was copied into the target block', early[0])
        else:
            ob.site(SEC, good, '{}: ciphertext -> target block, then detached'.format(kind))
    # the result carries the tag of the message actually built
    res = app.args[0]
    if pm('TypeValuePair(type_code=msg_obj.cbor_tag, value=msg_enc)', res) is None:
        ob.violate(SEC, fv.qual, src(res)[:80], 'the result does not carry the COSE tag and encoding of the message built for this target', app)


def key_lookup_contained(tree, ob):
    ''' a key that is not there (unknown KID, chain that does not validate) is the failure of THAT message or recipient: the
    lookup sits inside the try of the per-message verifier, whose handler answers "not verified".  Outside it the exception
    leaves the verifier and takes down what should have gone on -- the other recipients of a wrapped-key message. '''
    from ..cfg import handler_names
    n = 0
    for (r, qual, func) in tree.all_functions([SEC]):
        for c in calls_in(func):
            if not src(c).startswith('self._get_cose_key('):
                continue
            n += 1
            prev = c
            cur = getattr(c, '_parent', None)
            held = False
            while cur is not None and cur is not func:
                if isinstance(cur, ast.Try) and any(prev is st or prev in ast.walk(st) for st in cur.body):
                    if any((nm or 'BaseException').split('.')[-1] in ('Exception', 'BaseException') for h in cur.handlers for nm in handler_names(h)):
                        held = True
                prev = cur
                cur = getattr(cur, '_parent', None)
            if held:
                ob.site(SEC, c, qual + ': key lookup inside the try of the message verifier')
            else:
                ob.violate(SEC, qual, src(c)[:70] + ' outside try/except', 'a key lookup that fails (unknown KID, unvalidated chain) raises out of the per-message verifier instead of failing that message or '
                           'recipient only: a wrapped-key message whose first recipient is for someone else cannot be opened by the recipient that follows', c, sure=True)
    ob.require(n >= 4, 'key lookups in the verifiers: {}'.format(n))


def c16b(tree, ob):
    key_lookup_contained(tree, ob)
    fv = FuncView(tree, SEC, 'CoseContext.verify_bcb_target')
    var = 'plaintext'
    for (st, v) in norm.local_assigns(fv.func, var):
        ok = isinstance(st, ast.Assign) and ((isinstance(v, ast.Constant) and v.value is None) or
                                             (isinstance(v, ast.Call) and (call_name(v) or '').startswith('self._verify_bcb_')))
        if ok:
            ob.site(SEC, st, 'plaintext write: ' + src(st)[:60])
        else:
            ob.violate(SEC, fv.qual, src(st), 'plaintext is assigned from something other than a decryption result or None', st)
    # every test of the plaintext is an identity test against None
    for n in fv.cfg.nodes:
        if n.kind != 'cond':
            continue
        for (text, pol) in norm.all_atoms(n.ast):
            if text == var:
                ob.violate(SEC, fv.qual, '{} {}'.format('if' if pol else 'if not', var),
                           'decryption success is tested by truthiness: a correctly decrypted empty plaintext counts as a failure', n.ast)
            elif text == var + ' is None':
                ob.site(SEC, n.ast, 'plaintext tested with "is None"')
    sets = [x for x in calls_in(fv.func) if pm("secop.tgt_blk.setfieldval('btsd', $v)", x) is not None]
    s = one(sets, 'plaintext write-back', ob)
    if src(s.args[1]) != var or not fv.has(s, var + ' is None', False) or not fv.has(s, 'self._config.accept_after_verify', True):
        ob.violate(SEC, fv.qual, src(s), 'target data is overwritten without (decryption succeeded and acceptance configured)', s)
    else:
        ob.site(SEC, s, 'write-back only on success and acceptance')
    oks = [r for r in walk_local(fv.func) if isinstance(r, ast.Return) and isinstance(r.value, ast.Constant) and r.value.value is None]
    r = one(oks, 'success return', ob)
    if not fv.has(r, var + ' is None', False):
        ob.violate(SEC, fv.qual, 'return None', 'success is returned without a plaintext', r)
    hs = [h for h in walk_local(fv.func) if isinstance(h, ast.ExceptHandler)]
    h = one(hs, 'exception handler in verify_bcb_target', ob)
    hsets = [n for n in walk_local(h) if isinstance(n, ast.Assign) and src(n.targets[0]) == var]
    if handler_names(h) not in (['Exception'], [None]) or not hsets or not (isinstance(hsets[-1].value, ast.Constant) and hsets[-1].value.value is None):
        ob.violate(SEC, fv.qual, 'except Exception: plaintext = None', 'an exception during decryption does not fail the target', h)
    else:
        ob.site(SEC, h, 'exception -> no plaintext')
    fails = [x for x in walk_local(fv.func) if isinstance(x, ast.Return) and x is not r]
    if not fails or any('FAILED_SEC' not in src(x.value) for x in fails if x.value is not None):
        ob.violate(SEC, fv.qual, 'return FAILED_SEC', 'a failed target does not report a security failure', fv.func)
    for sub in ('_verify_bcb_enc0', '_verify_bcb_enc'):
        fs = FuncView(tree, SEC, 'CoseContext.' + sub)
        for x in [x for x in walk_local(fs.func) if isinstance(x, ast.Return)]:
            val = fs.value_at(x.value, x, depth=1) if x.value is not None else None
            okr = (isinstance(x.value, ast.Constant) and x.value.value is None) or \
                  (isinstance(val, ast.Call) and isinstance(val.func, ast.Attribute) and val.func.attr == 'decrypt' and dotted(val.func.value) == 'msg_obj')
            if not okr:
                ob.violate(SEC, fs.qual, src(x), 'a result other than the pycose decrypt() outcome (or None) is returned', x)
            else:
                ob.site(SEC, x, sub + ' returns ' + src(x.value)[:30])
        hs2 = [hh for hh in walk_local(fs.func) if isinstance(hh, ast.ExceptHandler)]
        if not hs2 or not all(any(isinstance(y, ast.Return) and isinstance(y.value, ast.Constant) and y.value.value is None for y in walk_local(hh)) for hh in hs2):
            ob.violate(SEC, fs.qual, 'except Exception: return None', 'a decryption error does not turn into "no plaintext"', fs.func)
        keys = [n for n in walk_local(fs.func) if isinstance(n, ast.Assign) and src(n.targets[0]).endswith('.key')]
        if not keys or pm('self._get_cose_key(secop.ctr, $h, secop.sec_blk.payload.source)', keys[0].value) is None:
            ob.violate(SEC, fs.qual, 'key = self._get_cose_key(...)', 'the decryption key is not obtained through _get_cose_key for the security source', fs.func)
    _verdict_accumulation(tree, ob, 'bcb')


def c16c(tree, ob):
    fa = FuncView(tree, SEC, 'CoseContext.apply_bcb')
    apps = [c for c in calls_in(fa.func) if pm('target_result.append($r)', c) is not None]
    app = one(apps, 'result append', ob)
    emitted = set()
    for c in _msg_ctors(fa.func):
        if fa.node(app) in fa.cfg.reachable([fa.node(c)]):
            emitted.add(call_name(c))
    fv = FuncView(tree, SEC, 'CoseContext.verify_bcb_target')
    handled = set()
    for n in fv.cfg.nodes:
        if n.kind == 'cond':
            got = pm('isinstance(msg_obj, $t)', n.ast)
            if got is not None:
                handled.add(src(got['t']))
    ob.site(SEC, fa.func, 'apply_bcb emits {}'.format(sorted(emitted)))
    ob.site(SEC, fv.func, 'verify_bcb_target handles {}'.format(sorted(handled)))
    for k in sorted(emitted - handled):
        ob.violate(SEC, fa.qual, '{} emitted, not handled by verify_bcb_target'.format(k), 'apply_bcb can emit a {} which no receiver arm handles (and which is not an encryption message)'.format(k), fa.func)
    # default arm raises
    raises = [r for r in walk_local(fv.func) if isinstance(r, ast.Raise) and 'TypeError' in src(r.exc)]
    if not raises:
        ob.violate(SEC, fv.qual, 'else: raise TypeError', 'an unhandled message kind does not fail the target', fv.func)



def c16f(tree, ob):
    ''' apply_bcb() encrypts the block named by each operation's tgt_blk_num.  The operations come from
    SecAssociation.is_match(), which copies a configured template per target and stamps the block number into the copy.
    If the copy is made once and stamped repeatedly, every entry is the same object carrying the last number: that block is
    encrypted twice and the others leave in the clear under a BCB that lists them. '''
    fv = FuncView(tree, SEC, 'SecAssociation.is_match')
    apps = [c for c in calls_in(fv.func) if isinstance(c.func, ast.Attribute) and c.func.attr == 'append' and c.args and isinstance(c.args[0], ast.Name)]
    stamps = [n for n in walk_local(fv.func) if isinstance(n, ast.Assign) and isinstance(n.targets[0], ast.Attribute) and n.targets[0].attr == 'tgt_blk_num']
    ob.require(apps and stamps, 'is_match: result.append(<op>) and <op>.tgt_blk_num = ...')
    FRESH = ('copy.copy', 'copy.deepcopy', 'dataclasses.replace', 'replace', 'SecOp')
    for st in stamps:
        var = st.targets[0].value
        ob.require(isinstance(var, ast.Name), 'stamped object is a local name')
        loop = enclosing(st, ast.For)
        defs = fv.reaching_defs(var.id, st)
        bad = None
        if loop is None:
            bad = 'the block number is not stamped per target'
        for (dst, dval) in defs:
            if bad:
                break
            if not (isinstance(dval, ast.Call) and (call_name(dval) or '') in FRESH):
                bad = 'the stamped object is not a fresh copy ({})'.format(src(dst)[:50])
            elif enclosing(dst, ast.For) is not loop:
                bad = 'the copy ({}) is made outside the per-target loop, so every target stamps the same object'.format(src(dst)[:50])
        if bad:
            ob.violate(SEC, fv.qual, src(st), bad + ': all operations of one template end up with the last block number; that block is processed repeatedly and the '
                       'other targets are listed in the BCB but stay in the clear', st, sure=True)
        else:
            ob.site(SEC, st, 'block number stamped into a copy made in the same iteration')
    for a in apps:
        loop = enclosing(a, ast.For)
        inner = [st for st in stamps if enclosing(st, ast.For) is loop and st.targets[0].value.id == a.args[0].id]
        if not inner:
            ob.violate(SEC, fv.qual, src(a), 'an operation is handed out without its own block number', a, sure=True)
        else:
            ob.site(SEC, a, 'appended operation is the one stamped in this iteration')


def c16o(tree, ob):
    ''' the ciphertext a receiver decrypts is the block data of the target -- after reassembly that data was a bytearray.
    The byte-string field normalises what is stored into it to bytes; pycose takes exactly bytes (a bytearray is "not a
    ciphertext": the genuine bundle of a fragmented BCB is deleted with a security failure). '''
    from .. import absint
    rel = 'scapy_cbor/fields.py'
    cls = tree.klass(rel, 'BstrField')
    m = one([x for x in cls.body if isinstance(x, ast.FunctionDef) and x.name == 'm2i'], 'BstrField.m2i', ob)
    ob.require(len(m.args.args) == 3, 'BstrField.m2i(self, pkt, x)')
    out = absint.run(m.body, {m.args.args[2].arg: bytearray(b'ab')}, {})
    if out.kind == 'return' and type(out.value) is bytes:
        ob.site(rel, m, 'BstrField.m2i(bytearray) is bytes')
    elif out.kind == 'return' and isinstance(out.value, bytearray):
        ob.violate(rel, 'BstrField.m2i', 'm2i(bytearray(...)) -> bytearray', 'the byte-string field keeps a bytearray as it is: the block data of a reassembled bundle (a bytearray) reaches the COSE library, which takes '
                   'exactly bytes -- the confidentiality block of a genuine fragmented bundle fails and the bundle is deleted', out.node or m, sure=True)
    else:
        ob.violate(rel, 'BstrField.m2i', 'm2i(bytearray(...))', 'the byte-string field does not turn a bytearray into bytes', out.node or m)


def key_resolution_stateless(tree, ob):
    SECA = 'bp/app/bpsec.py'
    fv = FuncView(tree, SECA, 'CoseContext._get_cose_key')
    writes = []
    for st in walk_local(fv.func):
        if isinstance(st, (ast.Assign, ast.AugAssign)):
            for t in (st.targets if isinstance(st, ast.Assign) else [st.target]):
                base = t.value if isinstance(t, ast.Subscript) else t
                if self_attr(base):
                    writes.append(st)
        elif isinstance(st, ast.Call) and isinstance(st.func, ast.Attribute) and st.func.attr in ('setdefault', 'update', 'add', 'append') and self_attr(st.func.value):
            writes.append(st)
    if writes:
        ob.violate(SECA, fv.qual, src(writes[0])[:70], 'key resolution remembers what it resolved in the context object: after the key under an identifier was replaced (or a certificate withdrawn) '
                   'messages protected with the old key are still decrypted / verified by this context', writes[0], sure=True)
    else:
        ob.site(SECA, fv.func, '_get_cose_key writes nothing into the context: every call reads the stores as they are')
