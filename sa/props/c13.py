''' C13 — UDPCL transfers arrive intact and no datagram exceeds the MTU (structural clauses). '''
import ast
from ..core import AnalysisError, walk_local, calls_in, call_name, dotted, src, self_attr, kwarg, enclosing, const_int
from ..lib import (FuncView, pm, method_calls, one, at_least, stores_to_self_attr, const_str, path_text)
from .. import norm
from .common import tiling, linear

UAGENT = 'udpcl/agent.py'
QS = 'Agent._send_transfer'
QR = 'Agent._recv_ext_map'
COMPLETE = 'xfer.valid == xfer.total_valid'


class _Mute:
    def violate(self, *a, **k):
        pass

    def site(self, *a, **k):
        pass


def check(chk, thorough=False):
    tree = chk.tree
    chk.run('C13.a', 'R-GUARD', 'one datagram, unchanged, iff there is no MTU or the bundle is within it', lambda ob: c13a(tree, ob), floor=2)
    chk.run('C13.b', 'R-GUARD', 'segments tile the data from 0: slice [off, off+step), advance by the same step, step > 0 guaranteed', lambda ob: c13b(tree, ob), floor=2)
    chk.run('C13.c', 'R-LINEAR', 'step = mtu - (E - 1 + h), E = size of the map with worst-case values, h = head size of the total length; emitted maps have the same shape', lambda ob: c13c(tree, ob), floor=3)
    chk.run('C13.d', 'R-ORDER', 'a transfer is queued and forgotten only when coverage equals [0,total); coverage only grows by the spliced range; keyed by (address, port, id)', lambda ob: c13d(tree, ob), floor=6)
    chk.run('C13.e', 'R-FLOW', 'a datagram is handled message by message: a bundle is cut at its CBOR item boundary, padding / unknown octets skip the rest without queuing', lambda ob: c13e(tree, ob), floor=5)
    chk.run('C13.g', 'R-FLOW', 'a queued bundle is measured at its end and sent from its start; a transfer id of 0 is a transfer id (no truthiness test); received items get local ids only', lambda ob: c13g(tree, ob, UAGENT), floor=4)
    chk.run('C13.h', 'R-FLOW', 'the send entry queues a file over exactly the octets passed in (byte-array conversion only)', lambda ob: __import__('sa.props.common', fromlist=['entry_fidelity']).entry_fidelity(tree, ob, 'udpcl/agent.py', 'Agent.send_bundle_data'), floor=1)
    chk.run('C13.i', 'R-TRUTH', 'the MTU applied is the configured one: the configuration loader hands every setting on as read', lambda ob: __import__('sa.props.common', fromlist=['config_verbatim']).config_verbatim(tree, ob, 'udpcl/config.py'), floor=2)
    chk.run('C13.j', 'R-FRESH', 'the queues, maps and pacing state of a UDPCL agent belong to that agent object (created per instance, no shared default objects)', lambda ob: (__import__('sa.props.common', fromlist=['per_instance_state', 'fresh_defaults']).per_instance_state(tree, ob, 'udpcl/agent.py', ('Agent', 'TxSendWait')), __import__('sa.props.common', fromlist=['per_instance_state', 'fresh_defaults']).fresh_defaults(tree, ob, ['udpcl/agent.py', 'udpcl/config.py'])), floor=3)
    chk.run('C13.k', 'R-ORDER', 'a bundle that cannot be sent costs that bundle only: the head item leaves the TX queue before it is worked on', lambda ob: __import__('sa.props.common', fromlist=['tx_queue_head_leaves_first']).tx_queue_head_leaves_first(tree, ob, 'udpcl/agent.py'), floor=1)
    chk.run('C13.l', 'R-GUARD', 'the TX worker is started whenever the queue holds something (not only for the first item): a failed send does not leave the bundles behind it waiting for ever', lambda ob: __import__('sa.props.common', fromlist=['tx_trigger_whenever_nonempty']).tx_trigger_whenever_nonempty(tree, ob, 'udpcl/agent.py'), floor=1)
    chk.run('C13.m', 'R-GUARD', 'bookkeeping on the receive path cannot drop a datagram: a record key that starts at None (ECN state of a peer) is used in arithmetic only under an "is not None" test', lambda ob: __import__('sa.props.common', fromlist=['optional_record_guarded']).optional_record_guarded(tree, ob, 'udpcl/agent.py'), floor=1)
    chk.run('C13.f', 'R-PAIR', 'queue then announce the same id; ids come from a counter that only increments', lambda ob: c13f(tree, ob), floor=3)


def c13a(tree, ob):
    fv = FuncView(tree, QS and UAGENT, QS)
    sets = [(st, v) for (st, v) in norm.local_assigns(fv.func, 'segments') if isinstance(v, ast.List) and v.elts]
    s = one(sets, 'unsegmented branch', ob)
    data = src(s[1].elts[0])
    facts = fv.facts(s[0]) or frozenset()
    # reached iff (mtu is None or len(data) < mtu)
    cond = enclosing(s[0], (ast.If,))
    atoms = set(norm.all_atoms(cond.test)) if cond is not None and isinstance(norm.strip(cond.test), ast.BoolOp) and isinstance(norm.strip(cond.test).op, ast.Or) else set()
    fits = {('len({}) < mtu'.format(data), True), ('len({}) > mtu'.format(data), False), ('mtu < len({})'.format(data), False), ('mtu > len({})'.format(data), True)}
    strict = {('len({}) < mtu'.format(data), True), ('mtu > len({})'.format(data), True)}
    if ('mtu is None', True) not in atoms or not (atoms & fits) or len(atoms) != 2 or s[0] not in cond.body:
        ob.violate(UAGENT, QS, 'if ' + (src(cond.test) if cond is not None else '?'), 'a bundle is sent as one datagram under a condition other than (no MTU or it fits the MTU)', s[0])
    elif atoms & strict:
        ob.violate(UAGENT, QS, 'if ' + src(cond.test), 'a bundle of exactly the MTU fits one datagram but is cut into segments (the fit test is strict)', s[0])
    else:
        ob.site(UAGENT, s[0], 'single datagram iff no MTU or within it')
    dv = fv.value_at(s[1].elts[0], s[0])
    if pm('item.file.read()', dv) is None:
        ob.violate(UAGENT, QS, src(s[0]), 'the single datagram is not the bundle data unchanged', s[0])
    else:
        ob.site(UAGENT, s[0], 'the datagram is the bundle itself')
    mt = fv.value_at(ast.parse('mtu', mode='eval').body, s[0])
    if src(mt) != 'self._config.mtu_default':
        ob.violate(UAGENT, QS, 'mtu = ' + src(mt), 'MTU is not the configured MTU', s[0])


def _loop(fv, ob):
    return one([n for n in walk_local(fv.func) if isinstance(n, ast.While)], 'segment loop', ob)


def _send_helpers(tree):
    ''' methods of TxSendWait that call <param>.sender(<param>): name -> (func, index of the item argument, index of the datagram argument) '''
    res = {}
    cls = tree.klass(UAGENT, 'TxSendWait')
    for m in cls.body:
        if not isinstance(m, ast.FunctionDef):
            continue
        params = [a.arg for a in m.args.args][1:]
        for c in calls_in(m):
            got = pm('$i.sender($d)', c)
            if got is not None and src(got['i']) in params and src(got['d']) in params:
                res[m.name] = (m, params.index(src(got['i'])), params.index(src(got['d'])))
    return res


def c13_pending_datagram(tree, ob):
    ''' self.cur_dgram holds the segment of the current transfer that waits for tokens.  It is forgotten only once it has
    been handed to the sender (or the whole transfer is given up): clearing it on any other occasion -- e.g. after a
    datagram of another item was sent -- drops that segment, the iterator moves on, and the transfer is reported as sent
    with a hole in it. '''
    cls = tree.klass(UAGENT, 'TxSendWait')
    helpers = _send_helpers(tree)
    n = 0
    for (f, st, k, v) in stores_to_self_attr(cls, 'cur_dgram'):
        if f.name == '__init__':
            continue
        n += 1
        fv = FuncView(tree, UAGENT, 'TxSendWait.' + f.name)
        if not (isinstance(v, ast.Constant) and v.value is None):
            if pm('next(self.cur_item.dgram_iter)', v) is not None and fv.has(st, 'self.cur_dgram is None', True):
                ob.site(UAGENT, st, 'next segment taken only when none is pending')
            else:
                ob.violate(UAGENT, fv.qual, src(st)[:70], 'the pending segment is replaced by something other than the next segment of the current transfer, or while one is still pending', st)
            continue
        # (in the same statement list: the transfer is given up right there, not somewhere else in the function)
        from ..core import parent
        sibs = []
        par = parent(st)
        for fld in ('body', 'orelse', 'finalbody'):
            blk = getattr(par, fld, None)
            if isinstance(blk, list) and st in blk:
                sibs = blk
        gives_up = any(isinstance(x, ast.Assign) and any(src(t) == 'self.cur_item' for t in x.targets) and isinstance(x.value, ast.Constant) and x.value.value is None for x in sibs)
        if gives_up:
            ob.site(UAGENT, st, 'pending segment dropped together with its transfer')
            continue
        sends = []
        for c in calls_in(f):
            got = pm('$i.sender($d)', c)
            if got is not None and fv.dominates(c, st)[0]:
                sends.append((c, src(got['d'])))
            if isinstance(c.func, ast.Attribute) and dotted(c.func.value) == 'self' and c.func.attr in helpers and fv.dominates(c, st)[0]:
                (hf, ip, dp) = helpers[c.func.attr]
                if len(c.args) > dp:
                    sends.append((c, src(c.args[dp])))
        params = [a.arg for a in f.args.args][1:]
        ok = False
        why = 'no send of the pending segment precedes the clearing'
        for (c, d) in sends:
            if d == 'self.cur_dgram':
                ok = True
            elif d in params:
                # decided at the call sites: each must pass the pending segment itself
                sites = [x for m in cls.body if isinstance(m, ast.FunctionDef) for x in method_calls(m, f.name, 'self')]
                wrong = [x for x in sites if not (len(x.args) > params.index(d) and src(x.args[params.index(d)]) == 'self.cur_dgram')]
                if sites and not wrong:
                    ok = True
                else:
                    why = 'it is cleared by {}(), which is also called for a datagram that is not the pending one ({})'.format(f.name, src(wrong[0])[:60] if wrong else 'no call site')
        if ok:
            ob.site(UAGENT, st, 'pending segment forgotten only after it was handed to the sender')
        else:
            ob.violate(UAGENT, fv.qual, src(st), 'the segment that waits for tokens is forgotten without having been sent ({}): the transfer goes on with the next segment and is reported '
                       'as success although the receiver can never complete it'.format(why), st)
    ob.require(n >= 2, 'stores to cur_dgram found: {}'.format(n))
    # ... and the other way round: when the current transfer is given up (or finished), no datagram of it stays pending --
    # it would go out under the next transfer
    from ..core import parent
    for (f, st, k, v) in stores_to_self_attr(cls, 'cur_item'):
        if f.name == '__init__' or not (isinstance(v, ast.Constant) and v.value is None):
            continue
        fv = FuncView(tree, UAGENT, 'TxSendWait.' + f.name)
        sibs = []
        par = parent(st)
        for fld in ('body', 'orelse', 'finalbody'):
            blk = getattr(par, fld, None)
            if isinstance(blk, list) and st in blk:
                sibs = blk
        cleared = any(isinstance(x, ast.Assign) and any(src(t) == 'self.cur_dgram' for t in x.targets) and isinstance(x.value, ast.Constant) and x.value.value is None for x in sibs)
        # (in the handler of a failed "self.cur_dgram = next(...)" the assignment did not happen: the value is still the None
        # that was tested just before)
        h = enclosing(st, ast.ExceptHandler)
        tr = parent(h) if h is not None else None
        from ..core import is_logging_stmt
        tbody = [x for x in (tr.body if tr is not None and isinstance(tr, ast.Try) else []) if not is_logging_stmt(x)]
        failed_fetch = len(tbody) == 1 and isinstance(tbody[0], ast.Assign) and src(tbody[0].targets[0]) == 'self.cur_dgram' and fv.has(tbody[0], 'self.cur_dgram is None', True)
        if cleared or failed_fetch or fv.has(st, 'self.cur_dgram is None', True):
            ob.site(UAGENT, st, 'no datagram of the ended transfer stays pending')
        else:
            ob.violate(UAGENT, fv.qual, src(st) + '  (self.cur_dgram keeps its value)', 'the current transfer is dropped while a datagram of it is still pending: it is sent as the first datagram of the next '
                       'transfer (a segment of a failed bundle inside another, or an oversized datagram failing every later transfer)', st)


def c13_tx_isolation(tree, ob):
    ''' The pacing loop runs in a timer callback.  A transfer that cannot be cut (MTU below the segment overhead: the
    generator raises) or cannot be written (EMSGSIZE) must cost that transfer only: an exception out of the callback
    removes the timer source while glib_timer_id stays set, so it is never re-armed and nothing is ever sent again. '''
    fv = FuncView(tree, UAGENT, 'TxSendWait._update_send')
    from ..cfg import handler_names
    risky = [c for c in calls_in(fv.func) if pm('next(self.cur_item.dgram_iter)', c) is not None or pm('self.cur_item.sender($d)', c) is not None]
    # ... or through a helper method that sends for the item it is given
    for (hname, (hf, ip, dp)) in sorted(_send_helpers(tree).items()):
        for c in method_calls(fv.func, hname, 'self'):
            if len(c.args) > ip and src(c.args[ip]) == 'self.cur_item':
                risky.append(c)
    ob.require(len(risky) >= 2, 'generator / sender calls of the current item not found')
    for c in risky:
        ok = False
        prev = c
        cur = getattr(c, '_parent', None)
        while cur is not None and cur is not fv.func:
            if isinstance(cur, ast.Try) and any(prev is st or prev in ast.walk(st) for st in cur.body):
                for h in cur.handlers:
                    names = [n or 'BaseException' for n in handler_names(h)]
                    if any(n.split('.')[-1] in ('Exception', 'BaseException') for n in names):
                        # the handler gives the item up: cur_item cleared here or in a helper it calls
                        clears = any(isinstance(n, ast.Assign) and any(src(t) == 'self.cur_item' for t in n.targets) for n in walk_local(h))
                        for hc in calls_in(h):
                            if isinstance(hc.func, ast.Attribute) and dotted(hc.func.value) == 'self' and tree.has_func(UAGENT, 'TxSendWait.' + hc.func.attr):
                                hf = tree.func(UAGENT, 'TxSendWait.' + hc.func.attr)
                                clears = clears or any(isinstance(n, ast.Assign) and any(src(t) == 'self.cur_item' for t in n.targets) for n in walk_local(hf))
                        ok = ok or clears
            prev = cur
            cur = getattr(cur, '_parent', None)
        if ok:
            ob.site(UAGENT, c, 'a failure of {} gives up the current transfer only'.format(src(c)[:40]))
        else:
            ob.violate(UAGENT, fv.qual, src(c)[:60] + ' unprotected in the timer callback', 'an exception from a transfer that cannot be cut or written leaves the pacing timer callback: the timer is gone while '
                       'glib_timer_id stays set, so every later bundle is accepted and never emitted', c)


def c13_sender_honest(tree, ob):
    ''' "success" is reported when the datagram iterator of a transfer is exhausted, i.e. when every datagram was handed to
    the socket.  (1) the socket wrapper lets a refused datagram be seen: an exception of sendmsg() leaves UdpSender.__call__
    (caught there and only logged, the segment is never emitted and the transfer still ends as success).  (2) the pacing
    credit only accumulates with time and is spent by what is sent: capped below the size of the waiting datagram it never
    reaches it and everything queued behind stalls. '''
    from ..cfg import handler_names
    fs = FuncView(tree, UAGENT, 'UdpSender.__call__')
    sends = [c for c in calls_in(fs.func) if isinstance(c.func, ast.Attribute) and c.func.attr in ('sendmsg', 'sendto', 'send')]
    sd = one(sends, 'socket send in UdpSender.__call__', ob)
    swallowed = False
    prev = sd
    cur = getattr(sd, '_parent', None)
    while cur is not None and cur is not fs.func:
        if isinstance(cur, ast.Try) and any(prev is st or prev in ast.walk(st) for st in cur.body):
            for h in cur.handlers:
                if not (h.body and isinstance(h.body[-1], ast.Raise)):
                    swallowed = True
        prev = cur
        cur = getattr(cur, '_parent', None)
    if swallowed:
        ob.violate(UAGENT, fs.qual, src(sd)[:60] + ' inside try / except without re-raise', 'a datagram the socket refused (EAGAIN, EMSGSIZE) is only logged: the pacing loop takes it for sent, the transfer '
                   'ends as "success" with a segment that never left', sd, sure=True)
    else:
        ob.site(UAGENT, sd, 'a refused datagram raises out of the sender')
    cls = tree.klass(UAGENT, 'TxSendWait')
    for (f, st, k, v) in stores_to_self_attr(cls, 'tok_avail'):
        if f.name == '__init__':
            continue
        if k == 'aug' and isinstance(st.op, (ast.Add, ast.Sub)):
            ob.site(UAGENT, st, 'pacing credit ' + ('+=' if isinstance(st.op, ast.Add) else '-=') + ' in ' + f.name)
        else:
            ob.violate(UAGENT, 'TxSendWait.' + f.name, src(st)[:70], 'the pacing credit is set (capped, reset) instead of accumulated and spent: below the size of the datagram that waits for it, it never '
                       'reaches that size again and the transfer -- and all behind it -- is never sent', st, sure=True)


def c13b(tree, ob):
    c13_tx_isolation(tree, ob)
    c13_pending_datagram(tree, ob)
    c13_sender_honest(tree, ob)
    fv = FuncView(tree, UAGENT, QS)
    loop = _loop(fv, ob)
    til = tiling(fv, loop, ob, UAGENT, 'UDPCL segment tiling')
    ob.site(UAGENT, loop, 'tiling loop over {} by {}'.format(src(til.data), src(til.step)))
    if not til.total_is_len:
        ob.violate(UAGENT, QS, 'while ' + src(loop.test), 'loop bound is not the length of the data being cut', loop)
    step = src(til.step)
    facts = fv.facts(til.slice) or frozenset()
    if (step + ' > 0', True) in facts or ('0 < ' + step, True) in facts or (step + ' >= 1', True) in facts:
        ob.site(UAGENT, til.slice, 'step > 0 guaranteed before slicing')
    else:
        ob.violate(UAGENT, QS, 'no guard {} > 0'.format(step), 'with an MTU not larger than the per-segment overhead the step is zero or negative: the loop never terminates and the segment list grows without bound', til.slice)


def c13c(tree, ob):
    fv = FuncView(tree, UAGENT, QS)
    loop = _loop(fv, ob)
    til = tiling(fv, loop, _Mute(), UAGENT, 'tiling')
    ob.require(isinstance(til.step, ast.Name), 'step is not a local')
    defs = norm.local_assigns(fv.func, til.step.id)
    if len(defs) != 1 or defs[0][1] is None:
        ob.violate(UAGENT, QS, '; '.join(src(d[0]) for d in defs)[:160], 'the segment data budget is adjusted after being computed (the worst-case head reservation can be undone)', defs[-1][0])
        return
    (st, val) = defs[0]
    form = linear(val, ())
    terms = {k: v for k, v in form.items() if k != 1}
    names = {t: src(fv.value_at(ast.parse(t, mode='eval').body, st, keep=('ext_base', 'item'))) for t in terms}
    mtu_t = [t for t, v in names.items() if v == 'self._config.mtu_default']
    e_t = [t for t, v in names.items() if v == 'len(cbor2.dumps(ext_base))']
    h_t = [t for t, v in names.items() if v == 'len(cbor2.dumps(item.total_length))']
    ok = len(terms) == 3 and len(mtu_t) == 1 and len(e_t) == 1 and len(h_t) == 1 and terms[mtu_t[0]] == 1 and terms[e_t[0]] == -1 and terms[h_t[0]] == -1 and form.get(1, 0) == 1
    if not ok:
        ob.violate(UAGENT, QS, src(st), 'segment budget is {} with {}; required mtu - E + 1 - h, otherwise a segment can encode to more than the MTU'.format(form, names), st)
        return
    ob.site(UAGENT, st, 'budget = mtu - E + 1 - h')
    base = one([d for d in norm.local_assigns(fv.func, 'ext_base')], 'worst-case map', ob)
    emit = [n for n in walk_local(loop) if isinstance(n, ast.Assign) and isinstance(n.value, ast.Dict)]
    e = one(emit, 'emitted map', ob)

    def shape(d):
        ob.require(isinstance(d, ast.Dict) and len(d.keys) == 1 and isinstance(d.values[0], ast.List), 'extension map shape')
        return src(d.keys[0]), [src(x) for x in d.values[0].elts]
    (kb, vb) = shape(base[1])
    (ke, ve) = shape(e.value)
    want_b = ['item.transfer_id', 'item.total_length', 'item.total_length', "b''"]
    if kb != ke or kb != 'ExtensionKey.TRANSFER' or vb != want_b:
        ob.violate(UAGENT, QS, src(base[0])[:120], 'the worst-case map is not [transfer id, total length, largest offset = total length, empty data] under the TRANSFER key', base[0])
    elif ve[:2] != ['item.transfer_id', 'item.total_length'] or ve[2] != til.off or ve[3] != src(til.slice) or len(ve) != 4:
        ob.violate(UAGENT, QS, src(e)[:120], 'an emitted segment map is not [transfer id, total length, offset, piece]: its size is not bounded by the worst-case map', e)
    else:
        ob.site(UAGENT, e, 'emitted map has the slots of the worst-case map (offset <= total length, data = the piece)')
    outs = [c for c in calls_in(loop) if pm('segments.append(cbor2.dumps({}))'.format(src(e.targets[0])), c) is not None]
    if not outs:
        ob.violate(UAGENT, QS, 'segments.append(cbor2.dumps(ext))', 'the emitted datagram is not the encoded segment map', loop)
    else:
        ob.site(UAGENT, outs[0], 'datagram = encoded map')


def _length_agreement(tree, ob, fv):
    ''' a segment is spliced into the buffer of the transfer that has its key; the buffer has the size announced by the
    first segment.  A later segment announcing another total length belongs to another bundle (a reused transfer id): it is
    refused -- validate() raises, or its verdict is tested -- before anything is written. '''
    vcalls = [c for c in calls_in(fv.func) if isinstance(c.func, ast.Attribute) and c.func.attr == 'validate' and len(c.args) == 1]
    if not vcalls:
        ob.violate(UAGENT, fv.qual, 'xfer.validate(new_xfer)', 'a segment is spliced into an existing transfer without comparing the announced total lengths', fv.func)
        return
    vc = vcalls[0]
    hv = FuncView(tree, UAGENT, 'Transfer.validate')
    raises = [r for r in walk_local(hv.func) if isinstance(r, ast.Raise)]
    refusing = [r for r in raises if any(('total_length' in t and '!=' in t and p is True) or ('total_length' in t and '==' in t and p is False) for (t, p) in (hv.facts(r) or ()))]
    from ..core import parent
    used = not isinstance(parent(vc), ast.Expr)
    if refusing:
        ob.site(UAGENT, refusing[0], 'a segment with another total length raises out of the transfer branch')
    elif used and isinstance(parent(vc), (ast.If, ast.UnaryOp, ast.BoolOp, ast.Assign)):
        ob.site(UAGENT, vc, 'the verdict of validate() is used')
    else:
        ob.violate(UAGENT, fv.qual, src(vc) + '  (result ignored, validate() does not raise)', 'a segment that announces another total length than the transfer it is keyed to is spliced into that transfer all the same: '
                   'octets of two bundles are mixed and the result is queued as one', vc)


def c13d(tree, ob):
    fv = FuncView(tree, UAGENT, QR)
    _length_agreement(tree, ob, fv)
    adds = [c for c in method_calls(fv.func, '_add_rx_item', 'self')]
    a = one(adds, '_add_rx_item in the transfer branch', ob)
    dels = [n for n in walk_local(fv.func) if isinstance(n, ast.Delete) and 'self._rx_fragments' in src(n)]
    d = one(dels, 'table deletion', ob)
    for site in (a, d):
        if fv.has(site, COMPLETE, True):
            ob.site(UAGENT, site, 'only when coverage is complete')
        else:
            ob.violate(UAGENT, QR, src(site)[:70], 'happens while octets may still be missing: completion is not tested as coverage == [0,total) '
                       '(e.g. only the outer bounds are compared, so a hole in the middle is ignored)', site)
    if src(d.targets[0]) != 'self._rx_fragments[xfer.key]':
        ob.violate(UAGENT, QR, src(d), 'the completed transfer is not the entry removed', d)
    tv = [n for n in walk_local(fv.func) if isinstance(n, ast.Assign) and src(n.targets[0]) == 'xfer.total_valid']
    va = [n for n in walk_local(fv.func) if isinstance(n, ast.Assign) and src(n.targets[0]) == 'xfer.valid']
    da = [n for n in walk_local(fv.func) if isinstance(n, ast.Assign) and src(n.targets[0]) == 'xfer.data']
    if len(tv) != 1 or pm('portion.closedopen(0, xfer.total_length)', tv[0].value) is None:
        ob.violate(UAGENT, QR, 'xfer.total_valid', 'expected coverage is not [0, total length)', fv.func)
    elif len(va) != 1 or pm('portion.empty()', va[0].value) is None:
        ob.violate(UAGENT, QR, 'xfer.valid', 'coverage does not start empty', fv.func)
    elif len(da) != 1 or pm('bytearray(xfer.total_length)', da[0].value) is None:
        ob.violate(UAGENT, QR, 'xfer.data', 'buffer is not sized to the total length', fv.func)
    else:
        ob.site(UAGENT, tv[0], 'new entry: total_valid=[0,total), valid=empty, buffer of total length')
    for n in tv + va + da:
        if not fv.has(n, 'xfer', False) and not any(t == 'xfer' and not p for (t, p) in (fv.facts(n) or ())):
            # created only for a new entry
            pass
    cov = [n for n in walk_local(fv.func) if isinstance(n, ast.AugAssign) and src(n.target) == 'xfer.valid']
    c = one(cov, 'coverage update', ob)
    spl = [n for n in walk_local(fv.func) if isinstance(n, ast.Assign) and pm('xfer.data[$a:$b]', n.targets[0]) is not None]
    s = one(spl, 'buffer splice', ob)
    sg = pm('xfer.data[$a:$b]', s.targets[0])
    cg = pm('portion.closedopen($a, $b)', c.value)
    if not isinstance(c.op, ast.BitOr) or cg is None or src(cg['a']) != src(sg['a']) or src(cg['b']) != src(sg['b']):
        ob.violate(UAGENT, QR, '{} vs {}'.format(src(s.targets[0]), src(c)), 'the range marked covered is not the range written', c)
    else:
        hi = fv.value_at(sg['b'], s, keep=('frag_offset', 'frag_data'))
        if src(hi) != '{} + len({})'.format(src(sg['a']), src(s.value)):
            ob.violate(UAGENT, QR, 'end = ' + src(hi), 'splice end is not offset + length of the segment data', s)
        else:
            ob.site(UAGENT, c, 'coverage |= [offset, offset+len(data)) = the spliced range')
    unp = [n for n in walk_local(fv.func) if isinstance(n, ast.Assign) and isinstance(n.targets[0], ast.Tuple) and pm('extmap[ExtensionKey.TRANSFER]', n.value) is not None]
    u = one(unp, 'TRANSFER tuple unpack', ob)
    names = [src(x) for x in u.targets[0].elts]
    if names[2:] != [src(sg['a']), src(s.value)]:
        ob.violate(UAGENT, QR, src(u), 'offset / data spliced are not the ones in the received segment', u)
    ctor = one([x for x in calls_in(fv.func) if call_name(x) == 'Transfer'], 'Transfer construction', ob)
    kws = {k.arg: src(k.value) for k in ctor.keywords}
    if kws != {'address': 'str(conv.peer_address)', 'port': 'conv.peer_port', 'xfer_id': names[0], 'total_length': names[1]}:
        ob.violate(UAGENT, QR, src(ctor)[:120], 'a transfer is not identified by (peer address, peer port, transfer id) with its total length', ctor)
    else:
        ob.site(UAGENT, ctor, 'transfer identified by (peer address, port, id)')
    key = tree.find_method(UAGENT, 'Transfer', 'key')
    kr = [r for r in walk_local(key[2]) if isinstance(r, ast.Return)]
    if not kr or pm('tuple((self.address, self.port, self.xfer_id))', kr[0].value) is None:
        ob.violate(UAGENT, 'Transfer.key', src(kr[0]) if kr else 'return', 'table key is not (address, port, transfer id)', key[2])
    else:
        ob.site(UAGENT, kr[0], 'key = (address, port, id)')
    look = [n for n in walk_local(fv.func) if isinstance(n, ast.Assign) and pm('self._rx_fragments.get(new_xfer.key)', n.value) is not None]
    if not look:
        ob.violate(UAGENT, QR, 'self._rx_fragments.get(new_xfer.key)', 'the table is not looked up with the key of this segment', fv.func)
    item = one([x for x in calls_in(a) if call_name(x) == 'BundleItem'], 'queued item', ob)
    fk = kwarg(item, 'file')
    if fk is None or pm('BytesIO(xfer.data)', fk) is None:
        ob.violate(UAGENT, QR, src(item)[:100], 'the queued bundle is not the accumulated buffer', item)


def c13_rx_isolation(tree, ob):
    ''' One bad message (a segment contradicting an earlier one, a truncated datagram) costs that message / that datagram
    only: not the other messages of the datagram, and never the io watch of the listening socket. '''
    from ..cfg import handler_names

    def guarded(fvx, call):
        prev = call
        cur = getattr(call, '_parent', None)
        while cur is not None and cur is not fvx.func:
            if isinstance(cur, ast.Try) and any(prev is st or prev in ast.walk(st) for st in cur.body):
                if any((n or 'BaseException').split('.')[-1] in ('Exception', 'BaseException') for h in cur.handlers for n in handler_names(h)):
                    return True
            prev = cur
            cur = getattr(cur, '_parent', None)
        return False
    fs = FuncView(tree, UAGENT, 'Agent._sock_recvfrom')
    for c in method_calls(fs.func, '_recv_datagram', 'self'):
        if guarded(fs, c):
            ob.site(UAGENT, c, '_sock_recvfrom: a failing datagram does not leave the io callback')
        else:
            ob.violate(UAGENT, fs.qual, src(c)[:60] + ' unprotected in the io callback', 'an exception from one datagram (contradicting segment, truncated CBOR) leaves the io callback of the listening socket: '
                       'the watch is removed and nothing is ever received on it again', c)
    fd = FuncView(tree, UAGENT, 'Agent._recv_datagram')
    for c in method_calls(fd.func, '_recv_ext_map', 'self'):
        if guarded(fd, c):
            ob.site(UAGENT, c, '_recv_datagram: a failing extension map does not drop the following messages')
        else:
            ob.violate(UAGENT, fd.qual, src(c)[:60] + ' unprotected in the message loop', 'an exception from one extension map aborts the message loop: the other messages of the same datagram are dropped', c)


def c13e(tree, ob):
    c13_rx_isolation(tree, ob)
    fv = FuncView(tree, UAGENT, 'Agent._recv_datagram')
    loop = one([n for n in walk_local(fv.func) if isinstance(n, ast.While)], 'message loop', ob)
    peeks = [n for n in walk_local(loop) if isinstance(n, ast.Assign) and pm('buf.peek(1)', n.value) is not None]
    p = one(peeks, 'peek of the next message', ob)
    brk = [n for n in walk_local(loop) if isinstance(n, ast.Break) and fv.has(n, src(p.targets[0]), False)]
    if not brk or not fv.cfg.must_pass(fv.node(loop.body[0]), fv.node(p), set())[0] and False:
        ob.violate(UAGENT, fv.qual, 'if not first_data: break', 'the loop does not stop at the end of the datagram', loop)
    else:
        ob.site(UAGENT, p, 're-peek before each message, stop at the end')
    # what is walked is the datagram as it arrived: the reader is opened on the parameter itself, which nothing rebinds
    # (a datagram "tidied" first -- trailing zero octets stripped as padding -- loses the zero octets a bundle ends with)
    dparam = 'data'
    ob.require(dparam in [a.arg for a in fv.func.args.args], '_recv_datagram(data) parameter')
    rebinds = [n for n in walk_local(fv.func) if isinstance(n, ast.Name) and n.id == dparam and isinstance(n.ctx, ast.Store)]
    opens = [c for c in calls_in(fv.func) if pm('BufferedReader(BytesIO($d))', c) is not None]
    o = one(opens, 'reader over the datagram', ob)
    od = fv.value_at(o.args[0].args[0], o, depth=3, keep=(dparam,))
    if rebinds:
        ob.violate(UAGENT, fv.qual, src(enclosing(rebinds[0], ast.stmt) or rebinds[0])[:70], 'the received datagram is rewritten before it is decoded: octets that belong to a bundle or a segment '
                   '(e.g. trailing zero octets) are lost, and what is queued is not what was sent', rebinds[0])
    elif src(od) != dparam:
        ob.violate(UAGENT, fv.qual, src(o)[:70], 'the reader is not opened on the datagram as it arrived', o)
    else:
        ob.site(UAGENT, o, 'the datagram is decoded as it arrived')
    # ... and all of it: the receive calls ask for the largest datagram there can be, not for what the local configuration
    # says about sending (the peer's MTU is its own; recvmsg() silently cuts a longer datagram)
    from .common import _num
    for (q, pat) in (('Agent._sock_recvfrom', 'sock.recvmsg($n, $a)'), ('Agent._dtlsconn_recv', 'conn.read($n)')):
        fr = FuncView(tree, UAGENT, q)
        calls = [c for c in calls_in(fr.func) if pm(pat, c) is not None]
        c = one(calls, 'receive call in ' + q, ob)
        size = fr.value_at(pm(pat, c)['n'], c, depth=3)
        val = _num(tree, UAGENT, size)
        if val is None:
            ob.violate(UAGENT, q, src(c)[:60] + ' with size ' + src(size)[:50], 'the size asked of the socket is not a constant: a datagram longer than what the local configuration suggests is cut '
                       'by the kernel and the bundle or segment in it is lost or queued truncated', c)
        elif val < 65535:
            ob.violate(UAGENT, q, src(c)[:60] + ' with size {}'.format(val), 'datagrams of up to 65535 octets exist; a longer one than {} is cut by the kernel'.format(val), c)
        else:
            ob.site(UAGENT, c, 'receive size {} covers every datagram'.format(val))
    # bundle branch
    adds = method_calls(fv.func, '_add_rx_item', 'self')
    a = one(adds, 'bundle queue in _recv_datagram', ob)
    if not fv.has(a, 'major_type == 4', True):
        ob.violate(UAGENT, fv.qual, src(a)[:60], 'something other than a CBOR array is queued as a bundle', a)
    item = one([x for x in calls_in(a) if call_name(x) == 'BundleItem'], 'queued item', ob)
    # the slice data[LOW:UP]: each bound is the read position (buf.tell()), LOW taken before and UP after decoding exactly
    # one CBOR item; a bound may be a named local or the call itself
    fk = fv.value_at(kwarg(item, 'file'), a, depth=1)
    got = pm('BytesIO(data[$lo:$up])', fk)
    sl_stmt = a
    if got is None and isinstance(kwarg(item, 'file'), ast.Call) and kwarg(item, 'file').args and isinstance(kwarg(item, 'file').args[0], ast.Name):
        rd = fv.reaching_defs(kwarg(item, 'file').args[0].id, a)
        if len(rd) == 1 and rd[0][1] is not None:
            got = pm('data[$lo:$up]', rd[0][1])
            sl_stmt = rd[0][0]
    if got is None:
        ob.violate(UAGENT, fv.qual, src(kwarg(item, 'file')), 'the queued bundle is not cut out of the datagram by item boundaries', a)
    else:
        def bound(expr):
            ''' statement at which the read position is taken for this bound, or None '''
            if pm('buf.tell()', expr) is not None:
                return sl_stmt
            if isinstance(expr, ast.Name):
                rd = fv.reaching_defs(expr.id, sl_stmt)
                if len(rd) == 1 and rd[0][1] is not None and pm('buf.tell()', rd[0][1]) is not None:
                    return rd[0][0]
            return None
        s0 = bound(got['lo'])
        s1 = bound(got['up'])
        loads = [c for c in calls_in(loop) if pm('cbor2.load(buf)', c) is not None and fv.has(c, 'major_type == 4', True)]
        okb = s0 is not None and s1 is not None and s0 is not s1 and loads \
            and fv.node(loads[0]) in fv.cfg.reachable([fv.node(s0)], avoid=[fv.node(s1)]) and fv.dominates(loads[0], s1)[0] and fv.dominates(s0, loads[0])[0]
        if not okb:
            ob.violate(UAGENT, fv.qual, 'off_start / cbor2.load / off_end', 'the bundle boundaries are not the positions before and after decoding exactly one CBOR item', a)
        else:
            ob.site(UAGENT, a, 'bundle = data[pos before item : pos after item]')
    # skip branches
    seeks = [c for c in calls_in(loop) if pm('buf.seek(0, os.SEEK_END)', c) is not None]
    pad = [c for c in seeks if fv.has(c, 'first_octet == 0', True)]
    if not pad:
        ob.violate(UAGENT, fv.qual, 'first_octet == 0x00 -> skip to end', 'padding is not skipped', loop)
    else:
        ob.site(UAGENT, pad[0], 'padding skips to the end of the datagram')
    unk = [c for c in seeks if fv.has(c, 'major_type == 5', False) and fv.has(c, 'major_type == 4', False) and fv.has(c, 'first_octet == 0', False)]
    if not unk:
        ob.violate(UAGENT, fv.qual, 'else: skip to end', 'unknown first octets do not skip the rest of the datagram', loop)
    else:
        ob.site(UAGENT, unk[-1], 'unknown octets skip the rest without queuing')
    maps = [c for c in method_calls(fv.func, '_recv_ext_map', 'self')]
    m = one(maps, 'extension map dispatch', ob)
    mv = fv.value_at(m.args[1], m, depth=1)
    if not fv.has(m, 'major_type == 5', True) or pm('cbor2.load(buf)', mv) is None:
        ob.violate(UAGENT, fv.qual, src(m), 'an extension map is not decoded as exactly one CBOR map item', m)
    else:
        ob.site(UAGENT, m, 'map message = one CBOR item')
    mt = fv.value_at(ast.parse('major_type', mode='eval').body, m, keep=('buf',))
    if src(mt) != 'buf.peek(1)[0] >> 5':
        ob.violate(UAGENT, fv.qual, 'major_type = ' + src(mt), 'message kind is not decided by the CBOR major type of the first octet', m)


def c13g(tree, ob, rel):
    ''' shared by the UDPCL and BTP-U agents (same code shape) '''
    fv = FuncView(tree, rel, 'Agent._add_tx_item')
    ends = [c for c in calls_in(fv.func) if pm('item.file.seek(0, os.SEEK_END)', c) is not None or pm('item.file.seek(0, 2)', c) is not None]
    tl = [n for n in walk_local(fv.func) if isinstance(n, ast.Assign) and src(n.targets[0]) == 'item.total_length']
    rew = [c for c in calls_in(fv.func) if pm('item.file.seek(0)', c) is not None]
    t = one(tl, 'total_length assignment in _add_tx_item', ob)
    okm = ends and ((pm('item.file.tell()', t.value) is not None and fv.dominates(ends[0], t)[0]) or t.value in ends or (isinstance(t.value, ast.Call) and t.value in ends))
    if not okm:
        ob.violate(rel, fv.qual, src(t), 'the bundle length is not measured at the end of the file', t)
    elif not rew or not fv.cfg.must_pass(fv.node(t), fv.cfg.exit, {fv.node(r) for r in rew}, include_exc=False)[0]:
        ob.violate(rel, fv.qual, 'item.file.seek(0)', 'after measuring, the file is not rewound to its start: a file handed over at a non-zero position is announced with its full length '
                   'but only its tail (or nothing) is sent', t)
    else:
        ob.site(rel, t, 'length measured at the end, file rewound to 0')
    # transfer id tests
    n = 0
    for (r, qual, func) in tree.all_functions([rel]):
        if not qual.startswith('Agent.'):
            continue
        tests = []
        fvq = None
        for node in walk_local(func):
            if isinstance(node, (ast.If, ast.While, ast.IfExp)):
                tests.append(node.test)
            elif isinstance(node, ast.BoolOp):
                tests.append(node)
        for tst in tests:
            for (text, pol) in norm.all_atoms(tst):
                if text.endswith('.transfer_id') and ' ' not in text:
                    n += 1
                    ob.violate(rel, qual, '{} tested by truthiness'.format(text), 'transfer id 0 (the first transfer of an agent) is treated as "no transfer id": '
                               'e.g. it is not segmented and leaves as one datagram larger than the MTU', tst)
                elif text.endswith('.transfer_id is None'):
                    n += 1
                    ob.site(rel, tst, qual + ': transfer id tested with "is None"')
    ob.require(n >= 2, 'transfer id tests')
    # RX items: ids from the local counter only
    for (r, qual, func) in tree.all_functions([rel]):
        for call in method_calls(func, '_add_rx_item', 'self'):
            items = [c for c in calls_in(call) if call_name(c) == 'BundleItem']
            for it in items:
                if kwarg(it, 'transfer_id') is not None:
                    ob.violate(rel, qual, 'BundleItem(transfer_id={})'.format(src(kwarg(it, 'transfer_id'))), 'a received bundle is queued under an id chosen by the peer instead of the local receive counter: '
                               'ids collide, one bundle shadows another and a pop returns the wrong data', it)
                else:
                    ob.site(rel, it, qual + ': received item gets a local id')


def c13f(tree, ob, rel=None):
    rel = rel or UAGENT
    fv = FuncView(tree, rel, 'Agent._add_rx_item')
    stores = [n for n in walk_local(fv.func) if isinstance(n, ast.Assign) and pm('self._rx_queue[$k]', n.targets[0]) is not None]
    s = one(stores, 'RX queue store', ob)
    fin = one(method_calls(fv.func, 'recv_bundle_finished', 'self'), 'recv_bundle_finished', ob)
    if src(s) != 'self._rx_queue[item.transfer_id] = item' or src(fin.args[0]) != 'str(item.transfer_id)' or src(fin.args[1]) != 'item.total_length' or not fv.dominates(s, fin)[0]:
        ob.violate(rel, fv.qual, src(fin)[:80], 'the announced id/length is not that of the bundle just queued, or it is announced before being queued', fin)
    else:
        ob.site(rel, fin, 'queue, then announce (id, length)')
    cls = tree.klass(rel, 'Agent')
    for attr in ('_rx_id', '_tx_id'):
        for (f, st, k, v) in stores_to_self_attr(cls, attr):
            if f.name == '__init__' and isinstance(v, ast.Constant):
                continue
            if k == 'aug' and isinstance(st.op, ast.Add) and isinstance(v, ast.Constant) and v.value == 1:
                ob.site(rel, st, attr + ' += 1')
            else:
                ob.violate(rel, 'Agent.' + f.name, src(st), 'id counter is written other than by += 1', st)
    ids = [n for n in walk_local(fv.func) if isinstance(n, ast.Assign) and src(n.targets[0]) == 'item.transfer_id']
    i = one(ids, 'id assignment', ob)
    if pm('copy.copy(self._rx_id)', i.value) is None and src(i.value) != 'self._rx_id':
        ob.violate(rel, fv.qual, src(i), 'received bundle id is not taken from the counter', i)
    else:
        incs = [st for (f, st, k, v) in stores_to_self_attr(cls, '_rx_id') if f is fv.func and k == 'aug']
        if not incs or not fv.dominates(i, incs[0])[0]:
            ob.violate(rel, fv.qual, src(i), 'the receive counter is not advanced after an id was taken from it: two received bundles get the same id', i)
        else:
            ob.site(rel, i, 'id from the receive counter, which then advances')
