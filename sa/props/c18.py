''' C18 — the D-Bus view of transfers is type-correct and consistent with reality (structural clauses). '''
import ast
from ..core import AnalysisError, walk_local, calls_in, call_name, dotted, src, self_attr, kwarg, enclosing
from ..lib import (FuncView, pm, method_calls, one, at_least, stores_to_self_attr, const_str, path_text)
from ..dbus_types import split_signature, compatible, Typer, HANDLER_PARAM_TYPES
from .. import norm
from .c09 import close_check

SESS = 'tcpcl/session.py'
TAGENT = 'tcpcl/agent.py'
UAGENT = 'udpcl/agent.py'
BAGENT = 'btpu/agent.py'
CLA = 'bp/cla.py'

CLASSES = [(SESS, 'ContactHandler'), (TAGENT, 'Agent'), (UAGENT, 'Agent')]


def check(chk, thorough=False):
    tree = chk.tree
    chk.run('C18.a', 'R-TYPE', 'every signal emit site passes arguments that conform to the declared signature', lambda ob: c18a(tree, ob), floor=14)
    chk.run('C18.b', 'R-TYPE', 'every D-Bus method return conforms to its out_signature; non-marshallable parameter values are converted', lambda ob: c18b(tree, ob), floor=10)
    chk.run('C18.c', 'R-PAIR', 'queue maps and finished signals move together (RX map <-> recv_bundle_finished; finished TX ids leave the TX map; pops remove exactly the id)', lambda ob: c18c(tree, ob), floor=8)
    chk.run('C18.d', 'R-SCHEMA', 'the idle predicate is the conjunction of both message buffers being empty and no transfer queued, active or awaiting ACK', lambda ob: c18d(tree, ob), floor=7)
    chk.run('C18.d2', 'R-GUARD', 'the post-termination close decision uses the full idle predicate (transfers included), not just the octet buffers', lambda ob: close_check(tree, ob), floor=1)
    chk.run('C18.g', 'R-FRESH', 'transfer maps and queues belong to their session / agent object (created per instance, no shared default objects) (= C01.g, first part)', lambda ob: (__import__('sa.props.common', fromlist=['per_instance_state', 'fresh_defaults']).per_instance_state(tree, ob, 'tcpcl/session.py', ('Connection', 'Messenger', 'ContactHandler')), __import__('sa.props.common', fromlist=['per_instance_state', 'fresh_defaults']).per_instance_state(tree, ob, 'tcpcl/agent.py', ('Agent',)), __import__('sa.props.common', fromlist=['per_instance_state', 'fresh_defaults']).per_instance_state(tree, ob, 'udpcl/agent.py', ('Agent',)), __import__('sa.props.common', fromlist=['per_instance_state', 'fresh_defaults']).fresh_defaults(tree, ob, ['tcpcl/session.py', 'tcpcl/agent.py', 'tcpcl/config.py'])), floor=3)
    chk.run('C18.h', 'R-FLOW', 'popping returns exactly the announced bundle: a bundle is cut out of its datagram at its own item boundaries (= C13.e)', lambda ob: __import__('sa.props.c13', fromlist=['c13e']).c13e(tree, ob), floor=5)
    chk.run('C18.f', 'R-GUARD', 'a started transfer still completes (and gets its finished signal) while terminating (= C09.h); received UDPCL items get local ids (= C13.g)', lambda ob: _c18f(tree, ob), floor=3)
    chk.run('C18.i', 'R-ORDER', 'UDPCL reassembly is keyed by (address, port, transfer id): two senders on one host do not merge into one announced bundle (= C13.d)', lambda ob: __import__('sa.props.c13', fromlist=['c13d']).c13d(tree, ob), floor=6)
    chk.run('C18.j', 'R-ESCAPE', 'a UDPCL transfer that was announced as started gets its finished signal also when it cannot be cut into datagrams: that error surfaces where the datagrams are drawn (the cutter is a generator) or is caught where it is called', lambda ob: c18j(tree, ob), floor=1)
    chk.run('C18.e', 'R-SCHEMA', 'BP-side subscribers name existing signals with matching arity and pop only successful transfers', lambda ob: c18e(tree, ob), floor=6)


def _c18f(tree, ob):
    from .c09 import c09h
    from .c13 import c13g
    c09h(tree, ob)
    c13g(tree, ob, UAGENT)


def _dbus_decl(func):
    ''' ('signal'|'method', {kw: str}) for a dbus-decorated function. '''
    for deco in func.decorator_list:
        if isinstance(deco, ast.Call):
            name = dotted(deco.func) or ''
            if name in ('dbus.service.signal', 'dbus.service.method'):
                kws = {}
                for kw in deco.keywords:
                    if isinstance(kw.value, ast.Constant):
                        kws[kw.arg] = kw.value.value
                return name.split('.')[-1], kws, deco
    return None


def collect(tree, rel, clsname):
    sigs, meths = {}, {}
    for (r, cnode) in tree.mro(rel, clsname):
        for item in cnode.body:
            if isinstance(item, ast.FunctionDef):
                decl = _dbus_decl(item)
                if decl and decl[0] == 'signal' and item.name not in sigs:
                    sigs[item.name] = (decl[1].get('signature', ''), item, r)
                elif decl and decl[0] == 'method' and item.name not in meths:
                    meths[item.name] = (decl[1].get('in_signature', ''), decl[1].get('out_signature', ''), item, r, cnode.name)
    return sigs, meths


def _param_types(func):
    types = {}
    names = [a.arg for a in func.args.args]
    if func.name.startswith('recv_xfer') or func.name in ('recv_sess_term', '_rx_setup'):
        for nm in names:
            if nm in HANDLER_PARAM_TYPES:
                types[nm] = HANDLER_PARAM_TYPES[nm]
    for nm in names:
        if nm == 'extmap':
            types[nm] = 'peermap'
        if nm in ('state',) and func.name == '_update_state':
            types[nm] = '?'
    return types


def _check_args(tree, ob, rel, qual, func, call, signame, sig, what='emit'):
    elems = split_signature(sig)
    if any(isinstance(a, ast.Starred) for a in call.args) or call.keywords:
        raise AnalysisError('C18.a: unrecognised argument form at {}'.format(src(call)[:60]))
    if len(call.args) != len(elems):
        ob.violate(rel, qual, src(call)[:100], '{} of {} passes {} argument(s) but the signature {!r} has {}'.format(what, signame, len(call.args), sig, len(elems)), call)
        return
    fv = FuncView(tree, rel, qual)
    typer = Typer(tree, fv, _param_types(func))
    bad = []
    for (ix, (arg, elem)) in enumerate(zip(call.args, elems)):
        atype = typer.of(arg, call)
        if atype == 'int?':
            atype = 'int'
        if atype.startswith('mixed:'):
            parts = atype[6:].split('|')
            oks = [compatible(elem, 'int' if p == 'int?' else p) for p in parts]
            ok = False if any(o is False for o in oks) else (None if any(o is None for o in oks) else True)
        else:
            ok = compatible(elem, atype)
        if ok is False:
            bad.append('argument {} ({}) is {} but the signature element is {!r}'.format(ix + 1, src(arg)[:40], _tname(atype), elem))
        elif ok is None:
            ob.undetermined.append('{}: argument {} of {} ({}) has undetermined type for {!r}'.format(qual, ix + 1, signame, src(arg)[:40], elem))
    if bad:
        ob.violate(rel, qual, src(call)[:120], '{} of {} does not conform to {!r}: {}'.format(what, signame, sig, '; '.join(bad)), call)
    else:
        ob.site(rel, call, '{} {}{} conforms to {!r}'.format(what, signame, '', sig))


def _tname(t):
    return {'s': 'a string', 'int': 'an integer', 'bool': 'a boolean', 'bytes': 'bytes', 'dict': 'a dict', 'list': 'a list', 'none': 'None',
            'peer': 'a peer-decoded item of peer-chosen type (no str()/int() coercion)'}.get(t, t)


def _variant_ints(tree, ob):
    ''' recv_bundle_started carries the announced total length in a variant: dbus-python marshals a bare int there as INT32.
    _rx_setup is handed None today; a length taken from the peer must be wrapped (dbus.UInt64) first. '''
    cls = tree.klass(SESS, 'ContactHandler')
    for item in cls.body:
        if isinstance(item, ast.FunctionDef):
            for c in method_calls(item, '_rx_setup', 'self'):
                if len(c.args) >= 2:
                    a = c.args[1]
                    fvx = FuncView(tree, SESS, 'ContactHandler.' + item.name)
                    v = fvx.value_at(a, c, depth=2)
                    if (isinstance(v, ast.Constant) and v.value is None) or (isinstance(v, ast.Call) and (call_name(v) or '').startswith('dbus.UInt')):
                        ob.site(SESS, c, '_rx_setup: total length absent or explicitly typed')
                    else:
                        ob.violate(SESS, 'ContactHandler.' + item.name, src(c), 'an integer taken from the peer reaches the variant element of recv_bundle_started as a bare int (marshalled as INT32): an announced '
                                   'length of 2^31 or more raises OverflowError at emission, in the receive callback', c)


def _int_ranges(tree, ob):
    ''' An integer taken from a peer message and emitted in a signed 32-bit element must have been bounded. '''
    fv = FuncView(tree, UAGENT, 'Agent._recv_ext_map')
    for c in method_calls(fv.func, 'polling_received', 'self'):
        arg = c.args[1] if len(c.args) > 1 else None
        if not isinstance(arg, ast.Name):
            continue
        facts = fv.facts(c) or frozenset()
        bounded = any(arg.id in t and ('<' in t or '>' in t) and '2 ** 31' in t.replace('2147483648', '2 ** 31').replace('2147483647', '2 ** 31') for (t, p) in facts) or \
            any(t.startswith('0 <= {} <'.format(arg.id)) and p is True for (t, p) in facts)
        if bounded:
            ob.site(UAGENT, c, 'polling_received: the peer-supplied interval is bounded to INT32 before it is emitted')
        else:
            ob.violate(UAGENT, fv.qual, src(c)[:70], 'the interval comes from the peer unbounded and is emitted in an INT32 element: 2^31 or more cannot be marshalled and the emission fails in the io callback', c)


def _item_defaults(tree, ob):
    ''' the typer takes <item>.ack_length for an integer.  That holds from the moment the item exists only if the item class
    starts it as one: it is emitted (signature element 't') for a transfer that is refused before its first XFER_ACK. '''
    cls = tree.klass(SESS, 'BundleItem')
    stores = [(f, st, k, v) for (f, st, k, v) in stores_to_self_attr(cls, 'ack_length') if f.name == '__init__']
    ob.require(stores, 'BundleItem.__init__ sets ack_length')
    for (f, st, k, v) in stores:
        if isinstance(v, ast.Constant) and isinstance(v.value, int) and not isinstance(v.value, bool) and v.value >= 0:
            ob.site(SESS, st, 'ack_length is an integer from the start')
        else:
            ob.violate(SESS, 'BundleItem.__init__', src(st), 'the acknowledged length of a new item is not an integer: send_bundle_finished(id, ack_length, ...) for a transfer refused before any XFER_ACK '
                       'cannot be emitted (signature element \'t\'), the transfer never gets its finished signal and the session never turns idle', st)


def _length_width(tree, ob):
    ''' transfer and acknowledged lengths are 64-bit quantities on the wire (XFER_SEGMENT / XFER_ACK length fields, the Transfer
    Length extension); a signal that declares its length element narrower ('u', 'i', 'q' ...) cannot be emitted for a large
    transfer: OverflowError on emission, the progress or finished signal is lost. '''
    n = 0
    for (rel, clsname) in CLASSES:
        sigs, _m = collect(tree, rel, clsname)
        for (r, cnode) in tree.mro(rel, clsname):
            for item in cnode.body:
                if isinstance(item, ast.FunctionDef) and item.name in sigs:
                    params = [a.arg for a in item.args.args][1:]
                    elems = split_signature(sigs[item.name][0])
                    if len(params) != len(elems):
                        continue
                    for (pn, el) in zip(params, elems):
                        if pn in ('length', 'total_length', 'ack_length'):
                            n += 1
                            if el in ('t', 'x', 'v'):
                                ob.site(r, item, '{}.{}: {} travels as {!r}'.format(cnode.name, item.name, pn, el))
                            else:
                                ob.violate(r, '{}.{}'.format(cnode.name, item.name), "signature {!r}: {} as {!r}".format(sigs[item.name][0], pn, el), 'a transfer length is declared narrower than 64 bits: '
                                           'a length of 2**32 or more raises OverflowError when the signal is emitted, the transfer never gets that signal', item, sure=True)
    ob.require(n >= 5, 'length elements of signals: {}'.format(n))


def c18a(tree, ob):
    _int_ranges(tree, ob)
    _variant_ints(tree, ob)
    _item_defaults(tree, ob)
    _length_width(tree, ob)
    for (rel, clsname) in CLASSES:
        sigs, _m = collect(tree, rel, clsname)
        ob.require(sigs, 'no signals found on ' + clsname)
        # callback attributes bound to signals:  self.set_on_x(self.<signal>)
        cb = {}
        for (r, cnode) in tree.mro(rel, clsname):
            for item in cnode.body:
                if isinstance(item, ast.FunctionDef):
                    for call in calls_in(item):
                        if isinstance(call.func, ast.Attribute) and call.func.attr.startswith('set_on_') and len(call.args) == 1 \
                                and isinstance(call.args[0], ast.Attribute) and dotted(call.args[0].value) == 'self' and call.args[0].attr in sigs:
                            setter = tree.find_method(rel, clsname, call.func.attr)
                            if setter:
                                for sub in ast.walk(setter[2]):
                                    if isinstance(sub, ast.Assign) and self_attr(sub.targets[0]):
                                        cb[self_attr(sub.targets[0])] = call.args[0].attr
        for (r, cnode) in tree.mro(rel, clsname):
            for item in cnode.body:
                if not isinstance(item, ast.FunctionDef):
                    continue
                qual = cnode.name + '.' + item.name
                for call in calls_in(item):
                    if not (isinstance(call.func, ast.Attribute) and dotted(call.func.value) == 'self'):
                        continue
                    nm = call.func.attr
                    if nm in sigs:
                        _check_args(tree, ob, r, qual, item, call, nm, sigs[nm][0])
                    elif nm in cb:
                        _check_args(tree, ob, r, qual, item, call, cb[nm] + ' (via ' + nm + ')', sigs[cb[nm]][0])


def c18b(tree, ob):
    for (rel, clsname) in CLASSES:
        _s, meths = collect(tree, rel, clsname)
        for name, (insig, outsig, func, r, owner) in sorted(meths.items()):
            if not outsig:
                continue
            elems = split_signature(outsig)
            qual = owner + '.' + name
            fv = FuncView(tree, r, qual)
            typer = Typer(tree, fv, {})
            rets = [x for x in walk_local(func) if isinstance(x, ast.Return)]
            for ret in rets:
                if ret.value is None:
                    ob.violate(r, qual, 'return', 'method declared to return {!r} can return nothing'.format(outsig), ret)
                    continue
                if len(elems) != 1:
                    continue
                atype = typer.of(ret.value, ret)
                atype = 'int' if atype == 'int?' else atype
                ok = compatible(elems[0], atype)
                if ok is False:
                    ob.violate(r, qual, src(ret)[:100], 'returns {} but out_signature is {!r}'.format(_tname(atype), outsig), ret)
                elif ok is None:
                    ob.undetermined.append('{}: return {} undetermined for {!r}'.format(qual, src(ret.value)[:40], outsig))
                    ob.site(r, ret, '{} return undetermined ({})'.format(qual, outsig))
                else:
                    ob.site(r, ret, '{} returns {} for {!r}'.format(qual, atype, outsig))
    # a{sv} of session parameters: every value kind recorded at negotiation must be marshallable or converted
    fm = FuncView(tree, SESS, 'Messenger.merge_session_params')
    msgr = tree.klass(SESS, 'Messenger')
    recs = [(st, v) for (f, st, k, v) in stores_to_self_attr(msgr, '_sess_parameters') if f is fm.func]
    (st, v) = one(recs, 'record of the session parameters', ob)
    typer = Typer(tree, fm, {})
    kinds = {}
    for kw in v.keywords:
        kinds[kw.arg] = typer.of(kw.value, st)
    fg = FuncView(tree, SESS, 'ContactHandler.get_session_parameters')
    need_ip = [k for k, t in kinds.items() if t == 'obj:ipaddress']
    # None-valued entries (absent authn results) must be skipped
    skips = [n for n in walk_local(fg.func) if isinstance(n, ast.Continue) and fg.has(n, 'val is None', True)]
    if not skips:
        ob.violate(SESS, fg.qual, 'if val is None: continue', 'None-valued session parameters are handed to D-Bus, which cannot marshal them', fg.func)
    else:
        ob.site(SESS, skips[0], 'None values are skipped')
    if need_ip:
        conv = [n for n in walk_local(fg.func) if isinstance(n, ast.Assign) and pm('str(val)', n.value) is not None and src(n.targets[0]) == 'val']
        covered = False
        for n in conv:
            facts = fg.facts(n) or frozenset()
            for (text, pol) in facts:
                if pol and text.startswith('isinstance(val, '):
                    cls = text[len('isinstance(val, '):-1]
                    names = [c.strip() for c in cls.strip('()').split(',')]
                    if 'ipaddress._BaseAddress' in names or {'ipaddress.IPv4Address', 'ipaddress.IPv6Address'} <= set(names):
                        covered = True
        if covered:
            ob.site(SESS, conv[0], 'address objects of both families ({}) are converted with str()'.format(', '.join(need_ip)))
        else:
            ob.violate(SESS, fg.qual, 'isinstance(val, ...) -> str(val)', 'session parameter(s) {} hold ipaddress objects (IPv4 or IPv6) that are not all converted to strings before being returned as a{{sv}}'.format(need_ip), fg.func)
    # the returned dict is built only from converted values
    stores = [n for n in walk_local(fg.func) if isinstance(n, ast.Assign) and pm('params[key]', n.targets[0]) is not None]
    for n in stores:
        if src(n.value) != 'val':
            ob.violate(SESS, fg.qual, src(n), 'a value other than the converted one is returned', n)


def c18c(tree, ob):
    cls = tree.klass(SESS, 'ContactHandler')
    # RX: every insertion is announced in the same function, after the store
    for item in cls.body:
        if not isinstance(item, ast.FunctionDef):
            continue
        qual = 'ContactHandler.' + item.name
        stores = [n for n in walk_local(item) if isinstance(n, ast.Assign) and pm('self._rx_map[$k]', n.targets[0]) is not None]
        fins = method_calls(item, 'recv_bundle_finished', 'self')
        if stores or fins:
            fv = FuncView(tree, SESS, qual)
            for s in stores:
                if not fins or not fv.cfg.must_pass(fv.node(s), fv.cfg.exit, {fv.node(f) for f in fins}, include_exc=False)[0]:
                    ob.violate(SESS, qual, src(s), 'a bundle enters the receive queue without being announced as finished', s)
                else:
                    ob.site(SESS, s, 'RX map insert is followed by recv_bundle_finished')
            for f in fins:
                if const_str(f.args[2]) == 'success' and (not stores or not any(fv.dominates(s, f)[0] for s in stores)):
                    ob.violate(SESS, qual, src(f)[:80], 'a bundle is announced as received without being in the receive queue', f)
        # RX map leaves only via pop in the pop methods
        for call in calls_in(item):
            if isinstance(call.func, ast.Attribute) and self_attr(call.func.value) == '_rx_map' and call.func.attr in ('pop', 'clear', 'popitem', 'remove'):
                if item.name in ('recv_bundle_pop_data', 'recv_bundle_pop_file') and call.func.attr == 'pop' and len(call.args) == 1 and src(call.args[0]) == 'bid':
                    fvp = FuncView(tree, SESS, qual)
                    rd = fvp.reaching_defs('bid', call)
                    if len(rd) == 1 and rd[0][1] is not None and pm('int(bid)', rd[0][1]) is not None:
                        ob.site(SESS, call, item.name + ' pops exactly the requested id')
                    else:
                        ob.violate(SESS, qual, src(call), 'pop does not remove the requested transfer id', call)
                else:
                    ob.violate(SESS, qual, src(call), 'a received bundle leaves the queue outside the pop methods', call)
        for d in walk_local(item):
            if isinstance(d, ast.Delete) and any(pm('self._rx_map[$k]', t) is not None for t in d.targets):
                if item.name in ('recv_bundle_pop_data', 'recv_bundle_pop_file') and all(src(t.slice) == 'bid' for t in d.targets):
                    ob.site(SESS, d, item.name + ' removes exactly the requested id')
                else:
                    ob.violate(SESS, qual, src(d), 'a received bundle leaves the queue outside the pop methods', d)
    # UDPCL: a transfer that cannot be sent is finished as failed, and does not take the later ones with it (= C13.b)
    from .c13 import c13_tx_isolation
    c13_tx_isolation(tree, ob)
    # popping to a file: the transfer leaves the queue only once it has been written out
    for (rel, clsname, mapattr) in ((SESS, 'ContactHandler', '_rx_map'), (UAGENT, 'Agent', '_rx_queue')):
        if not tree.has_func(rel, clsname + '.recv_bundle_pop_file'):
            continue
        fp = FuncView(tree, rel, clsname + '.recv_bundle_pop_file')
        writes = [c for c in calls_in(fp.func) if (call_name(c) or '').endswith('copyfileobj') or (isinstance(c.func, ast.Attribute) and c.func.attr == 'write')]
        rem = [c for c in calls_in(fp.func) if isinstance(c.func, ast.Attribute) and self_attr(c.func.value) == mapattr and c.func.attr == 'pop'] + \
              [d for d in walk_local(fp.func) if isinstance(d, ast.Delete) and any(self_attr(getattr(t, 'value', None)) == mapattr for t in d.targets)]
        if not writes or not rem:
            raise AnalysisError('C18.c: unrecognised recv_bundle_pop_file in ' + rel)
        early = [r for r in rem if not all(fp.dominates(w, r)[0] for w in writes)]
        # ... and closed: a buffered file reports "no space" only when the with-block flushes it on exit
        inside = [r for r in rem if any(isinstance(a, ast.With) and any('open(' in src(i.context_expr) for i in a.items) for a in __import__('sa.core', fromlist=['ancestors']).ancestors(r))]
        if inside and not early:
            ob.violate(rel, fp.qual, src(inside[0])[:60] + ' inside the with-block of the output file', 'the transfer is removed from the receive queue before the output file is flushed and closed: a small '
                       'bundle written to a full file system fails only at close, and by then the transfer is gone', inside[0])
            continue
        if early:
            ob.violate(rel, fp.qual, src(early[0])[:60] + ' before the output file is written', 'the transfer is removed from the receive queue before the output file could be opened and written: '
                       'when that fails, a transfer announced as finished is gone and its data can never be obtained', early[0])
        else:
            ob.site(rel, rem[0], clsname + '.recv_bundle_pop_file removes the transfer only after writing it out')
    # the end of the connection ends every started transfer: exactly one finished signal each
    fc = FuncView(tree, SESS, 'ContactHandler.close')
    rfin = [f for f in method_calls(fc.func, 'recv_bundle_finished', 'self') if fc.has(f, 'self._rx_tmp is None', False) or '_rx_tmp' in src(enclosing(f, (ast.If,)) .test if enclosing(f, (ast.If,)) else f)]
    sfin = [f for f in method_calls(fc.func, 'send_bundle_finished', 'self') if enclosing(f, (ast.For,)) is not None and '_tx_map' in src(enclosing(f, (ast.For,)).iter)]
    if rfin and sfin:
        ob.site(SESS, rfin[0], 'close(): the transfer being received gets its finished signal')
        ob.site(SESS, sfin[0], 'close(): every transfer sent or awaiting its ACK gets its finished signal')
    else:
        ob.violate(SESS, fc.qual, 'close() without finished signals for transfers in progress', 'a transfer that was being received, sent or awaiting its acknowledgement when the connection closes was '
                   'announced as started and never gets a finished signal; the send queue goes on listing it', fc.func)
    # TX: every finished signal for a transfer is accompanied by its removal from the TX map
    for item in cls.body:
        if not isinstance(item, ast.FunctionDef):
            continue
        qual = 'ContactHandler.' + item.name
        fins = method_calls(item, 'send_bundle_finished', 'self')
        if not fins:
            continue
        fv = FuncView(tree, SESS, qual)
        pops = [c for c in calls_in(item) if isinstance(c.func, ast.Attribute) and self_attr(c.func.value) == '_tx_map' and c.func.attr == 'pop']
        dels = [n for n in walk_local(item) if isinstance(n, ast.Delete) and any(pm('self._tx_map[$k]', t) is not None for t in n.targets)]
        removers = {fv.node(p) for p in pops} | {fv.node(d) for d in dels}
        for f in fins:
            fn = fv.node(f)
            loop = enclosing(f, (ast.While, ast.For))
            goal = fv.node(loop.test if isinstance(loop, ast.While) else loop.iter) if loop is not None and enclosing(loop, (ast.FunctionDef,)) is item else fv.cfg.exit
            after = fv.cfg.must_pass(fn, goal, removers, include_exc=False)[0] if removers else False
            # removal earlier on every path to the emit (from function entry, or from the loop head within one iteration)
            before = any(fv.cfg.must_pass(fv.cfg.entry if goal is fv.cfg.exit else goal, fn, {r}, include_exc=False)[0] for r in removers)
            # a loop over the whole map followed on every path by self._tx_map.clear()
            clears = {fv.node(c) for c in calls_in(item) if pm('self._tx_map.clear()', c) is not None}
            whole = loop is not None and isinstance(loop, ast.For) and '_tx_map' in src(loop.iter) and clears and \
                fv.cfg.must_pass(fv.node(loop.iter), fv.cfg.exit, clears, include_exc=False)[0]
            if after or before or whole:
                ob.site(SESS, f, '{}: finished signal is paired with removal from the TX map'.format(item.name))
            else:
                ob.violate(SESS, qual, src(f)[:70].replace('\n', ' '), 'a transfer is announced as finished but stays in the TX map: send_bundle_get_queue keeps listing a finished id', f)
    # both maps are keyed by the integer transfer id: a text key never matches
    for item in cls.body:
        if not isinstance(item, ast.FunctionDef):
            continue
        qual = 'ContactHandler.' + item.name
        fvk = None
        keys = []
        for call in calls_in(item):
            if isinstance(call.func, ast.Attribute) and self_attr(call.func.value) in ('_tx_map', '_rx_map') and call.func.attr in ('pop', 'get', '__contains__') and call.args:
                keys.append((call, call.args[0]))
        for sub in walk_local(item):
            if isinstance(sub, ast.Subscript) and self_attr(sub.value) in ('_tx_map', '_rx_map'):
                keys.append((sub, sub.slice))
        for (site, key) in keys:
            fvk = fvk or FuncView(tree, SESS, qual)
            kt = Typer(tree, fvk, _param_types(item)).of(key, site)
            if kt == 's':
                ob.violate(SESS, qual, src(site)[:60], 'the transfer map is keyed by integer ids but is accessed with a text key here: nothing is found / removed, '
                           'so finished transfers stay listed and later messages for them are accepted', site, sure=True)
    # the TX map gains entries only when queued
    ins = []
    for item in cls.body:
        if isinstance(item, ast.FunctionDef):
            for n in walk_local(item):
                if isinstance(n, ast.Assign) and pm('self._tx_map[$k]', n.targets[0]) is not None:
                    ins.append((item, n))
    for (item, n) in ins:
        if item.name != '_add_queue_item':
            ob.violate(SESS, 'ContactHandler.' + item.name, src(n), 'TX map gains an entry outside queuing', n)
        else:
            fv = FuncView(tree, SESS, 'ContactHandler._add_queue_item')
            apps = [c for c in calls_in(item) if pm('self._tx_pend_start.append(item)', c) is not None]
            if src(n) != 'self._tx_map[item.transfer_id] = item' or not apps:
                ob.violate(SESS, fv.qual, src(n), 'queued item and TX map entry disagree', n)
            else:
                ob.site(SESS, n, 'TX map entry made with the queue append')
    # queue queries list exactly the map keys
    for (meth, attr) in (('send_bundle_get_queue', '_tx_map'), ('recv_bundle_get_queue', '_rx_map')):
        fv = FuncView(tree, SESS, 'ContactHandler.' + meth)
        rets = [r for r in walk_local(fv.func) if isinstance(r, ast.Return)]
        r = one(rets, 'return in ' + meth, ob)
        if pm('dbus.Array([str($b) for $b in self.{}.keys()])'.format(attr), r.value) is None and pm('dbus.Array([str($b) for $b in self.{}])'.format(attr), r.value) is None:
            ob.violate(SESS, fv.qual, src(r), 'queue query does not list exactly the keys of ' + attr, r)
        else:
            ob.site(SESS, r, meth + ' lists the map keys')
    # UDPCL
    fv = FuncView(tree, UAGENT, 'Agent._add_rx_item')
    stores = [n for n in walk_local(fv.func) if isinstance(n, ast.Assign) and pm('self._rx_queue[$k]', n.targets[0]) is not None]
    s = one(stores, 'UDPCL RX queue store', ob)
    fins = method_calls(fv.func, 'recv_bundle_finished', 'self')
    f = one(fins, 'UDPCL recv_bundle_finished', ob)
    if src(s) != 'self._rx_queue[item.transfer_id] = item' or src(f.args[0]) != 'str(item.transfer_id)' or not fv.dominates(s, f)[0]:
        ob.violate(UAGENT, fv.qual, src(f)[:80], 'UDPCL announces a different id than it queued, or announces before queuing', f)
    else:
        ob.site(UAGENT, f, 'UDPCL queue then announce the same id')


def _success_only_when_awaited(tree, ob):
    ''' "a started transfer never gets more than one finished signal": the final XFER_ACK finishes a transfer only while it
    is in the awaiting-acknowledgement set -- it entered it when its END segment went out and leaves it here.  Tested
    against any other set (not yet started, ...) an END acknowledgement that arrives early finishes a transfer that is
    still being sent, which is finished again when it ends. '''
    fv = FuncView(tree, SESS, 'ContactHandler.recv_xfer_ack')
    fins = [c for c in method_calls(fv.func, 'send_bundle_finished', 'self') if len(c.args) >= 3 and const_str(c.args[2]) == 'success']
    f = one(fins, "send_bundle_finished(..., 'success') in recv_xfer_ack", ob)
    if fv.has(f, 'item in self._tx_pend_ack', True) or fv.has(f, 'item not in self._tx_pend_ack', False):
        ob.site(SESS, f, "'success' only for a transfer awaiting its acknowledgement")
    else:
        ob.violate(SESS, fv.qual, src(f)[:70], "the final acknowledgement finishes a transfer that is not known to await it (the test is made against another set): an END acknowledgement arriving while "
                   'the transfer is still being sent gives it a finished signal now and another one later', f)


def _pend_ack_growth(tree, ob):
    ''' "it becomes true once all of that has drained": what the idle predicate waits for must be able to drain.  A transfer
    enters the awaiting-acknowledgement set only when its END segment has just been sent (the final XFER_ACK will take it
    out again); added on any other occasion -- a teardown after a refusal -- nothing ever removes it. '''
    cls = tree.klass(SESS, 'ContactHandler')
    n = 0
    for m in [x for x in cls.body if isinstance(x, ast.FunctionDef)]:
        for c in calls_in(m):
            if isinstance(c.func, ast.Attribute) and c.func.attr in ('add', 'update') and self_attr(c.func.value) == '_tx_pend_ack':
                n += 1
                fm = FuncView(tree, SESS, 'ContactHandler.' + m.name)
                ended = any(t.endswith('& messages.TransferSegment.Flag.END') and p is True for (t, p) in (fm.facts(c) or ()))
                if m.name == '_process_queue' and ended and [src(a) for a in c.args] == ['self._tx_tmp']:
                    ob.site(SESS, c, 'awaiting-ack set grows only by the transfer whose END segment was just sent')
                else:
                    ob.violate(SESS, 'ContactHandler.' + m.name, src(c), 'a transfer is put into the awaiting-acknowledgement set although its END segment was not just sent (e.g. on a teardown '
                               'after XFER_REFUSE): no acknowledgement will ever take it out, the idle indication never becomes true and a terminating session never closes', c)
    ob.require(n >= 1, 'growth of _tx_pend_ack')


def c18d(tree, ob):
    _pend_ack_growth(tree, ob)
    # the acknowledgement handler finishes the transfer: it must not be left by an arithmetic error on the way
    # audited divisor: delta_t = wall-clock difference between sending a segment and its acknowledgement (datetime.now() has
    # microsecond resolution; send and acknowledgement are separate event-loop callbacks)
    from .common import divisions_guarded
    n = divisions_guarded(tree, ob, [SESS], audited=((SESS, 'Messenger._modulate_tx_seg_size', 'delta_t'),))
    ob.require(n >= 1, 'divisions in the session code')
    _success_only_when_awaited(tree, ob)
    fv = FuncView(tree, SESS, 'ContactHandler.is_sess_idle')
    rets = [r for r in walk_local(fv.func) if isinstance(r, ast.Return)]
    r = one(rets, 'return in ContactHandler.is_sess_idle', ob)
    val = norm.strip(r.value)
    if isinstance(val, ast.BoolOp) and isinstance(val.op, ast.Or):
        ob.violate(SESS, fv.qual, src(r)[:100], 'idle predicate is a disjunction', r)
        return
    # every conjunct is one condition: a negated group ("not (a and b)") is true as soon as ONE of its members is empty
    for sub in ast.walk(val):
        if isinstance(sub, ast.UnaryOp) and isinstance(sub.op, ast.Not) and isinstance(norm.strip(sub.operand), ast.BoolOp):
            ob.violate(SESS, fv.qual, src(sub)[:80], 'the idle predicate negates a group of conditions: it is already true when only one of the queues in the group is empty '
                       '(a transfer awaiting its acknowledgement does not keep a terminating session open)', sub, sure=True)
            return
    atoms = set(norm.all_atoms(val))
    want = [('Messenger.is_sess_idle(self)', True), ('self._rx_tmp is None', True), ('self._tx_tmp is None', True),
            ('self._tx_pend_start', False), ('self._tx_pend_ack', False)]
    alt = {('self._tx_pend_start', False): [('len(self._tx_pend_start) == 0', True)], ('self._tx_pend_ack', False): [('len(self._tx_pend_ack) == 0', True)],
           ('Messenger.is_sess_idle(self)', True): [('super().is_sess_idle()', True), ('super(ContactHandler, self).is_sess_idle()', True)]}
    for w in want:
        if w in atoms or any(a in atoms for a in alt.get(w, [])):
            ob.site(SESS, r, 'idle requires ' + ('' if w[1] else 'not ') + w[0])
        else:
            ob.violate(SESS, fv.qual, ('' if w[1] else 'not ') + w[0], 'the idle indication ignores {} (it can be true while that is still pending)'.format(w[0]), r)
    fm = FuncView(tree, SESS, 'Messenger.is_sess_idle')
    rets = [x for x in walk_local(fm.func) if isinstance(x, ast.Return)]
    rm = one(rets, 'return in Messenger.is_sess_idle', ob)
    atoms = set(norm.all_atoms(rm.value))
    for buf in ('__rx_buf', '__tx_buf'):
        if ('len(self.{}) == 0'.format(buf), True) in atoms or ('self.' + buf, False) in atoms:
            ob.site(SESS, rm, 'message-level {} must be empty'.format(buf))
        else:
            ob.violate(SESS, fm.qual, 'len(self.{}) == 0'.format(buf), 'the idle indication ignores octets waiting in ' + buf, rm)
    if isinstance(norm.strip(rm.value), ast.BoolOp) and isinstance(norm.strip(rm.value).op, ast.Or):
        ob.violate(SESS, fm.qual, src(rm), 'buffer idle test is a disjunction', rm)
    # the connection layer below keeps its own octet buffer(s): what the message layer handed down but the socket has
    # not accepted yet is still pending (close() discards it)
    conn = tree.klass(SESS, 'Connection')
    init = next((m for m in conn.body if isinstance(m, ast.FunctionDef) and m.name == '__init__'), None)
    ob.require(init is not None, 'Connection.__init__ missing')
    bufs = []
    for n in walk_local(init):
        if isinstance(n, ast.Assign) and isinstance(n.value, ast.Constant) and isinstance(n.value.value, bytes):
            for t in n.targets:
                if isinstance(t, ast.Attribute) and dotted(t.value) == 'self':
                    bufs.append(t.attr)
    getters = {}
    for m in conn.body:
        if isinstance(m, ast.FunctionDef):
            for r2 in walk_local(m):
                if isinstance(r2, ast.Return) and r2.value is not None:
                    for b in bufs:
                        if 'self.' + b in src(r2.value):
                            getters.setdefault(b, set()).add(m.name)
    called = {c.func.attr for c in calls_in(rm) if isinstance(c.func, ast.Attribute) and dotted(c.func.value) in ('self', 'Connection')}
    for b in bufs:
        if 'tx' not in b:
            continue
        if getters.get(b, set()) & called:
            ob.site(SESS, rm, 'connection-level {} must be empty (through {})'.format(b, sorted(getters[b] & called)[0]))
        else:
            ob.violate(SESS, fm.qual, 'Connection.{} not part of the idle indication'.format(b), 'the idle indication ignores octets the message layer handed to the connection layer but the socket has not accepted '
                       'yet: a terminating endpoint closes with them unsent (e.g. the final XFER_ACK, or its own SESS_TERM, truncated)', rm)


def c18e(tree, ob):
    iface_map = {}
    for (rel, clsname) in CLASSES + [(BAGENT, 'Agent')]:
        cnode = tree.klass(rel, clsname)
        for item in cnode.body:
            if isinstance(item, ast.Assign) and src(item.targets[0]) == 'DBUS_IFACE' and isinstance(item.value, ast.Constant):
                iface_map[item.value.value] = (rel, clsname)
    for (rel, qual, func) in tree.all_functions([CLA]):
        for call in calls_in(func):
            if not (isinstance(call.func, ast.Attribute) and call.func.attr == 'connect_to_signal' and len(call.args) >= 2):
                continue
            signame = const_str(call.args[0])
            ob.require(signame is not None, 'connect_to_signal with a non-literal name')
            # interface: dbus.Interface(obj, <X>.DBUS_IFACE) bound to the receiver variable
            recv = call.func.value
            iface = None
            if isinstance(recv, ast.Name):
                for (st, val) in norm.local_assigns(func, recv.id) or norm.local_assigns(enclosing(func, (ast.FunctionDef,)) or func, recv.id):
                    if isinstance(val, ast.Call) and (call_name(val) or '').endswith('dbus.Interface') and len(val.args) == 2:
                        iface = val.args[1]
            if iface is None and isinstance(recv, ast.Call) and (call_name(recv) or '').endswith('dbus.Interface') and len(recv.args) == 2:
                iface = recv.args[1]   # dbus.Interface(obj, IFACE).connect_to_signal(...)
            ob.require(iface is not None, 'cannot resolve the D-Bus interface of {}'.format(src(call)[:60]))
            ifname = None
            if isinstance(iface, ast.Attribute) and iface.attr == 'DBUS_IFACE':
                owner = dotted(iface.value)
                ocls = enclosing(func, (ast.ClassDef,)).name if owner == 'self' else owner
                for item in tree.klass(CLA, ocls).body:
                    if isinstance(item, ast.Assign) and src(item.targets[0]) == 'DBUS_IFACE' and isinstance(item.value, ast.Constant):
                        ifname = item.value.value
            ob.require(ifname in iface_map, 'unknown D-Bus interface {}'.format(ifname))
            (arel, acls) = iface_map[ifname]
            sigs, _m = collect(tree, arel, acls)
            if signame not in sigs:
                ob.violate(CLA, qual, src(call)[:80], 'subscribes to signal {!r} which {} does not declare'.format(signame, ifname), call)
                continue
            nargs = len(split_signature(sigs[signame][0]))
            hexpr = call.args[1]
            hfunc = None
            if isinstance(hexpr, ast.Attribute) and dotted(hexpr.value) == 'self':
                fm = tree.find_method(CLA, enclosing(func, (ast.ClassDef,)).name, hexpr.attr)
                hfunc = fm[2] if fm else None
                npar = len(hfunc.args.args) - 1 if hfunc else None
            elif isinstance(hexpr, ast.Name):
                hfunc = next((n for n in ast.walk(func) if isinstance(n, ast.FunctionDef) and n.name == hexpr.id), None)
                npar = len(hfunc.args.args) if hfunc else None
            ob.require(hfunc is not None, 'cannot resolve handler ' + src(hexpr))
            if npar != nargs and not hfunc.args.vararg:
                ob.violate(CLA, qual, src(call)[:80], 'handler {} takes {} argument(s) but signal {} carries {}'.format(hfunc.name, npar, signame, nargs), call)
            else:
                ob.site(CLA, call, '{}.{} -> {} arity {}'.format(ifname.split('.')[-2], signame, hfunc.name, nargs))
            if signame == 'recv_bundle_finished' and ifname.endswith('tcpcl.Contact'):
                fvh = FuncView(tree, CLA, qual + '.' + hfunc.name) if tree.has_func(CLA, qual + '.' + hfunc.name) else None
                ob.require(fvh is not None, 'cannot view TCPCL finished handler')
                pops = [c for c in calls_in(hfunc) if isinstance(c.func, ast.Attribute) and c.func.attr == 'recv_bundle_pop_data']
                p = one(pops, 'pop in the TCPCL finished handler', ob)
                res = hfunc.args.args[2].arg
                if not fvh.has(p, "{} == 'success'".format(res), True):
                    ob.violate(CLA, qual, src(p), 'the BP adaptor pops a transfer that was not announced as success', p)
                elif src(p.args[0]) != hfunc.args.args[0].arg:
                    ob.violate(CLA, qual, src(p), 'the BP adaptor pops a different id than the one announced', p)
                else:
                    ob.site(CLA, p, 'TCPCL adaptor pops the announced id only on success')


def c18j(tree, ob):
    UA = 'udpcl/agent.py'
    fs = FuncView(tree, UA, 'Agent._send_transfer')
    is_gen = any(isinstance(x, (ast.Yield, ast.YieldFrom)) for x in walk_local(fs.func))
    raises = [r for r in walk_local(fs.func) if isinstance(r, ast.Raise)]
    n = 0
    for (r, qual, func) in tree.all_functions([UA]):
        for c in calls_in(func):
            if not (isinstance(c.func, ast.Attribute) and c.func.attr == '_send_transfer' and src(c.func.value) == 'self'):
                continue
            n += 1
            in_try = False
            prev = c
            cur = getattr(c, '_parent', None)
            while cur is not None and cur is not func:
                if isinstance(cur, ast.Try) and any(prev is st or prev in ast.walk(st) for st in cur.body) and cur.handlers:
                    in_try = True
                prev = cur
                cur = getattr(cur, '_parent', None)
            if is_gen or in_try or not raises:
                ob.site(UA, c, qual + ': the cutter ' + ('is a generator: its errors surface where the datagrams are drawn (and reported)' if is_gen else 'is called under a handler' if in_try else 'cannot raise'))
            else:
                ob.violate(UA, qual, src(c)[:70], 'the datagrams of the transfer are now built at this call (the cutter is no longer a generator) and the call is not guarded: "segment overhead too large '
                           'for MTU" escapes the TX worker after send_bundle_started was emitted and the item was taken off the queue; the transfer never gets a finished signal', c)
    ob.require(n >= 1, 'calls of _send_transfer in udpcl/agent.py')
